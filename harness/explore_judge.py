"""Direct oracles over one explorer run: each judge_<prop>(run) returns a list of
(signature, witness, what) for violations of that property's statement on the real run."""
import re

from botocore.exceptions import IncompleteReadError, ReadTimeoutError

from explore import UserExc, obj_bytes
from fakes3 import InjectedBase, InjectedFault, InjectedInterrupt

_FATAL = (InjectedFault, InjectedInterrupt, InjectedBase)
from sched import Deadlock, Livelock

FINAL = ('success', 'failed', 'cancelled')


def _ti_of_key(key):
    m = re.search(r'(\d+)$', key or '')
    return int(m.group(1)) if m else None


def _ti_of_req(e):
    a = e['args']
    if 'Key' in a:
        if a['Key'] == 'fresh':
            return 99
        if a['Key'].startswith('chained-'):
            return 98
        return _ti_of_key(a['Key'])
    return None


class View:
    def __init__(self, run):
        self.run = run
        self.sc = run.sc
        self.env = run.env
        self.fake = run.fake
        self.ev = run.env.events
        self.reqs = [dict(e, ti=_ti_of_req(e)) for e in self.fake.log]
        self.n = len(self.sc['transfers'])
        self.cancel = self.sc.get('cancel')
        self._fired = None

    def events(self, kind, ti=None):
        return [e for e in self.ev if e['k'] == kind and (ti is None or e.get('ti') == ti)]

    def req_events(self, ti=None, op=None, phase=None):
        return [e for e in self.reqs if (ti is None or e['ti'] == ti) and (op is None or e['op'] == op)
                and (phase is None or e['phase'] == phase)]

    def outcome(self, ti):
        return self.run.outcomes.get(ti)

    def fired(self):
        """all faults that actually fired: dicts {ti, site, exc, retryable}"""
        if self._fired is not None:
            return self._fired
        out = []
        for f in self.fake.fired:
            if f['op'] == 'body-read':
                ti = _ti_of_key(f.get('key'))
                out.append({'ti': ti, 'site': 'body', 'exc': f['exc'],
                            'retryable': not isinstance(f['exc'], _FATAL)})
            else:
                # request fault: find the request with that op and seq
                ti = None
                for e in self.reqs:
                    if e['op'] == f['op'] and e['seq'] == f['nth'] and e['phase'] == 'begin':
                        ti = e['ti']
                out.append({'ti': ti, 'site': 'req:%s:%s' % (f['op'], f['when']), 'exc': f['exc'],
                            'retryable': f['op'] == 'get_object' and not isinstance(f['exc'], _FATAL)})
        # FaultPlan.check and _call both append; de-duplicate by exception identity
        seen, ded = set(), []
        for f in out:
            if id(f['exc']) not in seen:
                seen.add(id(f['exc']))
                ded.append(f)
        for f in self.env.fired_log:
            ded.append({'ti': f['ti'], 'site': f['site'], 'exc': f['exc'], 'retryable': False})
        self._fired = ded
        return ded

    def manager_cancel(self):
        return self.cancel and self.cancel['kind'] in ('shutdown', 'exit-exc', 'interrupt-exit')

    def wit(self, **extra):
        w = {'scenario': _plain(self.sc), 'schedule_len': len(self.run.sch.choices)}
        w.update(extra)
        return w


def _plain(sc):
    import json
    return json.loads(json.dumps(sc, default=str))


def _is_cancel_exc(e):
    from s3transfer.exceptions import CancelledError
    return isinstance(e, CancelledError)


# --------------------------------------------------------------------------- C04
def judge_C04(v):
    out = []
    run = v.run
    if isinstance(run.failure, Deadlock):
        # executors left idle because shutdown raised are a consequence of that error, judged under C07
        if run.main_error is not None and all('executor-idle' in str(b) for _, b in run.sch.blocked_summary()):
            pass
        else:
            reent = [s.get('reentrant') for t in v.sc['transfers'] for s in t['subscribers'] if s.get('reentrant')]
            sig = 'deadlock'
            if any(('cancel' in r or 'set_exception' in r) for r in reent):
                sig = 'deadlock:reentrant-on-done'
            out.append((sig, v.wit(blocked=[(n, str(b)) for n, b in run.sch.blocked_summary()],
                                   schedule=run.sch.choices[:400]),
                        'deadlock: %s' % run.failure))
    elif isinstance(run.failure, Livelock):
        out.append(('livelock', v.wit(schedule=run.sch.choices[:200]), str(run.failure)))
    for name, e, tb in run.sch.thread_errors:
        out.append(('thread-died:%s' % type(e).__name__, v.wit(thread=name, traceback=tb[-600:]),
                    'managed thread %s died with %r' % (name, e)))
    if run.failure is None and run.main_error is None:
        for ti, f in run.futures.items():
            if not f.done():
                out.append(('future-not-done', v.wit(ti=ti), 'transfer %d not done after shutdown' % ti))
        for ti, f in run.env.chained:
            if not f.done():
                out.append(('future-not-done:chained', v.wit(ti=ti),
                            'the transfer submitted from on_done of transfer %d is not done after shutdown' % ti))
    return out


# --------------------------------------------------------------------------- C03
def judge_C03(v):
    from s3transfer.exceptions import RetriesExceededError
    out = []
    fired = v.fired()
    for ti in range(v.n):
        oc = v.outcome(ti)
        if oc is None:
            continue
        t = v.sc['transfers'][ti]
        mine = [f for f in fired if f['ti'] == ti]
        reent_set = any('set_exception' in (s.get('reentrant') or []) for s in t['subscribers'])
        if oc[0] == 'ok':
            for f in mine:
                site = f['site']
                if f['retryable']:
                    continue          # recovered by a later attempt (budget judged below)
                if site.startswith('req:abort_multipart_upload'):
                    continue          # cleanup failure is swallowed; the transfer had failed already
                if site == 'cb-done':
                    continue
                out.append(('false-success:%s:%s' % (t['kind'], site.split(':')[0] + (':' + site.split(':')[1] if ':' in site else '')),
                            v.wit(ti=ti, fault=site), 'transfer %d (%s) reported success although %s raised %r'
                            % (ti, t['kind'], site, f['exc'])))
        elif oc[0] == 'raise' and not reent_set:
            e = oc[1]
            ok = False
            if any(e is f['exc'] for f in mine):
                ok = True
            elif isinstance(e, RetriesExceededError) and any(e.last_exception is f['exc'] for f in mine):
                ok = True
            elif _is_cancel_exc(e) and v.cancel is not None:
                ok = True
            elif isinstance(e, UserExc) and str(getattr(e, 'tag', '')).startswith('set-by'):
                ok = True
            if not ok:
                out.append(('reported-exception-not-a-real-failure:%s' % type(e).__name__,
                            v.wit(ti=ti, reported=repr(e), fired=[(f['site'], repr(f['exc'])) for f in mine]),
                            'transfer %d raised %r which is none of the failures that occurred %r'
                            % (ti, e, [repr(f['exc']) for f in mine])))
        # retry bounds per range
        if t['kind'] == 'download':
            per = {}
            for e in v.req_events(ti, 'get_object', 'begin'):
                per.setdefault(e['args'].get('Range', 'whole'), []).append(e)
            for rng, evs in per.items():
                if len(evs) > v.sc['cfg']['num_download_attempts']:
                    out.append(('too-many-attempts', v.wit(ti=ti, range=rng, gets=len(evs)),
                                '%d GETs for one range, num_download_attempts=%d' % (len(evs), v.sc['cfg']['num_download_attempts'])))
            fatal_t = [f for f in v.fake.fired if f['op'] == 'body-read' and isinstance(f['exc'], InjectedFault)
                       and _ti_of_key(f.get('key')) == ti]
            for f in fatal_t:
                key, rng, start = None, None, None
                # tag = (Key, Range, start)
                for b in v.fake.body_log:
                    pass
    return out


# --------------------------------------------------------------------------- C05
def judge_C05(v):
    out = []
    for uid, up in v.fake.uploads.items():
        if not up.get('returned'):
            continue
        ti = _ti_of_key(up['key'])
        oc = v.outcome(ti)
        evs = [e for e in v.reqs if e['args'].get('UploadId') == uid]
        aborts = [e for e in evs if e['op'] == 'abort_multipart_upload' and e['phase'] == 'begin']
        completes = [e for e in evs if e['op'] == 'complete_multipart_upload' and e['phase'] == 'begin']
        w = lambda **kw: v.wit(ti=ti, upload_id=uid, requests=[(e['t'], e['op'], e['phase'], e['outcome']) for e in evs][:40], **kw)
        if len(completes) > 1:
            out.append(('completed-twice', w(), 'upload %s: CompleteMultipartUpload issued %d times' % (uid, len(completes))))
        if oc is not None:
            if oc[0] == 'ok':
                if up['completes'] != 1 or aborts:
                    out.append(('success-but-not-completed-once', w(),
                                'future succeeded: completes=%d aborts=%d' % (up['completes'], len(aborts))))
            elif oc[0] == 'raise' and not aborts:
                out.append(('failed-but-left-open', w(outcome=repr(oc[1])),
                            'future failed (%r) but no AbortMultipartUpload was issued for %s' % (oc[1], uid)))
            elif oc[0] == 'raise':
                ends = [e for e in evs if e['op'] == 'abort_multipart_upload' and e['phase'] == 'end']
                if ends and all(e['outcome'] == 'raise:ParamValidationError' for e in ends):
                    # the client rejected the call before sending anything: the abort never reached the service
                    out.append(('failed-but-left-open:abort-rejected-by-the-client',
                                w(outcome=repr(oc[1]), abort_args=sorted(aborts[0]['args'])),
                                'future failed (%r) and the AbortMultipartUpload for %s carried parameters the operation does not '
                                'have (%s): botocore rejects it before sending, the upload stays open'
                                % (oc[1], uid, sorted(aborts[0]['args']))))
        if aborts:
            ta = aborts[0]['t']
            for e in evs:
                if e['phase'] == 'begin' and e['t'] > ta and e['op'] in ('upload_part', 'upload_part_copy', 'complete_multipart_upload'):
                    out.append(('request-after-abort', w(), '%s issued after the abort of %s' % (e['op'], uid)))
                    break
            begins = [e for e in evs if e['phase'] == 'begin' and e['t'] < ta and e['op'] != 'abort_multipart_upload']
            for b in begins:
                ends = [e for e in evs if e['phase'] == 'end' and e['op'] == b['op'] and e['seq'] == b['seq']]
                if not ends or ends[0]['t'] > ta:
                    out.append(('abort-before-requests-returned', w(in_flight=b['op']),
                                'abort of %s issued while %s (seq %s) was still in flight' % (uid, b['op'], b['seq'])))
                    break
            # the create itself must have returned too
            done_t = [e['t'] for e in v.events('result-returned', ti)]
            if done_t and ta > done_t[0] and oc and oc[0] == 'raise':
                out.append(('abort-after-done', w(), 'abort issued only after result() returned'))
    return out


# --------------------------------------------------------------------------- C06
def judge_C06(v):
    out = []
    for c in v.env.c06_violations:
        out.append(('partial-content-visible', v.wit(**c), 'destination path showed neither previous nor complete content '
                    '(%s bytes) at scheduling step %d' % (c['have_len'], c['step'])))
    for ti, t in enumerate(v.sc['transfers']):
        if t['kind'] != 'download' or t.get('dest') != 'path':
            continue
        oc = v.outcome(ti)
        if oc is None:
            continue
        rr = v.events('result-returned', ti)
        listing = rr[0]['listing'] if rr else v.run.leftover
        temps = [n for n in listing if n.startswith('dst%d.' % ti)]
        if temps:
            out.append(('temp-file-left:%s' % oc[0], v.wit(ti=ti, files=temps, outcome=oc[0]),
                        'temporary file %s present when result() returned (%s)' % (temps, oc[0])))
        late = [n for n in (v.run.leftover or []) if n.startswith('dst%d.' % ti)]
        if late and not temps:
            out.append(('temp-file-appeared-after-done:%s' % oc[0], v.wit(ti=ti, files=late, outcome=oc[0]),
                        'temporary file %s exists after the manager shut down although none existed when result() returned '
                        '(a write ran after the cleanup)' % late))
        if rr:
            t_done = rr[0]['t']
            after = [e for e in v.ev if e['k'] in ('fs-open', 'fs-write') and e['t'] > t_done
                     and str(e.get('name', '')).startswith('dst%d' % ti)]
            if after:
                out.append(('file-activity-after-done', v.wit(ti=ti, ops=[(e['k'], e.get('name')) for e in after][:4], outcome=oc[0]),
                            'the destination / temporary file of download %d was opened or written after result() returned' % ti))
        final = v.run.final_files.get('dst%d' % ti)
        prev = v.run.specs[ti].get('previous')
        obj = v.run.specs[ti]['data']
        if oc[0] == 'ok':
            if final != obj:
                out.append(('success-but-wrong-file', v.wit(ti=ti), 'download succeeded but the file differs from the object'))
        else:
            cancelled = _is_cancel_exc(oc[1]) if oc[0] == 'raise' else False
            allowed = [prev] + ([obj] if cancelled else [])
            if final not in allowed:
                out.append(('failure-changed-destination', v.wit(ti=ti, outcome=repr(oc[1]), have=None if final is None else len(final)),
                            'after %r the destination holds %s bytes; previous content was %s'
                            % (oc[1], None if final is None else len(final), None if prev is None else len(prev))))
    return out


# --------------------------------------------------------------------------- C07
def judge_C07(v):
    from s3transfer.exceptions import CancelledError, FatalError
    out = []
    c = v.cancel
    run = v.run
    if run.failure is not None and c:
        # the run hangs although a cancellation was issued: some transfer never finishes
        # (done() may already be true — status cancelled — while done was never announced: result() waits for the event)
        stuck = [ti for ti, f in run.futures.items()
                 if not f.done() or not getattr(f._coordinator._done_event, 'flag', True)]
        if stuck:
            out.append(('cancelled-transfer-never-finishes:%s' % c['kind'],
                        v.wit(transfers=stuck, statuses=[run.futures[ti]._coordinator.status for ti in stuck], failure=repr(run.failure)[:200]),
                        'after %s the transfers %s never finish (status %s): result() blocks for ever'
                        % (c['kind'], stuck, [run.futures[ti]._coordinator.status for ti in stuck])))
        return out
    if run.main_error is not None:
        e = run.main_error[0]
        kind = c['kind'] if c else None
        out.append(('entry-point-raises:%s:%s' % (kind, type(e).__name__), v.wit(traceback=run.main_error[1][-500:]),
                    'cancellation entry point %s raised %r' % (kind, e)))
        return out
    if not c:
        return out
    # a cancelled transfer leaves nothing behind (C06's file checks, for transfers that ended cancelled)
    for sig, wit, what in judge_C06(v):
        ti = wit.get('ti') if isinstance(wit, dict) else None
        oc = v.outcome(ti) if ti is not None else None
        if sig.startswith(('temp-file', 'file-activity-after-done')) and oc and oc[0] == 'raise' and _is_cancel_exc(oc[1]):
            out.append(('cancelled:' + sig, wit, what))
    if c['kind'] == 'future':
        ti = c['transfer']
        ret = v.events('cancel-returned', ti)
        oc = v.outcome(ti)
        if ret and oc:
            st = ret[0]['status']
            if st == 'cancelled':
                if oc[0] == 'raise' and not (type(oc[1]) is CancelledError and str(oc[1]) == ''):
                    if not any('set_exception' in (s.get('reentrant') or []) for s in v.sc['transfers'][ti]['subscribers']):
                        out.append(('cancelled-but-reports-other', v.wit(ti=ti, reported=repr(oc[1])),
                                    'status was cancelled after cancel() returned but result() raised %r' % (oc[1],)))
            if st not in FINAL:
                out.append(('cancel-returned-not-done', v.wit(ti=ti, status=st), 'after cancel() the transfer is not done (%s)' % st))
        # not started when cancelled => announced by the cancelling thread => no request at all
        dn = v.events('cb-done', ti)
        cancelled_unstarted = any(e['th'] == 'canceller' and e['status'] == 'cancelled' for e in dn)
        if not v.sc['transfers'][ti]['subscribers']:
            cancelled_unstarted = (ret and ret[0]['status'] == 'cancelled' and v.events('cancel-call', ti)
                                   and v.events('cancel-call', ti)[0]['status'] == 'not-started'
                                   and not v.events('cb-queued', ti) and False)
        if cancelled_unstarted:
            reqs = v.req_events(ti, phase='begin')
            if reqs:
                out.append(('request-for-unstarted-cancelled', v.wit(ti=ti, ops=[e['op'] for e in reqs]),
                            'transfer cancelled before it started still issued %s' % [e['op'] for e in reqs]))
            if v.events('cb-queued', ti):
                out.append(('on-queued-for-unstarted-cancelled', v.wit(ti=ti), 'on_queued ran for a transfer cancelled before starting'))
    if c['kind'] in ('shutdown', 'exit-exc', 'interrupt-exit'):
        if c['kind'] == 'shutdown':
            want_t, want_m = CancelledError, c['msg']
        elif c['kind'] == 'interrupt-exit':
            want_t, want_m = CancelledError, 'KeyboardInterrupt()'
        elif c['exc'] == 'interrupt':
            want_t, want_m = CancelledError, 'KeyboardInterrupt()'
        elif c['exc'] == 'empty-msg':
            want_t, want_m = FatalError, None
        else:
            want_t, want_m = FatalError, 'user-exc:with-block'
        for ti in range(v.n):
            oc = v.outcome(ti)
            if oc and oc[0] == 'raise' and _is_cancel_exc(oc[1]):
                if type(oc[1]) is not want_t or (want_m is not None and str(oc[1]) != want_m):
                    out.append(('wrong-cancel-error:%s' % c['kind'], v.wit(ti=ti, reported=repr(oc[1])),
                                'cancelled through %s: expected %s(%r), got %r' % (c['kind'], want_t.__name__, want_m, oc[1])))
    if c['kind'] == 'interrupt-result':
        # the transfer whose result() was interrupted must end cancelled unless it finished first
        for ti in range(v.n):
            oc = v.outcome(ti)
            if oc and oc[0] == 'interrupt':
                out.append(('interrupt-left-pending', v.wit(ti=ti), 'result() kept raising KeyboardInterrupt'))
    return out


# --------------------------------------------------------------------------- C08
def judge_C08(v):
    out = []
    if v.run.failure is not None:
        # the run did not finish (C04 reports the hang): a transfer whose on_done never ran although every
        # thread is blocked or idle will never be announced — on_done does not run "exactly once"
        for ti, t in enumerate(v.sc['transfers']):
            if not t['subscribers'] or any(s.get('reentrant') for s in t['subscribers']) or not v.events('submit', ti):
                continue
            ran = {e.get('sub') for e in v.events('cb-done', ti)}
            missing = [s['id'] for s in t['subscribers'] if s['id'] not in ran]
            if missing:
                fut = v.run.futures.get(ti)
                status = fut._coordinator.status if fut is not None else 'the submitting call never returned'
                out.append(('on-done-never-ran', v.wit(ti=ti, status=status, subscribers_without_on_done=missing,
                                                        failure=repr(v.run.failure)[:200]),
                            'transfer %d (status %s): on_done of subscriber(s) %s never ran and never will (every thread is blocked or idle)'
                            % (ti, status, missing)))
        return out
    for ti, t in enumerate(v.sc['transfers']):
        oc = v.outcome(ti)
        if oc is None or not t['subscribers']:
            continue
        reqs = v.req_events(ti)
        first_req = min([e['t'] for e in reqs if e['phase'] == 'begin'] or [None], default=None) if reqs else None
        q_raised = any(s.get('raise_in') == 'queued' for s in t['subscribers'])
        dn_all = v.events('cb-done', ti)
        first_done = min([e['t'] for e in dn_all], default=None)
        unstarted_cancel = bool(dn_all) and all(e['status'] == 'cancelled' for e in dn_all) and not reqs \
            and not v.events('cb-queued', ti)
        for s in t['subscribers']:
            q = [e for e in v.events('cb-queued', ti) if e['sub'] == s['id']]
            d = [e for e in dn_all if e['sub'] == s['id']]
            if len(d) != 1:
                out.append(('on-done-count:%d' % len(d), v.wit(ti=ti, sub=s['id'], outcome=oc[0],
                                                               threads=[e['th'] for e in d]),
                            'on_done of subscriber %d ran %d times (outcome %s)' % (s['id'], len(d), oc[0])))
            if len(q) > 1:
                out.append(('on-queued-twice', v.wit(ti=ti, sub=s['id']), 'on_queued ran %d times' % len(q)))
            if len(q) == 0 and not unstarted_cancel and not q_raised:
                # a transfer cancelled before it started never runs on_queued; anything else must
                started = any(e['k'] == 'cb-queued' and e.get('ti') == ti for e in v.ev) or reqs
                if started or (oc[0] == 'ok'):
                    out.append(('on-queued-missing', v.wit(ti=ti, sub=s['id'], outcome=oc[0]), 'on_queued never ran'))
            if q and first_req is not None and q[0]['t'] > first_req:
                out.append(('on-queued-after-request', v.wit(ti=ti, sub=s['id']), 'on_queued ran after the first S3 request'))
            for e in d:
                if e['status'] not in FINAL or not e['done'] or not e['event']:
                    out.append(('on-done-before-final', v.wit(ti=ti, sub=s['id'], status=e['status'], event=e['event']),
                                'on_done ran with status %s, done()=%s, result() %s' %
                                (e['status'], e['done'], 'unblocked' if e['event'] else 'still blocking')))
        if first_done is not None:
            late = [e for e in reqs if e['t'] > first_done]
            inflight = []
            for b in [e for e in reqs if e['phase'] == 'begin' and e['t'] < first_done]:
                ends = [e for e in reqs if e['phase'] == 'end' and e['op'] == b['op'] and e['seq'] == b['seq']]
                if not ends or ends[0]['t'] > first_done:
                    inflight.append(b['op'])
            if late or inflight:
                out.append(('on-done-before-requests-returned', v.wit(ti=ti, late=[(e['op'], e['phase']) for e in late][:6], inflight=inflight),
                            'on_done began while requests of the transfer were still running/issued: %s %s'
                            % (inflight, [(e['op'], e['phase']) for e in late][:4])))
            prog_late = [e for e in v.events('cb-progress', ti) if e['t'] > first_done]
            if prog_late:
                out.append(('progress-after-on-done', v.wit(ti=ti), 'on_progress delivered after on_done began'))
            fs_late = [e for e in v.ev if e['k'] in ('fs-remove', 'fs-close', 'fs-rename') and e['t'] > first_done
                       and e.get('name', e.get('src', '')).startswith('dst%d' % ti)]
            if fs_late:
                out.append(('cleanup-after-on-done', v.wit(ti=ti, ops=[e['k'] for e in fs_late]),
                            'file cleanup %s ran after on_done began' % [e['k'] for e in fs_late]))
        if any(s.get('provide_size') is not None for s in t['subscribers']) and not q_raised:
            if v.req_events(ti, 'head_object', 'begin'):
                out.append(('head-despite-provided-size', v.wit(ti=ti), 'size was provided in on_queued but HeadObject was issued'))
    return out


# --------------------------------------------------------------------------- C09
def judge_C09(v):
    out = []
    for ti, t in enumerate(v.sc['transfers']):
        oc = v.outcome(ti)
        if oc is None or oc[0] != 'ok' or t['kind'] == 'delete':
            continue
        if any(s.get('raise_in') for s in t['subscribers']):
            continue
        size = t['size']
        for s in t['subscribers']:
            vals = [e['v'] for e in v.events('cb-progress', ti) if e['sub'] == s['id']]
            run_sum, lo, hi = 0, 0, 0
            for x in vals:
                run_sum += x
                lo, hi = min(lo, run_sum), max(hi, run_sum)
            mode = t.get('source') or t.get('dest') or t['kind']
            if run_sum != size:
                out.append(('progress-total:%s:%s' % (t['kind'], mode), v.wit(ti=ti, values=vals[:30], size=size),
                            'on_progress values sum to %d, transfer size is %d' % (run_sum, size)))
            elif lo < 0 or hi > size:
                out.append(('progress-range:%s:%s' % (t['kind'], mode), v.wit(ti=ti, values=vals[:30], size=size),
                            'running progress sum left [0,%d]: min %d max %d' % (size, lo, hi)))
    return out


# --------------------------------------------------------------------------- C10
def judge_C10(v):
    out = []
    cfg = v.sc['cfg']
    mi = v.fake.max_inflight
    if mi.get('transfer', 0) > cfg['max_request_concurrency']:
        out.append(('request-concurrency', v.wit(max_inflight=mi.get('transfer')),
                    '%d transfer requests in flight, max_request_concurrency=%d' % (mi['transfer'], cfg['max_request_concurrency'])))
    if mi.get('head', 0) > cfg['max_submission_concurrency']:
        out.append(('head-concurrency', v.wit(max_inflight=mi.get('head')),
                    '%d HeadObject in flight, max_submission_concurrency=%d' % (mi['head'], cfg['max_submission_concurrency'])))
    if v.events('dest-write-overlap'):
        out.append(('concurrent-writes-to-one-destination', v.wit(), 'two writes to one destination overlapped'))
    st = getattr(v.run, 'exec_stats', None) or {}
    names = sorted(st)
    if len(names) > 3:
        out.append(('extra-executor', v.wit(executors=names),
                    'the manager created %d thread pools (request, submission, io expected): limits are per pool' % len(names)))
    if len(names) >= 3:
        # executors are created in the order request, submission, io
        req, sub, ioe = names[0], names[1], names[2]
        bounds = {req: cfg['max_request_queue_size'] + cfg['max_in_memory_upload_chunks'] + cfg['max_in_memory_download_chunks'],
                  sub: cfg['max_submission_queue_size'], ioe: cfg['max_io_queue_size']}
        for n, b in bounds.items():
            if st[n][3] > b:
                out.append(('stage-occupancy:%s' % ['request', 'submission', 'io'][names.index(n)],
                            v.wit(queued_or_running=st[n][3], bound=b),
                            '%d queued-or-running tasks in a stage bounded by %d' % (st[n][3], b)))
    for (stage, tag), (h, cap) in (getattr(v.run, 'occupancy', None) or {}).items():
        if cap is not None and h > cap:
            out.append(('permits-exceeded:%s:%s' % (stage, tag or 'queue'), v.wit(stage=stage, tag=tag, queued_or_running=h, limit=cap),
                        '%d queued-or-running %s tasks%s, limit %d' % (h, stage, ' tagged ' + tag if tag else '', cap)))
    # streaming destination: offsets strictly increasing
    for ti, t in enumerate(v.sc['transfers']):
        if t['kind'] == 'download' and t.get('dest') in ('nonseekable', 'special'):
            ws = v.events('dest-write-begin', ti)
            pos = 0
            for w in ws:
                if w['off'] != pos:
                    out.append(('stream-write-order', v.wit(ti=ti), 'stream write at %d, expected %d' % (w['off'], pos)))
                    break
                pos += w['n']
    return out


# --------------------------------------------------------------------------- C11
def judge_C11(v):
    out = []
    cfg = v.sc['cfg']
    live, high = 0, 0
    for e in v.ev:
        if e['k'] == 'body-created' and e['in_memory']:
            live += 1
            high = max(high, live)
            if e['size'] > max(cfg['multipart_chunksize'], cfg['multipart_threshold']):
                ti = e.get('ti')
                sig = 'upload-buffer-size'
                if ti is not None and ti < v.n and v.sc['transfers'][ti].get('source') == 'nonseekable' \
                        and v.sc['transfers'][ti].get('caps'):
                    first = [r for r in v.events('src-read', ti)]
                    if first and first[0]['got'] < cfg['multipart_threshold'] <= first[0]['asked']:
                        sig = 'upload-buffer-size:short-first-read'
                out.append((sig, v.wit(size=e['size'], ti=ti),
                            'in-memory upload body of %d bytes exceeds max(multipart_chunksize, multipart_threshold)=%d'
                            % (e['size'], max(cfg['multipart_chunksize'], cfg['multipart_threshold']))))
        elif e['k'] == 'body-closed' and e['in_memory']:
            live -= 1
    bound = cfg['max_in_memory_upload_chunks'] + cfg['max_submission_concurrency']
    quiet = not v.fired() and not v.cancel and not any(
        s.get('raise_in') for t in v.sc['transfers'] for s in t['subscribers'])
    # bodies of tasks that are skipped after a failure are never closed, so the live count is only
    # meaningful on runs without faults or cancellation
    if high > bound and quiet:
        out.append(('upload-buffers', v.wit(live=high, bound=bound), '%d stream upload buffers alive, bound %d' % (high, bound)))
    # in any run, also after a failure or a cancel: the part buffers still reachable and not closed when a new
    # one is created (a skipped part's buffer is dropped with its task; a request thread may still be letting go of one)
    held = max([e['alive_before'] + 1 for e in v.ev if e['k'] == 'body-created' and e['in_memory'] and 'alive_before' in e] or [0])
    held_bound = bound + cfg['max_request_concurrency']
    base_faults = any(f.get('exc_kind') == 'base' or f.get('kind') == 'base' for f in v.sc['faults'])
    # (a non-Exception raised inside a task stays on that task's executor future together with its traceback, whose
    #  frames hold the part body until the future is dropped: such runs are not judged here)
    if held > held_bound and not base_faults:
        out.append(('upload-buffers-held', v.wit(reachable_unclosed_buffers=held, bound=held_bound),
                    '%d stream upload buffers reachable and not closed at once (max_in_memory_upload_chunks %d + '
                    'max_submission_concurrency %d + max_request_concurrency %d = %d)'
                    % (held, cfg['max_in_memory_upload_chunks'], cfg['max_submission_concurrency'],
                       cfg['max_request_concurrency'], held_bound)))
    # non-seekable downloads: window of requested parts
    W = cfg['max_in_memory_download_chunks']
    chunk = cfg['multipart_chunksize']
    finished = {}
    for b in v.fake.body_log:
        if b['what'] in ('eof', 'fault'):
            finished.setdefault(b['tag'], b['t'])
    tot_outstanding_high = 0
    for ti, t in enumerate(v.sc['transfers']):
        if t['kind'] != 'download' or t.get('dest') not in ('nonseekable', 'special') or t['size'] < cfg['multipart_threshold']:
            continue
        gets = [e for e in v.req_events(ti, 'get_object', 'begin') if 'Range' in e['args']]
        for g in gets:
            j = int(g['args']['Range'][6:].split('-')[0]) // chunk
            # every part with index <= j - W must have finished streaming before part j is requested
            for g2 in gets:
                j2 = int(g2['args']['Range'][6:].split('-')[0]) // chunk
                if j2 <= j - W:
                    tag = ('src%d' % ti, g2['args']['Range'], j2 * chunk)
                    ends = [e for e in v.req_events(ti, 'get_object', 'end') if e['seq'] == g2['seq']]
                    # finished streaming (EOF/fault seen) or the request itself failed
                    ok = (tag in finished and finished[tag] < g['t']) or (ends and ends[0]['outcome'] != 'ok' and ends[0]['t'] < g['t'])
                    # a later attempt of the same part may have finished it
                    if not ok and not any(t2 == tag for t2 in finished):
                        pass
                    if not ok:
                        out.append(('download-window', v.wit(ti=ti, part=j, lagging_part=j2, window=W),
                                    'part %d requested while part %d (more than %d behind) had not finished' % (j, j2, W)))
                        break
    st = getattr(v.run, 'exec_stats', None) or {}
    names = sorted(st)
    if len(names) >= 3 and st[names[2]][3] > cfg['max_io_queue_size']:
        out.append(('io-queue', v.wit(pending=st[names[2]][3]), 'pending destination writes exceed max_io_queue_size'))
    for e in v.events('dest-write-begin'):
        if e['n'] > cfg['io_chunksize'] and e['ti'] != 99:
            out.append(('io-chunk-size', v.wit(n=e['n']), 'destination write of %d bytes, io_chunksize=%d' % (e['n'], cfg['io_chunksize'])))
            break
    return out


# --------------------------------------------------------------------------- C12 (manager restored)
def judge_C12(v):
    out = []
    if v.run.failure is None and v.run.main_error is None and v.run.sems:
        for name, (val, cap) in v.run.sems.items():
            if val != cap:
                out.append(('semaphore-not-restored:%s' % name, v.wit(value=val, capacity=cap),
                            'semaphore %s at %s after all transfers finished, capacity %s' % (name, val, cap)))
    return out


# --------------------------------------------------------------------------- C18
def _announced(f):
    """done as a caller experiences it: result() returns — the status is final *and* done was announced (a transfer
    whose status is `cancelled` but whose done event was never set still blocks result() for ever)"""
    return f.done() and getattr(f._coordinator._done_event, 'flag', True)


def judge_C18(v):
    out = []
    run = v.run
    ts = v.env.shutdown_returned_at
    if ts is not None and run.failure is None:
        late = [e for e in v.reqs if e['t'] > ts]
        late_ev = [e for e in v.ev if e['t'] > ts and e['k'] not in ('result-returned', 'shutdown-returned')]
        if late or late_ev:
            out.append(('activity-after-shutdown', v.wit(late=[(e['op'], e['phase']) for e in late][:5] + [e['k'] for e in late_ev][:5]),
                        'requests/writes/callbacks after shutdown returned: %s'
                        % ([(e['op'], e['phase']) for e in late][:4] + [e['k'] for e in late_ev][:4])))
        for ti, f in run.futures.items():
            if not _announced(f):
                out.append(('not-done-at-shutdown', v.wit(ti=ti), 'transfer %d not done when shutdown returned' % ti))
    if ts is not None and run.failure is not None:
        # shutdown returned, and afterwards the run hangs: a transfer was not done at the barrier and never will be
        stuck = [ti for ti, f in run.futures.items() if not _announced(f)]
        if stuck:
            out.append(('not-done-at-shutdown:never-finishes',
                        v.wit(transfers=stuck, statuses=[run.futures[ti]._coordinator.status for ti in stuck]),
                        'shutdown returned but transfers %s are not done (status %s) and nothing will finish them'
                        % (stuck, [run.futures[ti]._coordinator.status for ti in stuck])))
    # isolation: a transfer nothing happened to must succeed with the right bytes
    fired = v.fired()
    c = v.cancel
    if run.failure is None and run.main_error is None:
        for ti, t in enumerate(v.sc['transfers']):
            oc = v.outcome(ti)
            touched = any(f['ti'] == ti or f['ti'] is None for f in fired)
            cancelled = c is not None and (c['kind'] != 'future' or c['transfer'] == ti)
            raising_sub = any(s.get('raise_in') in ('queued', 'progress') for s in t['subscribers'])
            if oc and not touched and not cancelled and not raising_sub:
                if oc[0] != 'ok':
                    out.append(('innocent-transfer-failed', v.wit(ti=ti, outcome=repr(oc[1])),
                                'transfer %d had no fault and was not cancelled but raised %r' % (ti, oc[1])))
                else:
                    bad = _bytes_wrong(v, ti)
                    if bad:
                        out.append(('innocent-transfer-bytes', v.wit(ti=ti), bad))
        if run.fresh is not None and not (c and c['kind'] in ('shutdown', 'exit-exc', 'interrupt-exit')):
            if run.fresh[0] != 'ok' or run.fresh[1] != b'fresh-object':
                out.append(('manager-not-reusable', v.wit(fresh=repr(run.fresh)),
                            'a fresh transfer after the mix did not succeed: %r' % (run.fresh,)))
    return out


def _bytes_wrong(v, ti):
    t = v.sc['transfers'][ti]
    data = v.run.specs[ti]['data']
    if t['kind'] in ('upload', 'copy'):
        got = v.fake.objects.get(('b', 'k%d' % ti))
        if got != data:
            return 'object of transfer %d differs from the source (%s vs %d bytes)' % (ti, None if got is None else len(got), len(data))
        for uid, up in v.fake.uploads.items():
            if up['key'] == 'k%d' % ti and up.get('complete_problems'):
                return 'CompleteMultipartUpload: %s' % up['complete_problems'][0]
            if up['key'] == 'k%d' % ti and t['kind'] == 'upload' and up['parts']:
                # every part but the last has the effective part size (here: the configured one, the
                # adjuster's limits are scaled down to 1 byte)
                chunk = v.sc['cfg']['multipart_chunksize']
                sizes = [len(up['parts'][n][1]) for n in sorted(up['parts'])]
                if any(x != chunk for x in sizes[:-1]) or not (0 < sizes[-1] <= chunk):
                    return 'part sizes %r with multipart_chunksize %d: a part other than the last is not a full part' % (sizes, chunk)
    elif t['kind'] == 'download':
        if t['dest'] == 'path':
            got = v.run.final_files.get('dst%d' % ti)
        elif t['dest'] == 'special':
            got = bytes(v.run.specs[ti]['special_stream'].buf)
        else:
            got = bytes(v.run.specs[ti]['fileobj'].buf)
        if got != data:
            return 'destination of transfer %d differs from the object (%s vs %d bytes)' % (ti, None if got is None else len(got), len(data))
    elif t['kind'] == 'delete':
        if ('b', 'k%d' % ti) in v.fake.objects:
            return 'object not deleted'
    return None


def judge_bytes(v):
    """C01 / C02 end to end: every reported success has the right bytes."""
    out = {'C01': [], 'C02': []}
    for ti, t in enumerate(v.sc['transfers']):
        oc = v.outcome(ti)
        if oc and oc[0] == 'ok':
            bad = _bytes_wrong(v, ti)
            if bad:
                prop = 'C02' if t['kind'] == 'download' else 'C01'
                mode = t.get('source') or t.get('dest') or t['kind']
                out[prop].append(('success-with-wrong-bytes:%s:%s' % (t['kind'], mode), v.wit(ti=ti), bad))
    return out


def judge_C16(v):
    """Writes to a destination that cannot seek (a stream, a special file given by name): at every
    instant what was written is a prefix of the object — nothing twice, nothing out of order, whatever
    was retried — and on success it is the whole object."""
    out = []
    for ti, t in enumerate(v.sc['transfers']):
        if t['kind'] != 'download' or t.get('dest') not in ('nonseekable', 'special'):
            continue
        data = v.run.specs[ti]['data']
        st = v.run.specs[ti].get('special_stream') or v.run.specs[ti]['fileobj']
        got = bytes(st.buf)
        if got != data[:len(got)]:
            out.append(('stream-not-a-prefix:%s' % t['dest'], v.wit(ti=ti, written=len(got), object=len(data)),
                        'the %d bytes written to the stream of transfer %d are not a prefix of the %d-byte object '
                        '(a byte was written twice or out of order)' % (len(got), ti, len(data))))
        oc = v.outcome(ti)
        if oc and oc[0] == 'ok' and got != data:
            out.append(('stream-incomplete-on-success:%s' % t['dest'], v.wit(ti=ti, written=len(got), object=len(data)),
                        'transfer %d succeeded with %d of %d bytes written to the stream' % (ti, len(got), len(data))))
    return out


JUDGES = {'C16': judge_C16, 'C03': judge_C03, 'C04': judge_C04, 'C05': judge_C05, 'C06': judge_C06, 'C07': judge_C07,
          'C08': judge_C08, 'C09': judge_C09, 'C10': judge_C10, 'C11': judge_C11, 'C12': judge_C12,
          'C18': judge_C18}


def judge_all(run, props=None):
    v = View(run)
    res = {}
    for p, fn in JUDGES.items():
        if props is None or p in props:
            res[p] = fn(v)
    b = judge_bytes(v)
    for p in ('C01', 'C02'):
        if props is None or p in props:
            res[p] = b[p]
    return res
