"""Bandwidth component (C13): bandwidth.LeakyBucket / ConsumptionScheduler / BandwidthRateTracker
and the stream's wait loop against S3V.Model.Bandwidth (exact rationals; the real classes run
with their float arithmetic on dyadic clock readings, decisions within 1e-9 of the limit are
reported as ties by the model and not compared), and the direct C13 oracle: windowed byte
counts and waits of 1-8 streams in virtual time."""
from fractions import Fraction

from common import CorrResult, DriverError, rng_for, run_driver
from oracle import OracleResult


class Clock:
    def __init__(self):
        self.now = Fraction(0)
        self.sleeps = []

    def time(self):
        return float(self.now)

    def sleep(self, d):
        self.sleeps.append(d)


def frac(fr):
    return '%d/%d' % (fr.numerator, fr.denominator)


def gen_history(rng, adversarial):
    maxrate = rng.choice([64, 256, 1024, 1 << 20])
    ntok = rng.randrange(1, 5)
    t = Fraction(0)
    evs = []
    waiting = {}
    for _ in range(rng.randrange(3, 30)):
        tok = rng.randrange(ntok)
        amt = rng.choice([1, 16, 64, 256, 1000, 4096, rng.randrange(1, 5000)])
        if adversarial and rng.random() < 0.5:
            # think time right around amt/max
            base = Fraction(amt, maxrate)
            dt = base * rng.choice([Fraction(1), Fraction(4, 5), Fraction(5, 4), Fraction(1, 2), Fraction(2), Fraction(0)])
            dt = Fraction(int(dt * 1024), 1024)
        else:
            dt = Fraction(rng.randrange(0, 4096), 1024)
        t += dt
        if tok in waiting:
            amt = waiting[tok]
        evs.append((amt, tok, t))
    return maxrate, evs


def mix_history(n):
    """`mixRun n 0` of Props/C13.lean after the first grant: limit 10 bytes/s, stream 1 saturated
    with 10-byte reads, stream 2 asking for 4 bytes once a second half-way between."""
    evs = [(10, 1, Fraction(0))]
    for k in range(n):
        evs += [(10, 1, Fraction(k)), (4, 2, Fraction(k) + Fraction(1, 2)), (10, 1, Fraction(k + 1))]
    return 10, evs


def run_real(maxrate, evs):
    from s3transfer.bandwidth import LeakyBucket, RequestExceededException, RequestToken
    clock = Clock()
    bucket = LeakyBucket(maxrate, time_utils=clock)
    toks = {}
    outs = []
    for amt, tok, t in evs:
        clock.now = t
        token = toks.setdefault(tok, RequestToken())
        try:
            bucket.consume(amt, token)
            outs.append(('granted', None))
        except RequestExceededException as e:
            outs.append(('refused', e.retry_time))
    sch = bucket._consumption_scheduler
    order = {id(v): k for k, v in toks.items()}
    sched = sorted(order[id(k)] for k in sch._tokens_to_scheduled_consumption)
    return outs, sch._total_wait, sched


def corr(seed, tier):
    res = CorrResult('bandwidth')
    rng = rng_for(seed, 'bandwidth')
    lines, metas = [], []
    hists = []
    corpus = [mix_history(8)]        # the witness of C13.smoothing_allowance_exceeded (finding D17)
    for i in range(300 if tier == 'quick' else 5000):
        maxrate, evs = corpus[i] if i < len(corpus) else gen_history(rng, adversarial=(i % 2 == 0))
        outs, total, sched = run_real(maxrate, evs)
        hists.append((maxrate, evs, outs, total, sched))
        lines.append('reset')
        lines.append('bw new %d' % maxrate)
        for amt, tok, t in evs:
            lines.append('bw consume %d %d %s' % (amt, tok, frac(t)))
        lines.append('bw state')
    # stream wait loop with a failing transfer
    stream_cases = _stream_cases(rng, 120 if tier == 'quick' else 2000)
    for sc in stream_cases:
        lines.append('reset')
        lines.extend(sc['lines'])
    try:
        model = run_driver(lines)
    except DriverError as e:
        res.error = 'driver: %s' % e
        return res
    pos = 0
    for maxrate, evs, outs, total, sched in hists:
        pos += 2
        case = {'max_rate': maxrate, 'events': [(a, k, frac(t)) for a, k, t in evs]}
        bad = None
        tie_seen = False
        for j, ((kind, retry), (amt, tok, t)) in enumerate(zip(outs, evs)):
            m = model[pos]
            pos += 1
            res.ops += 1
            if bad or tie_seen:
                continue
            if m.endswith(' tie'):
                tie_seen = True        # float and exact arithmetic may part ways here: stop comparing this history
                res.hit('tie')
                continue
            mk = m.split()[0]
            if mk != kind:
                bad = (j, '%s' % kind, m)
            elif kind == 'refused':
                mr = Fraction(m.split()[1])
                if abs(float(mr) - retry) > 1e-9 * max(1.0, abs(retry)):
                    bad = (j, 'refused %r' % retry, m)
            res.hit(kind)
        st = model[pos]
        pos += 1
        if not bad and not tie_seen:
            mtotal = Fraction(st.split()[0].split('=')[1])
            msched = st.split()[1].split('=')[1]
            msorted = ','.join(sorted([x for x in msched.split(',') if x], key=int))
            if abs(float(mtotal) - total) > 1e-9 * max(1.0, abs(total)) or msorted != ','.join(map(str, sched)):
                bad = (len(evs), 'total=%r sched=%s' % (total, sched), st)
        res.note_case((maxrate, tuple(evs)), any(k == 'refused' for k, _ in outs), case if len(res.samples) < 2 else None)
        if bad:
            res.mismatches.append({'component': 'bandwidth', 'case': case,
                                   'ops': ['bw consume %d %d %s' % (a, k, frac(t)) for a, k, t in evs[:bad[0] + 1]],
                                   'first_diverging_op': 'event %d' % bad[0], 'impl': bad[1], 'model': bad[2]})
    for sc in stream_cases:
        pos += 1
        outs = model[pos:pos + len(sc['lines'])]
        pos += len(sc['lines'])
        res.ops += len(sc['lines'])
        res.note_case(('stream', sc['id']), True, None)
        res.hit('stream-loop')
        msched = outs[-1].split()[1].split('=')[1] if outs[-1].startswith('total=') else '?'
        mev = outs[-2][3:] if outs[-2].startswith('ev=') else outs[-2]
        res.hit('stream:' + sc['case']['exception_set'])
        if mev != sc['impl_events']:
            res.mismatches.append({'component': 'bandwidth-stream', 'case': sc['case'], 'ops': sc['lines'],
                                   'first_diverging_op': sc['lines'][-2],
                                   'impl': 'stream loop: %s' % sc['impl_events'], 'model': 'stream loop: %s' % mev})
        elif msched != sc['impl_sched']:
            res.mismatches.append({'component': 'bandwidth-stream', 'case': sc['case'], 'ops': sc['lines'],
                                   'first_diverging_op': 'bw state',
                                   'impl': 'scheduled tokens after the stream finished: [%s]' % sc['impl_sched'],
                                   'model': 'scheduled tokens: [%s]' % msched})
    return res


class _Coord:
    def __init__(self):
        self.exception = None


def _stream_cases(rng, n):
    """One stream's `_consume_through_leaky_bucket` loop against the model's `streamLoop`: the read
    is refused (the tracker is warm), the stream sleeps and retries; the transfer's exception is
    set never / before the read / inside the k-th consume() call (after the loop test, before the
    bucket answers) / during the sleep.  Compared: the sequence slept* (consumed | raised) and the
    tokens the scheduler still holds afterwards."""
    from s3transfer.bandwidth import BandwidthLimitedStream, LeakyBucket
    import io
    cases = []
    for i in range(n):
        maxrate = rng.choice([64, 1024])
        clock = Clock()
        bucket = LeakyBucket(maxrate, time_utils=clock)
        coord = _Coord()
        when = rng.choice(['never', 'before-read', 'consume-0', 'consume-0', 'consume-1', 'sleep-0', 'sleep-0'])
        cold = rng.random() < 0.15          # no warm-up: the first attempt is granted
        amt = rng.choice([256, 512])
        lines = ['bw new %d' % maxrate]
        exc = RuntimeError('transfer failed')
        if not cold:
            warm = BandwidthLimitedStream(io.BytesIO(b'x' * 10000), bucket, _Coord(), clock, bytes_threshold=1)
            clock.now = Fraction(0)
            warm.read(amt)
            lines.append('bw consume %d 0 0/1' % amt)
        clock.now = Fraction(1, 1024)
        stream = BandwidthLimitedStream(io.BytesIO(b'y' * 10000), bucket, coord, clock, bytes_threshold=1)
        attempts = []           # clock reading of each consume() call of the stream
        state = {'consumes': 0, 'sleeps': 0}

        def time(coord=coord, state=state, attempts=attempts, clock=clock, when=when):
            k = state['consumes']
            state['consumes'] += 1
            attempts.append(clock.now)
            if when == 'consume-%d' % k:
                coord.exception = exc
            return float(clock.now)

        def sleep(d, coord=coord, state=state, clock=clock, when=when):
            clock.sleeps.append(d)
            if when == 'sleep-%d' % state['sleeps']:
                coord.exception = exc
            state['sleeps'] += 1
            clock.now += Fraction(d).limit_denominator(1 << 20)
        clock.time = time
        clock.sleep = sleep
        if when == 'before-read':
            coord.exception = exc
        outcome = 'consumed'
        try:
            stream.read(amt)
        except RuntimeError:
            outcome = 'raised'
        events = ['slept'] * len(clock.sleeps) + [outcome]
        # what the model is asked is fixed by the scenario, not by what the implementation did:
        its = _expected_iterations(when, cold, attempts, clock.now)
        lines.append('bw stream %d 1 %s' % (amt, ' '.join('%s:%d' % (frac(t), e) for t, e in its)))
        lines.append('bw state')
        sch = bucket._consumption_scheduler
        impl_sched = '1' if len(sch._tokens_to_scheduled_consumption) else ''
        cases.append({'id': i, 'lines': lines,
                      'case': {'max_rate': maxrate, 'amount': amt, 'exception_set': when, 'tracker_warm': not cold,
                               'implementation_events': events},
                      'impl_sched': impl_sched, 'impl_events': ','.join(events)})
    return cases


def _expected_iterations(when, cold, attempts, now_after):
    """Loop tests of the scenario: (clock reading, exception set at the test).  The first attempt is
    at 1/1024; a refused attempt is followed by a sleep and a second test at the clock reading after
    it (taken from the run: the sleep length is the bucket's answer, compared separately)."""
    t0 = Fraction(1, 1024)
    if when == 'before-read':
        return [(t0, True)]
    t1 = attempts[1] if len(attempts) > 1 else now_after
    second_exc = when in ('consume-0', 'sleep-0')
    return [(t0, False), (t1, second_exc)]


# ---------------------------------------------------------------------------
def simulate(seed, nstreams, maxrate, amount, think, n_reads, late, abandon_at, mode='uniform', closing=None, amounts=None,
             preempt=None):
    """Run real BandwidthLimitedStreams sharing one LeakyBucket under the deterministic scheduler in
    virtual time.  think(i, k) -> seconds before stream i's k-th read; late: extra delay added to
    every sleep; abandon_at: {stream: k} the transfer of that stream fails during its k-th wait, or
    {stream: ('consume', k)}: inside its k-th consume() call (after the loop tested the exception,
    before the bucket answers).  A stream stops reading once its transfer failed (as GetObjectTask
    does).  `bad_returns`: reads that were refused after the failure and still returned data.
    closing: {stream: tail} — after its reads the stream reads `tail` more bytes (below the
    threshold, so they stay pending) and is closed, as an upload body is: close() sends the pending
    bytes through the limiter."""
    import io
    from sched import Scheduler
    from shim import Installed
    if preempt is not None:
        # one thread is descheduled for a long time at its k-th lock acquisition (virtual time goes on meanwhile)
        import random as _random
        sch = Scheduler(seed=seed, mode='stall', max_steps=400000,
                        stall={'class': 'lock-acquire', 'nth': preempt, 'len': _random.Random(seed).choice([3, 8, 20, 60, 200, 1000])},
                        stall_preempts=True)
    else:
        sch = Scheduler(seed=seed, mode=mode, max_steps=400000)
    grants, refusals, sleeps, errors = [], [], [], []
    bad_returns, refused_after_fail, nconsume = [], {}, {}
    closed = []
    closing = closing or {}
    amounts = amounts or {}      # per-stream read size (default: `amount`, which is also every stream's threshold)
    with Installed(sch, modules=['bandwidth']) as sh:
        sh.yield_on_release = False     # the grant / refusal is logged right after consume() returns
        from s3transfer.bandwidth import BandwidthLimitedStream, LeakyBucket, TimeUtils
        bucket = LeakyBucket(maxrate)
        orig_consume = bucket.consume

        def consume(amt, token):
            i = owner.get(id(token))
            k = nconsume.get(i, 0)
            nconsume[i] = k + 1
            if abandon_at.get(i) == ('consume', k):
                coords[i].exception = RuntimeError('transfer %d failed' % i)
            try:
                r = orig_consume(amt, token)
                grants.append((sch.clock, amt, id(token), sch.tick()))
                return r
            except Exception as e:   # RequestExceededException
                refusals.append((sch.clock, amt, id(token), getattr(e, 'retry_time', None), sch.tick()))
                if i is not None and coords[i].exception is not None:
                    refused_after_fail[i] = True
                raise
        bucket.consume = consume
        owner = {}

        class Src:
            def read(self, n):
                return b'x' * n

            def close(self):
                pass

        class LateTime(TimeUtils):
            def __init__(self, i):
                self.i = i
                self.nsleeps = 0

            def sleep(self, d):
                k = self.nsleeps
                self.nsleeps += 1
                sleeps.append((self.i, sch.clock, d))
                if abandon_at.get(self.i) == k:
                    coords[self.i].exception = RuntimeError('transfer %d failed' % self.i)
                sch.sleep(d + late(self.i, k))

        class C:
            exception = None
        coords = [C() for _ in range(nstreams)]
        waiting = {}

        def stream(i):
            def run():
                st = BandwidthLimitedStream(Src(), bucket, coords[i], LateTime(i), bytes_threshold=amount)
                tokens[i] = id(st._request_token)
                owner[id(st._request_token)] = i
                for k in range(n_reads if not isinstance(n_reads, dict) else n_reads[i]):
                    sch.sleep(think(i, k))
                    try:
                        st.read(amounts.get(i, amount))
                    except RuntimeError as e:
                        errors.append((i, sch.clock, str(e), sch.tick()))
                        return
                    if coords[i].exception is not None:
                        if refused_after_fail.get(i):
                            bad_returns.append((i, k, sch.clock))
                        return
                if i in closing:
                    try:
                        st.read(closing[i])
                        st.close()
                    except RuntimeError as e:
                        errors.append((i, sch.clock, str(e), sch.tick()))
                        return
                    closed.append((i, sch.clock, sch.tick()))
            return run
        tokens = {}

        def main():
            ts = [sch.spawn(stream(i), 's%d' % i) for i in range(nstreams)]
            sch.block_until(lambda: all(t.finished for t in ts), 'join')
        fail = sch.run(main, timeout=60)
    return {'grants': grants, 'refusals': refusals, 'sleeps': sleeps, 'errors': errors, 'fail': fail, 'tokens': tokens,
            'bad_returns': bad_returns, 'closed': closed}


def simulate_small_bodies(seed, nstreams, maxrate, threshold, body_len, n_bodies, mode='uniform'):
    """Downloads of many small objects: every GetObject body is shorter than the limiter's read threshold,
    is read with read(threshold) until b'' and is never closed (GetObjectTask does not close bodies).
    Returns the deliveries (clock, bytes) of all streams."""
    from sched import Scheduler
    from shim import Installed
    sch = Scheduler(seed=seed, mode=mode, max_steps=400000)
    deliveries = []
    with Installed(sch, modules=['bandwidth']) as sh:
        sh.yield_on_release = False
        from s3transfer.bandwidth import BandwidthLimitedStream, LeakyBucket, TimeUtils

        class VT(TimeUtils):
            def sleep(self, d):
                sch.sleep(d)
        bucket = LeakyBucket(maxrate)

        class Body:
            def __init__(self):
                self.left = body_len

            def read(self, n):
                k = min(n, self.left)
                self.left -= k
                return b'x' * k

        class C:
            exception = None

        def stream(i):
            def run():
                for _b in range(n_bodies):
                    st = BandwidthLimitedStream(Body(), bucket, C(), VT(), bytes_threshold=threshold)
                    while True:
                        data = st.read(threshold)
                        if not data:
                            break
                        deliveries.append((sch.clock, len(data), sch.tick()))
            return run

        def main():
            ts = [sch.spawn(stream(i), 's%d' % i) for i in range(nstreams)]
            sch.block_until(lambda: all(t.finished for t in ts), 'join')
        fail = sch.run(main, timeout=60)
    return {'deliveries': sorted(deliveries, key=lambda d: d[2]), 'fail': fail}


def _calm_violation(sim, maxrate):
    """traffic whose demand stays below the limit is never delayed: as long as every attempt so far asked
    for at most max*(time since the previous grant), no attempt may be refused"""
    t_prev, calm = None, True
    for t, k, a, tok, rt, _n in sorted([(t, 'r', a, tok, rt, n_) for t, a, tok, rt, n_ in sim['refusals']] +
                                       [(t, 'g', a, tok, None, n_) for t, a, tok, n_ in sim['grants']],
                                       key=lambda e: e[5]):
        if t_prev is not None and not (a <= maxrate * (t - t_prev) * (1 - 1e-9)):
            calm = False
        if not calm:
            return None
        if k == 'r':
            return ({'at': t, 'amount': a, 'since_previous_grant': None if t_prev is None else t - t_prev},
                    'every read so far asked for no more than max_bandwidth x (time since the previous grant), yet a read was throttled')
        t_prev = t
    return None


SMOOTHING = 1.25


def window_violations(sim, maxrate, burst):
    """Windows between two grants in which more bytes moved than the statement allows.  Each grant is
    classed as *first attempt* or *waited* (its stream had been refused since its previous grant):
      * windows of first-attempt grants only: 1.25*max*T + burst            (`window_first_attempts`)
      * windows of waited grants only:        max*T + burst                 (`fifo_lower_bound`)
      * mixed windows: the statement says 1.25*max*T + burst; the limiter only keeps the sum of the
        two separate bounds — finding D17.  Above 1.25 and within the sum: signature
        `window-bound:mixed-first-attempt-and-waiting`; above the sum: `window-bound`."""
    ev = sorted([(n_, 'r', tok, a, t) for t, a, tok, rt, n_ in sim['refusals']] +
                [(n_, 'g', tok, a, t) for t, a, tok, n_ in sim['grants']])
    refused = set()
    grants = []
    for n_, k, tok, a, t in ev:
        if k == 'r':
            refused.add(tok)
        else:
            grants.append((t, a, tok in refused))
            refused.discard(tok)
    times = [g[0] for g in grants]
    cum, cw = [0], [0]
    for g in grants:
        cum.append(cum[-1] + g[1])
        cw.append(cw[-1] + (1 if g[2] else 0))
    out = {}
    for a in range(len(grants)):
        for b in range(a, min(len(grants), a + 400)):
            T = times[b] - times[a]
            moved = cum[b + 1] - cum[a]
            nw = cw[b + 1] - cw[a]
            nf = (b + 1 - a) - nw
            if nw == 0:
                sig, bound, kind = 'window-bound', SMOOTHING * maxrate * T + burst, 'first-attempt reads only'
            elif nf == 0:
                sig, bound, kind = 'window-bound:waiting-reads-above-limit', maxrate * T + burst, 'reads that waited only'
            else:
                bound, kind = SMOOTHING * maxrate * T + burst, 'first-attempt and waiting reads mixed'
                within = moved <= (SMOOTHING + 1) * maxrate * T + burst + 1e-6
                sig = 'window-bound:mixed-first-attempt-and-waiting' if within else 'window-bound'
            if moved > bound + 1e-6 and sig not in out:
                w = {'window_start': times[a], 'T': T, 'bytes': moved, 'burst': burst, 'window_kind': kind,
                     'first_attempt_grants': nf, 'waited_grants': nw}
                if nf and nw:
                    w['within_sum_of_separate_bounds'] = within
                out[sig] = (sig, w, '%d bytes moved in %.4fs (%s), bound %.0f' % (moved, T, kind, bound))
        if len(out) >= 3:
            break
    return list(out.values())


def _d17_probe():
    """Finding D17 on the real classes: one saturated stream with reads of 5 thresholds and one stream
    reading one threshold at 80 % of the limit — the first is served at the limit through the queue,
    the second is admitted on top by the rate tracker: 1.6 x max_bandwidth for as long as it lasts."""
    maxrate, th, big, pace, nper = 100000, 10000, 5, 1.25, 60
    amounts = {0: big * th, 1: th}
    nreads = {0: nper, 1: int(nper * big / pace)}
    sim = simulate(1, 2, maxrate, th, (lambda i, k: 0.0 if i == 0 else pace * th / maxrate), nreads,
                   (lambda i, k: 0.0), {}, amounts=amounts)
    if sim['fail'] is not None:
        return [('limiter-hangs', {'scenario': 'D17 witness'}, repr(sim['fail']))]
    burst = (2 * 2 + 4) * big * th
    scenario = {'streams': 2, 'max_bandwidth': maxrate, 'read_threshold': th,
                'stream_0': 'saturated, reads of %d bytes' % (big * th),
                'stream_1': 'reads of %d bytes every %.3fs (80%% of the limit)' % (th, pace * th / maxrate)}
    out = []
    for sig, w, what in window_violations(sim, maxrate, burst):
        w = dict(w, scenario=scenario)
        if sig == 'window-bound:mixed-first-attempt-and-waiting':
            g = sorted(sim['grants'], key=lambda x: x[3])
            t_end = min(max(x[0] for x in g if x[2] == tok) for tok in sim['tokens'].values())
            t0 = t_end * 0.2
            moved = sum(x[1] for x in g if t0 < x[0] <= t_end)
            w['sustained_rate_percent_of_limit'] = int(round(100 * moved / (t_end - t0) / maxrate))
        out.append((sig, w, what))
    return out


def oracle(seed, tier):
    res = OracleResult('C13')
    rng = rng_for(seed, 'bandwidth-oracle')
    n = 60 if tier == 'quick' else 1200
    for it in range(n):
        nstreams = rng.randrange(1, 9)
        maxrate = rng.choice([1 << 20, 1 << 16, 100000])
        amount = rng.choice([1 << 18, 1 << 14, 50000])
        base = amount / maxrate
        kind = rng.choice(['saturated', 'around', 'below', 'mixed', 'abandon', 'staggered'])
        r2 = rng_for(rng.randrange(1 << 30), 'think')
        if kind == 'saturated':
            think = lambda i, k: 0.0
        elif kind == 'around':
            think = lambda i, k: base * nstreams * r2.choice([0.8, 1.0, 1.25, 0.99, 1.01])
        elif kind == 'staggered':
            # the streams take turns, one read every 1.5 x amount/max: demand stays below the limit at every instant
            nstreams = max(nstreams, 2)
            think = lambda i, k: (i * 1.5 * base) if k == 0 else nstreams * 1.5 * base
        elif kind == 'below':
            think = lambda i, k: base * nstreams * r2.uniform(1.3, 3.0) + (i * base * 1.3 if k == 0 else 0)
        else:
            think = lambda i, k: base * r2.choice([0, 0.5, 1, 2, 5, nstreams])
        late = (lambda i, k: 0.0) if rng.random() < 0.5 else (lambda i, k: base * r2.uniform(0, 0.5))
        abandon_at = {}
        if kind == 'abandon' and nstreams >= 2:
            who = rng.randrange(nstreams)
            abandon_at = {who: rng.randrange(0, 3)} if rng.random() < 0.5 else {who: ('consume', rng.randrange(0, 8))}
            if rng.random() < 0.7:
                think = lambda i, k: 0.0
        n_reads = rng.randrange(8, 30)
        closing = {}
        if rng.random() < 0.5:
            # upload bodies: some streams end with a short read and are closed while others go on
            for i in range(nstreams):
                if rng.random() < 0.6:
                    closing[i] = rng.choice([1, amount // 4, amount // 2, amount - 1])
        amounts = {}
        if rng.random() < 0.4:
            # streams with different read sizes (io_chunksize of downloads vs the block size of upload bodies)
            for i in range(nstreams):
                if rng.random() < 0.5:
                    amounts[i] = amount * rng.choice([2, 3, 5, 8])
        preempt = None
        if kind == 'staggered' or (kind in ('below', 'around', 'mixed') and nstreams >= 2 and rng.random() < 0.5):
            preempt = rng.randrange(0, 40)
        sim = simulate(rng.randrange(1 << 30), nstreams, maxrate, amount, think, n_reads, late, abandon_at, closing=closing,
                       amounts=amounts, preempt=preempt)
        res.evaluations += 1
        if res.enough():
            break
        res.hit(kind)
        wit = {'streams': nstreams, 'max_bandwidth': maxrate, 'read_amount': amount, 'traffic': kind, 'reads_per_stream': n_reads,
               'late_wakeups': late(0, 0) != 0.0 or True, 'abandoned': abandon_at, 'closed_with_pending_bytes': closing,
               'read_amount_per_stream': amounts,
               'a_thread_descheduled_at_its_lock_acquisition': preempt}
        if sim['fail'] is not None:
            res.violation('limiter-hangs', wit, repr(sim['fail']))
            continue
        for i, k, t in sim['bad_returns']:
            res.violation('failed-read-returned-data', dict(wit, stream=i, read=k, at=t),
                          "stream %d's transfer had failed when its read %d was refused by the limiter, and the read returned "
                          "data instead of raising the transfer's error" % (i, k))
        grants = sorted(sim['grants'], key=lambda g: g[3])
        burst = (2 * nstreams + 4) * max([amount] + list(amounts.values()))
        for sig, w, what in window_violations(sim, maxrate, burst):
            res.violation(sig, dict(wit, **w), what)
        cv = _calm_violation(sim, maxrate)
        if cv:
            res.violation('delayed-below-limit', dict(wit, **cv[0]), cv[1])
        # each wait is no longer than the queue of currently waiting live streams plus its own
        dead = set()
        live_waiting = {}
        events = sorted([(t, 'r', a, tok, rt, n_) for t, a, tok, rt, n_ in sim['refusals']] +
                        [(t, 'g', a, tok, None, n_) for t, a, tok, n_ in sim['grants']] +
                        [(t, 'x', 0, sim['tokens'].get(i), None, n_) for i, t, _, n_ in sim['errors']] +
                        [(t, 'c', 0, sim['tokens'].get(i), None, n_) for i, t, n_ in sim.get('closed', [])], key=lambda e: e[5])
        for t, k, a, tok, rt, _n in events:
            if k == 'g':
                live_waiting.pop(tok, None)
            elif k in ('x', 'c'):
                # the stream raised its transfer's error / returned from close(): it is not waiting any more
                live_waiting.pop(tok, None)
            else:
                allowed = (sum(live_waiting.values()) + a) / maxrate
                if rt is not None and rt > allowed * (1 + 1e-9) + 1e-12:
                    sig = 'wait-longer-than-queue'
                    if rt == float('inf') or rt > 1e6:
                        sig = 'wait-unbounded'
                    sig = sig + (':after-abandon' if abandon_at else '')
                    res.violation(sig, dict(wit, at=t, told_to_wait=rt, queue_allows=allowed),
                                  'a read was told to wait %.4fs; the reads currently waiting plus its own need %.4fs' % (rt, allowed))
                    break
                live_waiting[tok] = a
        if abandon_at and not sim['errors']:
            pass
        if abandon_at:
            for i in abandon_at:
                if not any(e[0] == i for e in sim['errors']):
                    # the stream may have been granted before it ever waited: fine
                    pass
        if sim['refusals']:
            res.nontrivial.add(it)
    res.samples.append(wit)
    # many small objects: bodies below the read threshold, never closed
    for it in range(6 if tier == 'quick' else 120):
        nstreams = rng.randrange(1, 7)
        maxrate = rng.choice([1 << 16, 100000])
        threshold = rng.choice([1 << 14, 50000])
        body_len = rng.choice([threshold // 4, threshold // 2, threshold - 1])
        n_bodies = rng.randrange(4, 14)
        sim = simulate_small_bodies(rng.randrange(1 << 30), nstreams, maxrate, threshold, body_len, n_bodies)
        res.evaluations += 1
        if res.enough():
            break
        wit2 = {'streams': nstreams, 'max_bandwidth': maxrate, 'read_threshold': threshold, 'object_bytes': body_len,
                'objects_per_stream': n_bodies, 'traffic': 'small objects, bodies never closed'}
        if sim['fail'] is not None:
            res.violation('limiter-hangs', wit2, repr(sim['fail']))
            continue
        d = sim['deliveries']
        burst = (2 * nstreams + 4) * threshold
        cum = [0]
        for x in d:
            cum.append(cum[-1] + x[1])
        bad = None
        for a in range(len(d)):
            for b in range(a, len(d)):
                T = d[b][0] - d[a][0]
                moved = cum[b + 1] - cum[a]
                if moved > 1.25 * maxrate * T + burst + 1e-6:
                    bad = (d[a][0], T, moved)
                    break
            if bad:
                break
        if bad:
            res.violation('window-bound:small-objects', dict(wit2, window_start=bad[0], T=bad[1], bytes=bad[2], burst=burst),
                          '%d bytes of small objects delivered in %.4fs, bound 1.25*max*T+burst = %.0f'
                          % (bad[2], bad[1], 1.25 * maxrate * bad[1] + burst))
        res.nontrivial.add(('small', it))
    # a thread descheduled at each of its first lock acquisitions while the streams take turns below the limit
    for pre in range(0, 150 if tier == 'quick' else 600):
        nstreams = 2 + pre % 2
        maxrate, amount = 100000, 10000
        base = amount / maxrate
        sim = simulate(rng.randrange(1 << 30), nstreams, maxrate, amount,
                       (lambda i, k, n=nstreams: (i * 1.5 * base) if k == 0 else n * 1.5 * base), 8, (lambda i, k: 0.0), {},
                       preempt=pre % 30)
        res.evaluations += 1
        if sim['fail'] is not None:
            res.violation('limiter-hangs', {'traffic': 'staggered', 'preempt': pre}, repr(sim['fail']))
            continue
        cv = _calm_violation(sim, maxrate)
        if cv:
            res.violation('delayed-below-limit', dict({'streams': nstreams, 'max_bandwidth': maxrate, 'read_amount': amount,
                                                       'traffic': 'streams take turns, one read every 1.5 x amount/max',
                                                       'a_thread_descheduled_at_its_lock_acquisition': pre % 30}, **cv[0]), cv[1])
        if res.enough():
            break
    # saturated streams, one of which fails while it waits behind the others: afterwards the rest must still be
    # held to the limit (an abandoned wait must take exactly its own share out of the queue, no more, no less)
    for who, k in ((6, 1), (3, 0), (7, 2), (1, 1)):
        maxrate, amount, nstreams = 100000, 10000, 8
        sim = simulate(rng.randrange(1 << 30), nstreams, maxrate, amount, (lambda i, k_: 0.0), 24, (lambda i, k_: 0.0), {who: k})
        res.evaluations += 1
        if sim['fail'] is not None:
            res.violation('limiter-hangs', {'traffic': 'saturated, one stream abandoned', 'abandoned': {who: k}}, repr(sim['fail']))
            continue
        for sig, w, what in window_violations(sim, maxrate, (2 * nstreams + 4) * amount):
            res.violation(sig + ':after-abandon', dict(w, streams=nstreams, max_bandwidth=maxrate, read_amount=amount,
                                                       traffic='saturated', abandoned={who: k}), what)
        res.nontrivial.add(('abandon-saturated', who, k))
    # D17: the statement's single bound for mixed traffic, on a fixed witness
    for sig, w, what in _d17_probe():
        res.violation(sig, w, what)
    res.evaluations += 1
    # D5: two scheduled releases at the same clock reading
    d5 = _d5_probe()
    if d5:
        res.violation('rate-stuck-at-infinity', d5, 'after two scheduled releases at the same clock reading every later first attempt is refused, '
                      'even 1 byte after 10000 idle seconds')
    return res


def _d5_probe():
    from s3transfer.bandwidth import LeakyBucket, RequestExceededException, RequestToken
    clock = Clock()
    b = LeakyBucket(1024, time_utils=clock)
    t1, t2, t3 = RequestToken(), RequestToken(), RequestToken()
    clock.now = Fraction(0)
    b.consume(1024, t1)
    clock.now = Fraction(1, 1000)
    for t in (t1, t2):
        try:
            b.consume(1024, t)
        except RequestExceededException:
            pass
    clock.now = Fraction(5)
    b.consume(1024, t1)
    b.consume(1024, t2)        # same clock reading: scheduled releases are not rate-checked
    clock.now = Fraction(10005)
    try:
        b.consume(1, t3)
        return None
    except RequestExceededException as e:
        return {'history': 'consume(1024)@0; two refused @0.001; both released @5 (same reading); consume(1)@10005',
                'retry_time': e.retry_time}
