"""Process-pool downloader (C19): the real `ProcessPoolDownloader`, `TransferMonitor`,
`GetObjectSubmitter._do_run` and `GetObjectWorker._do_run` run in-process under the deterministic
scheduler — the process classes are constructed but never started, the two multiprocessing queues
and the manager proxy are replaced by cooperative FIFO queues and a yielding proxy of the real
monitor, so every cross-process call is a scheduling point.  Each call is logged as a label of
S3V.Model.ProcPool; the label sequence of a run must be accepted by the model with the same
observations (trace validation), and the C19 statement is judged directly at every
`notify_done` and at shutdown."""
import os
import shutil
import tempfile
import types

from common import CorrResult, DriverError, rng_for, run_driver
from oracle import OracleResult


class Fatal(Exception):
    pass


class Body:
    def __init__(self, data, fail_after=None, exc=None):
        self.data, self.pos, self.fail_after, self.exc = data, 0, fail_after, exc

    def read(self, n=None):
        if self.fail_after is not None and self.pos >= self.fail_after:
            raise self.exc
        n = len(self.data) - self.pos if n is None else n
        if self.fail_after is not None:
            n = min(n, self.fail_after - self.pos) or n
        out = self.data[self.pos:self.pos + n]
        self.pos += len(out)
        return out


class PPClient:
    """head_object / get_object with planned faults: {'head': exc} and
    {('get', key, start): [outcome per attempt]}, outcome in 'ok' | 'retryable' | 'fatal' |
    'body-retryable' | 'body-fatal'."""

    def __init__(self, sch, objects, plan):
        self.sch, self.objects, self.plan = sch, objects, plan
        self.attempts = {}
        self.calls = []

    def head_object(self, Bucket, Key, **kw):
        self.sch.point(('client', 'head'))
        self.calls.append(('head', Key))
        if self.plan.get(('head', Key)):
            raise Fatal('head_object failed')
        return {'ContentLength': len(self.objects[Key])}

    def get_object(self, Bucket, Key, **kw):
        self.sch.point(('client', 'get'))
        data = self.objects[Key]
        start = 0
        rng = kw.get('Range')
        if rng:
            a, b = rng[6:].split('-')
            start = int(a)
            data = data[start:(int(b) + 1) if b else len(data)]
        k = ('get', Key, start)
        n = self.attempts.get(k, 0)
        self.attempts[k] = n + 1
        self.calls.append(('get', Key, start, n))
        outs = self.plan.get(k, [])
        out = outs[n] if n < len(outs) else 'ok'
        if out == 'retryable':
            raise ConnectionError('injected')
        if out == 'fatal':
            raise Fatal('get_object failed')
        if out == 'body-retryable':
            return {'Body': Body(data, max(0, len(data) // 2), ConnectionError('injected mid-body'))}
        if out == 'body-fatal':
            return {'Body': Body(data, max(0, len(data) // 2), Fatal('mid-body'))}
        return {'Body': Body(data)}


class CoopQueue:
    def __init__(self, rig, name):
        self.rig, self.name, self.items = rig, name, []

    def put(self, x):
        self.rig.sch.point(('queue-put', self.name))
        self.items.append(x)
        self.rig.on_put(self.name, x)

    def get(self):
        self.rig.sch.point(('queue-get', self.name))
        self.rig.sch.block_until(lambda: bool(self.items), ('queue', self.name))
        x = self.items.pop(0)
        self.rig.on_get(self.name, x)
        return x


class Rig:
    def __init__(self, sc, sch, sh):
        import s3transfer.processpool as pp
        from s3transfer.utils import OSUtils
        self.pp, self.sc, self.sch, self.sh = pp, sc, sch, sh
        self.dir = tempfile.mkdtemp(prefix='s3v-pp-')
        self.labels = []         # (label line, observation)
        self.objects = {'k%d' % i: bytes((7 * i + j) % 251 for j in range(t['size'])) for i, t in enumerate(sc['transfers'])}
        plan = {}
        for i, t in enumerate(sc['transfers']):
            if t.get('head_fails'):
                plan[('head', 'k%d' % i)] = True
            for start, outs in t.get('get_plan', {}).items():
                plan[('get', 'k%d' % i, int(start))] = outs
        self.client = PPClient(sch, self.objects, plan)
        self.wphase = {}         # worker index -> phase
        self.wjob = {}
        self.sub_t = None
        self.tid_of_key = {}
        self.n_of = {}
        self.accounted = {}
        self.done_snap = {}      # transfer -> snapshot at the moment it became done
        self.cancel_all_pending = None
        self.final = {}
        self.subfailed = set()
        rig = self

        class InstrOS(OSUtils):
            def allocate(self, filename, size):
                rig.sch.point(('fs', 'allocate'))
                t = rig.sub_t
                if rig.sc['transfers'][t].get('alloc_fails'):
                    # what OSUtils.allocate does on OSError: remove the file and re-raise
                    self.remove_file(filename)
                    raise OSError('injected allocate failure')
                super().allocate(filename, size)
                rig.temp_of[t] = filename
                rig.emit('subAlloc', 'ok')

            def remove_file(self, filename):
                role = rig.role()
                if role[0] == 'w':
                    rig.sch.point(('fs', 'remove'))
                super().remove_file(filename)
                if role[0] == 'w' and rig.wphase.get(role[1]) in ('finRemove',):
                    rig.emit('wRemove %d' % role[1], 'ok')
                    rig.wphase[role[1]] = 'fsDone'

            def rename_file(self, a, b):
                role = rig.role()
                rig.sch.point(('fs', 'rename'))
                t = rig.wjob[role[1]]
                if rig.sc['transfers'][t].get('rename_fails'):
                    rig.emit('wRename %d 0' % role[1], 'ok')
                    rig.wphase[role[1]] = 'renameFailed'
                    raise OSError('injected rename failure')
                super().rename_file(a, b)
                rig.emit('wRename %d 1' % role[1], 'ok')
                rig.wphase[role[1]] = 'fsDone'
        self.temp_of = {}
        self.osutil = InstrOS()
        self.monitor = pp.TransferMonitor()
        self.proxy = MonitorProxy(self)

    # ---- bookkeeping -------------------------------------------------------
    def role(self):
        name = self.sch.me().name
        if name == 'sub':
            return ('s', None)
        if name.startswith('w') and name[1:].isdigit():
            return ('w', int(name[1:]))
        return ('u', None)

    def emit(self, label, obs):
        self.labels.append(('pp ' + label, obs))

    def on_put(self, qname, x):
        pp = self.pp
        role = self.role()
        if qname == 'req':
            if x == pp.SHUTDOWN_SIGNAL:
                self.emit('shutBegin', 'ok')
            else:
                t = x.transfer_id
                spec = self.sc['transfers'][t]
                self.final[t] = x.filename
                self.emit('download %d' % self.jobs_for(spec), 'ok')
        else:
            if x == pp.SHUTDOWN_SIGNAL:
                self.emit('shutSignal', 'ok')
            else:
                assert role[0] == 's'
                self.emit('subPut', 'ok')

    def on_get(self, qname, x):
        pp = self.pp
        role = self.role()
        if qname == 'req':
            if x == pp.SHUTDOWN_SIGNAL:
                self.emit('subTake', 'shutdown')
            else:
                self.sub_t = x.transfer_id
                self.emit('subTake', 'request %d' % x.transfer_id)
        else:
            i = role[1]
            if x == pp.SHUTDOWN_SIGNAL:
                self.emit('wTake %d' % i, 'shutdown')
                self.wphase[i] = 'exited'
            else:
                self.wjob[i] = x.transfer_id
                self.wphase[i] = 'took'
                self.emit('wTake %d' % i, 'job %d' % x.transfer_id)

    def jobs_for(self, spec):
        cfg = self.sc['cfg']
        if spec['size'] < cfg['multipart_threshold']:
            return 1
        return -(-spec['size'] // cfg['multipart_chunksize'])

    def snapshot(self, t):
        final = self.final.get(t)
        temp = self.temp_of.get(t)
        content = None
        if final and os.path.exists(final):
            with open(final, 'rb') as f:
                content = f.read()
        return {'accounted': self.accounted.get(t, 0), 'n': self.n_of.get(t),
                'exception': self.monitor.get_exception(t), 'temp_exists': bool(temp and os.path.exists(temp)),
                'final': content, 'subfailed': t in self.subfailed, 'seq': self.sch.tick()}

    def close(self):
        shutil.rmtree(self.dir, ignore_errors=True)


class MonitorProxy:
    """The manager proxy: every call crosses a process boundary (a scheduling point) and is then
    served by the real TransferMonitor."""

    def __init__(self, rig):
        self.rig = rig

    def _connect(self):
        pass

    def __getattr__(self, name):
        rig = self.rig
        real = getattr(rig.monitor, name)

        def call(*a, **k):
            rig.sch.point(('monitor', name))
            role = rig.role()
            if name == 'notify_done':
                rig.done_snap.setdefault(a[0], rig.snapshot(a[0]))
            if name == 'notify_cancel_all_in_progress':
                rig.not_done_at_cancel_all = [t for t in range(len(rig.final)) if not rig.monitor.is_done(t)]
            if name == 'poll_for_result':
                return real(*a, **k)       # blocks inside; not a protocol step
            r = real(*a, **k)
            # a download that became done through this call although it was not notify_done: judged at this moment
            if name != 'notify_done':
                for t in range(len(rig.final)):
                    if t not in rig.done_snap:
                        try:
                            early = rig.monitor.is_done(t)
                        except Exception:   # noqa: not registered yet
                            early = False
                        if early:
                            rig.done_snap[t] = dict(rig.snapshot(t), made_done_by=name)
            self._log(name, role, a, r)
            return r
        return call

    def _log(self, name, role, a, r):
        rig = self.rig
        if role[0] == 'u':
            if name == 'notify_exception':
                rig.emit('cancel %d' % a[0], 'ok')
            elif name == 'notify_cancel_all_in_progress':
                rig.emit('cancelAll', 'ok')
        elif role[0] == 's':
            if name == 'notify_exception':
                rig.subfailed.add(a[0])
                rig.emit('subFail', 'ok')
            elif name == 'notify_done':
                rig.emit('subFailDone', 'ok')
            elif name == 'notify_expected_jobs_to_complete':
                rig.n_of[a[0]] = a[1]
                rig.emit('subAnnounce', 'ok')
        else:
            i = role[1]
            ph = rig.wphase.get(i)
            if name == 'get_exception':
                if ph == 'took':
                    rig.emit('wCheck %d' % i, 'skip' if r else 'run')
                    rig.wphase[i] = 'ran' if r else 'running'
                elif ph == 'counted0':
                    rig.emit('wFinCheck %d' % i, 'remove' if r else 'rename')
                    rig.wphase[i] = 'finRemove' if r else 'finRename'
            elif name == 'notify_exception':
                if ph == 'running':
                    rig.emit('wFail %d' % i, 'ok')
                    rig.wphase[i] = 'ran'
                elif ph == 'renameFailed':
                    rig.emit('wRenameExc %d' % i, 'ok')
                    rig.wphase[i] = 'finRemove'
            elif name == 'notify_job_complete':
                rig.accounted[a[0]] = rig.accounted.get(a[0], 0) + 1
                rig.emit('wDec %d' % i, 'remaining %d' % r)
                rig.wphase[i] = 'counted0' if r == 0 else 'idle'
            elif name == 'notify_done':
                rig.emit('wDone %d' % i, 'ok')
                rig.wphase[i] = 'idle'


class UserError(Exception):
    pass


def gen_scenario(rng, tier):
    w = rng.choice([1, 2, 2, 3])
    cfg = {'multipart_threshold': rng.choice([4, 6, 100]), 'multipart_chunksize': rng.choice([2, 3, 4]), 'max_request_processes': w}
    transfers = []
    for _ in range(rng.choice([1, 1, 2, 2, 3])):
        size = rng.choice([0, 1, 3, 5, 7, 8, 10, 12])
        t = {'size': size}
        r = rng.random()
        if r < 0.08:
            t['head_fails'] = True
        elif r < 0.16:
            t['alloc_fails'] = True
        elif r < 0.26:
            t['rename_fails'] = True
        if rng.random() < 0.35:
            n = 1 if size < cfg['multipart_threshold'] else -(-size // cfg['multipart_chunksize'])
            start = rng.randrange(n) * cfg['multipart_chunksize'] if n > 1 else 0
            k = rng.random()
            if k < 0.35:
                outs = ['retryable'] * rng.randrange(1, 5)
            elif k < 0.5:
                outs = ['retryable'] * 5
            elif k < 0.7:
                outs = ['fatal']
            elif k < 0.85:
                outs = ['body-retryable']
            else:
                outs = ['body-fatal']
            t['get_plan'] = {str(start): outs}
        transfers.append(t)
    user = rng.choice(['exit', 'exit', 'shutdown', 'cancel', 'cancel', 'ctrl-c-block', 'ctrl-c-result', 'exception-block'])
    if user in ('cancel', 'ctrl-c-block') and rng.random() < 0.5:
        # a cancel racing the final rename, which fails
        for t in transfers:
            if not (t.get('head_fails') or t.get('alloc_fails')):
                t['rename_fails'] = True
    after = rng.choice([0, 1, 3, 6, 10, 20, 40, 80])
    cancel_transfer = rng.randrange(len(transfers))
    if user == 'cancel' and rng.random() < 0.6:
        after = rng.choice([0, 0, 0, 1, 2])     # a cancel before the submitter has sized the download:
        cancel_transfer = len(transfers) - 1    # the request submitted last is the one it reaches last
    return {'cfg': cfg, 'transfers': transfers, 'user': user, 'after_steps': after,
            'cancel_transfer': cancel_transfer, 'mode': rng.choice(['uniform', 'sticky', 'pct', 'stall']),
            'sched_seed': rng.randrange(1 << 30), 'collect': rng.random() < 0.6}


def run_scenario(sc, schedule=None):
    from sched import SchedAbort, Scheduler
    import shim
    import s3transfer.processpool as pp
    from s3transfer.exceptions import CancelledError
    sch = Scheduler(seed=sc['sched_seed'], mode=sc['mode'], schedule=schedule, max_steps=200000)
    out = {'outcomes': {}, 'errors': []}
    with shim.Installed(sch, modules=['processpool']) as sh:
        sh.yield_on_release = False      # a monitor call's effect and its log entry are one step
        rig = Rig(sc, sch, sh)
        saved_mp = pp.multiprocessing
        qs = []

        def make_queue(n=0):
            q = CoopQueue(rig, 'req' if not qs else 'work')
            qs.append(q)
            return q
        pp.multiprocessing = types.SimpleNamespace(Queue=make_queue, Process=saved_mp.Process)
        try:
            cfg = pp.ProcessTransferConfig(**sc['cfg'])
            dl = pp.ProcessPoolDownloader(config=cfg)
            dl._osutil = rig.osutil
            threads = []

            def start():
                dl._manager = types.SimpleNamespace(shutdown=lambda: None)
                dl._transfer_monitor = rig.proxy
                sub = pp.GetObjectSubmitter(transfer_config=dl._transfer_config, client_factory=dl._client_factory,
                                            transfer_monitor=rig.proxy, osutil=dl._osutil,
                                            download_request_queue=dl._download_request_queue, worker_queue=dl._worker_queue)
                sub._client = rig.client
                th = sch.spawn(sub._do_run, 'sub')
                threads.append(th)
                sub.join = lambda th=th: sch.block_until(lambda: th.finished, ('join', 'sub'))
                dl._submitter = sub
                for i in range(dl._transfer_config.max_request_processes):
                    wk = pp.GetObjectWorker(queue=dl._worker_queue, client_factory=dl._client_factory,
                                            transfer_monitor=rig.proxy, osutil=dl._osutil)
                    wk._client = rig.client
                    wk._IO_CHUNKSIZE = 2
                    orig = wk._do_get_object

                    def do_get(i=i, orig=orig, **kw):
                        orig(**kw)
                        rig.emit('wWrite %d' % i, 'ok')
                        rig.wphase[i] = 'ran'
                    wk._do_get_object = do_get
                    th = sch.spawn(wk._do_run, 'w%d' % i)
                    threads.append(th)
                    wk.join = lambda th=th, i=i: sch.block_until(lambda: th.finished, ('join', 'w%d' % i))
                    dl._workers.append(wk)
                dl._started = True
            dl._start = start
            futs = {}

            def collect(t):
                try:
                    futs[t].result()
                    out['outcomes'][t] = ('ok', None)
                except SchedAbort:
                    raise
                except KeyboardInterrupt:
                    out['outcomes'][t] = ('interrupt', None)
                    raise
                except BaseException as e:   # noqa
                    out['outcomes'][t] = ('raise', e)

            def main():
                user = sc['user']
                try:
                    try:
                        with dl:
                            for t in range(len(sc['transfers'])):
                                futs[t] = dl.download_file('b', 'k%d' % t, os.path.join(rig.dir, 'dest-%d' % t))
                            n0 = sch.steps
                            if user in ('cancel', 'ctrl-c-block', 'exception-block', 'shutdown'):
                                sch.block_until(lambda: sch.steps >= n0 + sc['after_steps'] or
                                                all(f.done() for f in futs.values()), 'user-delay')
                            if user == 'cancel':
                                futs[sc['cancel_transfer']].cancel()
                            elif user == 'ctrl-c-block':
                                raise KeyboardInterrupt()
                            elif user == 'exception-block':
                                raise UserError()
                            elif user == 'ctrl-c-result':
                                sh.interrupt_plan[('main', sh.wait_counts.get('main', 0))] = KeyboardInterrupt()
                            elif user == 'shutdown':
                                dl.shutdown()
                                rig.emit('shutReturn', 'ok')
                                out['explicit_shutdown_seq'] = sch.tick()
                            if sc['collect'] or user == 'ctrl-c-result':
                                for t in futs:
                                    collect(t)
                    except (UserError, KeyboardInterrupt):
                        pass
                    if user != 'shutdown':
                        rig.emit('shutReturn', 'ok')
                    out['shutdown_seq'] = sch.tick()
                    out['done_at_shutdown'] = {t: rig.monitor.is_done(t) for t in futs}
                    out['threads_running'] = [th.name for th in threads if not th.finished]
                    for t in futs:
                        if t not in out['outcomes']:
                            collect(t)
                except SchedAbort:
                    raise
                except BaseException as e:   # noqa
                    import traceback
                    out['errors'].append('main: %r %s' % (e, traceback.format_exc()[-400:]))
            out['failure'] = sch.run(main, timeout=120)
            out['thread_errors'] = [repr(e) for e in sch.thread_errors]
            out['rig'] = rig
            out['choices'] = list(sch.choices)
            out['multi'] = sch.multi_runnable_points
            out['final_state'] = {}
            if out['failure'] is None:
                for t in futs:
                    snap = rig.snapshot(t)
                    snap['done'] = rig.monitor.is_done(t)
                    out['final_state'][t] = snap
            out['leftover'] = sorted(f for f in os.listdir(rig.dir) if not f.startswith('dest-') or '.' in f)
        finally:
            pp.multiprocessing = saved_mp
            rig.close()
    return out


def judge(sc, out):
    """The C19 statement on one run.  [(signature, what)]"""
    from s3transfer.exceptions import CancelledError
    v = []
    rig = out['rig']
    if out['failure'] is not None:
        return [('hang:%s' % type(out['failure']).__name__, 'the run did not finish: %s' % out['failure'])]
    for e in out['thread_errors'] + out['errors']:
        v.append(('thread-error', e))
    for t, spec in enumerate(sc['transfers']):
        snap = rig.done_snap.get(t)
        expected = rig.objects['k%d' % t]
        if snap is None:
            v.append(('never-done', 'download %d never became done although shutdown returned' % t))
            continue
        if not snap['subfailed']:
            if snap['n'] is None or snap['accounted'] != snap['n']:
                v.append(('done-before-all-jobs', 'download %d became done with %s of %s jobs accounted for' % (t, snap['accounted'], snap['n'])))
        if snap['temp_exists']:
            v.append(('temp-left-at-done', 'download %d became done while its temporary file still exists (exception: %r)' % (t, snap['exception'])))
        if snap['exception'] is None:
            if snap['final'] != expected:
                v.append(('done-without-file', 'download %d became done without an exception but the destination holds %r, expected %d bytes'
                          % (t, None if snap['final'] is None else len(snap['final']), len(expected))))
        elif snap['final'] is not None and snap['final'] != expected:
            v.append(('partial-file-published', 'download %d failed and a partial destination file (%d bytes) is in place' % (t, len(snap['final']))))
        oc = out['outcomes'].get(t)
        if oc and oc[0] == 'ok' and snap['exception'] is None and out['final_state'][t]['final'] != expected:
            v.append(('success-without-file', 'download %d: result() returned but the file is not complete' % t))
    if not all(out.get('done_at_shutdown', {}).values()):
        v.append(('shutdown-before-done', 'shutdown returned while downloads %s were not done' %
                  [t for t, d in out['done_at_shutdown'].items() if not d]))
    if out.get('threads_running'):
        v.append(('shutdown-before-exit', 'shutdown returned while %s were still running' % out['threads_running']))
    if sc['user'] in ('ctrl-c-block', 'ctrl-c-result'):
        for t in getattr(rig, 'not_done_at_cancel_all', []):
            oc = out['outcomes'].get(t)
            if oc and oc[0] == 'ok':
                v.append(('ctrl-c-not-cancelled', 'download %d was unfinished at Ctrl-C and its future still returned a result' % t))
    if out['leftover']:
        v.append(('temp-left-after-shutdown', 'files left in the destination directory: %s' % out['leftover']))
    return v


def _final_lines(rig, sc, out):
    lines, expect = [], []
    for t in range(len(sc['transfers'])):
        st = out['final_state'][t]
        expected = rig.objects['k%d' % t]
        lines.append('pp show %d' % t)
        expect.append((int(st['done']), int(st['exception'] is not None), int(st['temp_exists']), int(st['final'] == expected)))
    return lines, expect


def corr(seed, tier):
    """Trace validation: every label the real processes produced is enabled in the model, with the
    same observation (which request / job a queue handed out, skip or run, jobs remaining, remove
    or rename), and the final monitor / file state agrees."""
    res = CorrResult('procpool-trace')
    rng = rng_for(seed, 'procpool')
    runs = []
    for _ in range(400 if tier == 'quick' else 4000):
        sc = gen_scenario(rng, tier)
        out = run_scenario(sc)
        rig = out['rig']
        if out['failure'] is not None:
            res.mismatches.append({'component': 'procpool-trace', 'case': sc, 'ops': [l for l, _ in rig.labels],
                                   'first_diverging_op': 'run', 'impl': 'did not finish: %s' % out['failure'], 'model': 'terminates'})
            continue
        lines = ['pp init %d' % sc['cfg']['max_request_processes']] + [l for l, _ in rig.labels]
        exp = ['ok'] + [o for _, o in rig.labels]
        fl, fe = _final_lines(rig, sc, out)
        runs.append((sc, out['choices'][:400], lines, exp, fl, fe))
        kinds = tuple(sorted({l.split()[1] for l, _ in rig.labels}))
        res.note_case((tuple(l for l, _ in rig.labels),), out['multi'] > 3,
                      {'cfg': sc['cfg'], 'user': sc['user'], 'labels': [l for l, _ in rig.labels][:40]} if len(res.samples) < 2 else None)
        for k in kinds:
            res.hit('label:' + k)
        res.hit('user:' + sc['user'])
    all_lines = []
    for sc, ch, lines, exp, fl, fe in runs:
        all_lines.append('reset')
        all_lines.extend(lines)
        all_lines.extend(fl)
    try:
        model = run_driver(all_lines)
    except DriverError as e:
        res.error = 'driver: %s' % e
        return res
    pos = 0
    for sc, ch, lines, exp, fl, fe in runs:
        pos += 1
        bad = None
        for j, (line, e) in enumerate(zip(lines, exp)):
            res.ops += 1
            if model[pos + j] != e:
                bad = (j, line, e, model[pos + j])
                break
        if bad is None:
            for j, (line, e) in enumerate(zip(fl, fe)):
                m = dict(kv.split('=') for kv in model[pos + len(lines) + j].split())
                n = sc['transfers'][int(line.split()[2])]
                got = (int(m['done']), int(m['exc']), int(m['temp']), int(m['renamed']))
                if got != e:
                    bad = (len(lines) + j, line, 'done=%d exc=%d temp=%d complete-file=%d' % e, model[pos + len(lines) + j])
                    break
        if bad:
            res.mismatches.append({'component': 'procpool-trace', 'case': {'scenario': sc, 'schedule': ch},
                                   'ops': (lines + fl)[:bad[0] + 1], 'first_diverging_op': bad[1], 'impl': bad[2], 'model': bad[3]})
        pos += len(lines) + len(fl)
    return res


def oracle(seed, tier):
    res = OracleResult('C19')
    rng = rng_for(seed, 'procpool-oracle')
    for _ in range(800 if tier == 'quick' else 12000):
        sc = gen_scenario(rng, tier)
        out = run_scenario(sc)
        res.evaluations += 1
        if res.enough():
            break
        rig = out['rig']
        res.hit('user:' + sc['user'])
        res.hit('workers:%d' % sc['cfg']['max_request_processes'])
        for t, oc in out['outcomes'].items():
            res.hit('outcome:' + oc[0] + (':' + type(oc[1]).__name__ if oc[1] is not None else ''))
        res.nontrivial.add((sc['user'], len(sc['transfers']), tuple(sorted(type(oc[1]).__name__ for oc in out['outcomes'].values())),
                            out['multi'] > 5))
        if len(res.samples) < 2:
            res.samples.append({k: sc[k] for k in ('cfg', 'transfers', 'user')})
        for sig, what in judge(sc, out):
            res.violation(sig, {'scenario': sc, 'schedule': out['choices'][:600]}, what)
    return res


def _relabel(fn, prop):
    def wrapped(seed, tier):
        r = fn(seed, tier)
        if hasattr(r, 'prop'):
            r.prop = prop
        return r
    wrapped.__name__ = '%s_%s' % (fn.__name__, prop)
    return wrapped


# the process-pool downloader is one of the download front-ends C02 and C06 speak about: its trace validation and
# oracle (done only after all jobs, temp gone at done, no partial publish, bytes of the renamed file) run under them too
corr_C02, corr_C06 = _relabel(corr, 'C02'), _relabel(corr, 'C06')
oracle_C02, oracle_C06 = _relabel(oracle, 'C02'), _relabel(oracle, 'C06')
