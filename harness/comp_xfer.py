"""Trace validation of the M2 models against the real manager under the deterministic scheduler:
* Xfer (S3V.Model.Xfer): the observed event sequence of every upload / copy / delete transfer must
  be a run of the transfer model (every label enabled in turn) and end in the same status, abort
  count and done-callback count;
* Exec (S3V.Model.Exec): submit / pick / finish of every stage must be a run of the stage model
  with the configured capacity and worker count."""
from common import CorrResult, compare_with_model, rng_for


def _eligible(t):
    if t['kind'] not in ('upload', 'copy', 'delete'):
        return False
    for s in t['subscribers']:
        if any(a in ('set_exception',) for a in (s.get('reentrant') or [])):
            return False
    return True


def corr(seed, tier, props_focus=None):
    import comp_explore
    import explore
    res = CorrResult('xfer-trace')
    rng = rng_for(seed, 'xfer-trace')
    cases = []
    n = 400 if tier == 'quick' else 8000
    focuses = [comp_explore.focus_for('C05'), comp_explore.focus_for('C07'), comp_explore.focus_for('C04'), None,
               comp_explore.focus_for('C08'), comp_explore.focus_for('C08')]
    for i in range(n):
        sc = explore.gen_scenario(rng, focuses[i % len(focuses)])
        explore.strip_chains(sc)      # the trace models know the scenario's own transfers only
        if sc.get('cancel') and sc['cancel']['kind'] in ('interrupt-result', 'interrupt-exit'):
            sc['cancel'] = None
        run = explore.run_scenario(sc, observe=True)
        if run.failure is not None or run.main_error is not None:
            continue       # judged by the C04 / C07 oracles
        obs = run.observer
        for ti, t in enumerate(sc['transfers']):
            if not _eligible(t):
                continue
            seq = [l for l in obs.sequence(ti) if l != 'ANN0']
            if any(l == 'OVERRIDE' for l in seq):
                continue
            ntasks = len(obs.task_ids.get(ti, {}))
            ops = [('xfer new %d' % max(ntasks, 1), 'ok')]
            ops += [('xfer ' + l, 'ok') for l in seq]
            fut = run.futures.get(ti)
            if fut is not None:
                c = fut._coordinator
                aborts = len([e for e in run.fake.log if e['op'] == 'abort_multipart_upload' and e['phase'] == 'begin'
                              and e['args'].get('Key') == 'k%d' % ti])
                ops.append(('xfer status', '%s aborts=%d doneCbs=1 event=1' % (c.status, aborts)))
            nontrivial = ntasks > 1 and (bool(sc['faults']) or sc['cancel'] is not None)
            res.note_case((i, ti), nontrivial,
                          {'transfer': t['kind'], 'labels': seq[:40], 'tasks': ntasks} if nontrivial else None)
            res.hit('%s:%d-tasks' % (t['kind'], min(ntasks, 4)))
            cases.append(({'scenario': sc, 'transfer': ti, 'schedule': run.sch.choices[:500]}, ops))
    compare_with_model(res, cases)
    return res


def exec_corr(seed, tier):
    import comp_explore
    import explore
    res = CorrResult('exec-trace')
    rng = rng_for(seed, 'exec-trace')
    cases = []
    n = 200 if tier == 'quick' else 5000
    focus = comp_explore.focus_for('C10')
    for i in range(n):
        sc = explore.gen_scenario(rng, focus if i % 2 else None)
        explore.strip_chains(sc)      # the trace models know the scenario's own transfers only
        if sc.get('cancel') and sc['cancel']['kind'] in ('interrupt-result', 'interrupt-exit'):
            sc['cancel'] = None
        run = explore.run_scenario(sc, observe=True)
        if run.failure is not None or run.main_error is not None:
            continue
        cfg = sc['cfg']
        names = sorted(run.observer.exec_events)
        # executors are created in the order request, submission, io (ex1, ex2, ex3 of this run's shims);
        # an executor that saw no event (e.g. no request was ever submitted) is simply absent
        stage_of = {'ex1': 'request', 'ex2': 'submission', 'ex3': 'io'}
        limits = {'request': (cfg['max_request_queue_size'] + cfg['max_in_memory_upload_chunks'] + cfg['max_in_memory_download_chunks'],
                              cfg['max_request_concurrency']),
                  'submission': (cfg['max_submission_queue_size'], cfg['max_submission_concurrency']),
                  'io': (cfg['max_io_queue_size'], 1)}
        caps = {n: limits[stage_of[n]] for n in names if n in stage_of}
        for name in names:
            if name not in caps:
                continue
            cap, workers = caps[name]
            ops = [('exec new %d %d' % (cap, workers), 'ok')]
            for t, kind, uid in sorted(run.observer.exec_events[name]):
                if kind == 'submit':
                    ops.append(('exec submit %d -' % uid, 'ok'))
                else:
                    ops.append(('exec %s %d' % (kind, uid), 'ok'))
            ops.append(('exec state', 'free=%d queued=0 running=0' % cap))
            stage = stage_of[name]
            res.note_case((i, name), len(ops) > 6, {'stage': stage, 'cap': cap, 'workers': workers,
                                                    'events': [o for o, _ in ops[:14]]} if len(ops) > 6 else None)
            res.hit(stage)
            cases.append(({'scenario': sc, 'stage': stage, 'schedule': run.sch.choices[:500]}, ops))
    compare_with_model(res, cases)
    return res
