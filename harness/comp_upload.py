"""Upload component (C01): how the three upload input managers cut a source into bodies, against
S3V.Model.Upload — non-seekable streams with adversarial short reads included — and the direct
C01 oracle end to end (object bytes, complete once, parts 1..n with the returned ETags /
checksums, body re-sent after client-level rewinds)."""
import io
import os
import shutil
import tempfile

from common import CorrResult, compare_with_model, rng_for
from fakes3 import FakeS3
from oracle import OracleResult


class ShortReader:
    """A stream that cannot seek and may return fewer bytes than asked before EOF."""

    def __init__(self, data, script):
        self.data, self.pos, self.script = data, 0, list(script)
        self.reads = []

    def read(self, n=-1):
        rem = len(self.data) - self.pos
        if n is None or n < 0:
            k = rem
        elif self.script:
            k = min(n, max(self.script.pop(0), 1), rem)
        else:
            k = min(n, rem)
        out = self.data[self.pos:self.pos + k]
        self.pos += k
        self.reads.append((n, k))
        return out

    def readable(self):
        return True


class _CA:
    pass


class _Meta:
    def __init__(self, fileobj, size=None):
        self.size = size
        self.call_args = _CA()
        self.call_args.fileobj = fileobj
        self.call_args.subscribers = []

    def provide_transfer_size(self, s):
        self.size = s


class _Fut:
    def __init__(self, fileobj, size=None):
        self.meta = _Meta(fileobj, size)


class _Cfg:
    def __init__(self, thr):
        self.multipart_threshold = thr


def fmt(bs):
    return ','.join(str(b) for b in bs)


def real_nonseekable(data, script, thr, chunk):
    from s3transfer.futures import TransferCoordinator
    from s3transfer.upload import UploadNonSeekableInputManager
    from s3transfer.utils import OSUtils
    stream = ShortReader(data, script)
    mgr = UploadNonSeekableInputManager(OSUtils(), TransferCoordinator())
    fut = _Fut(stream)
    if mgr.requires_multipart_upload(fut, _Cfg(thr)):
        parts = []
        nums = []
        for num, body in mgr.yield_upload_part_bodies(fut, chunk):
            nums.append(num)
            parts.append(body.read())
        if nums != list(range(1, len(nums) + 1)):
            return 'part-numbers-wrong %r' % nums
        return 'mp=1 parts=%s' % '|'.join(fmt(p) for p in parts)
    body = mgr.get_put_object_body(fut)
    return 'mp=0 body=%s' % fmt(body.read())


def real_slices(kind, data, start, chunk, tmpdir):
    from s3transfer.futures import TransferCoordinator
    from s3transfer.upload import UploadFilenameInputManager, UploadSeekableInputManager
    from s3transfer.utils import OSUtils
    coord = TransferCoordinator()
    if kind == 'seekable':
        f = io.BytesIO(data)
        f.seek(start)
        mgr = UploadSeekableInputManager(OSUtils(), coord)
        fut = _Fut(f)
        mgr.provide_transfer_size(fut)
    else:
        path = os.path.join(tmpdir, 'src')
        with open(path, 'wb') as fh:
            fh.write(data[start:])
        mgr = UploadFilenameInputManager(OSUtils(), coord)
        fut = _Fut(path)
        mgr.provide_transfer_size(fut)
    parts = []
    for num, body in mgr.yield_upload_part_bodies(fut, chunk):
        with body:
            parts.append(body.read())
    return '|'.join(fmt(p) for p in parts), len(parts)


def corr(seed, tier):
    res = CorrResult('upload')
    rng = rng_for(seed, 'upload')
    cases = []
    tmpdir = tempfile.mkdtemp(prefix='s3v-up-')
    try:
        for i in range(500 if tier == 'quick' else 8000):
            n = rng.choice([0, 1, 2, 5, 8, 9, rng.randrange(0, 24)])
            data = bytes((j * 3 + 1) % 256 for j in range(n))
            thr = rng.choice([1, 2, 4, 8, n, n + 1, max(n - 1, 1)])
            thr = max(thr, 1)
            chunk = rng.choice([1, 2, 3, 4, 8])
            script = [rng.randrange(1, 6) for _ in range(rng.randrange(0, 6))] if i % 3 else []
            impl = real_nonseekable(data, script, thr, chunk)
            line = 'up ns %d %d %s %s' % (thr, chunk, fmt(data) or '-', fmt(script) or '-')
            res.note_case(('ns', data, tuple(script), thr, chunk), bool(script) and n >= thr,
                          {'kind': 'nonseekable', 'len': n, 'threshold': thr, 'chunk': chunk, 'short_read_caps': script})
            res.hit('ns:' + impl[:4])
            cases.append(({'kind': 'nonseekable', 'len': n, 'threshold': thr, 'chunk': chunk, 'script': script},
                          [(line, impl)]))
        for i in range(150 if tier == 'quick' else 2000):
            n = rng.randrange(0, 24)
            data = bytes((j * 3 + 1) % 256 for j in range(n))
            start = rng.randrange(0, n + 1) if i % 2 else 0
            chunk = rng.choice([1, 2, 3, 4, 8])
            kind = 'seekable' if i % 2 else 'path'
            impl, nparts = real_slices(kind, data, start, chunk, tmpdir)
            line = 'up slices %s %d %d %d' % (fmt(data) or '-', start, chunk, nparts)
            res.note_case((kind, data, start, chunk), nparts > 1, {'kind': kind, 'len': n, 'start': start, 'chunk': chunk})
            res.hit(kind)
            cases.append(({'kind': kind, 'len': n, 'start': start, 'chunk': chunk},
                          [(line, impl), ('plan ceil %d %d' % (n - start, chunk), str(nparts))]))
    finally:
        shutil.rmtree(tmpdir, ignore_errors=True)
    compare_with_model(res, cases)
    return res


# ---------------------------------------------------------------------------
MiB = 1024 * 1024


def oracle(seed, tier):
    """End to end through the real TransferManager (NonThreadedExecutor) and the fake service:
    the stored object equals the source, the upload is completed once with parts 1..n carrying
    the ETags / checksums returned, also when botocore re-sends bodies."""
    from s3transfer.futures import NonThreadedExecutor
    from s3transfer.manager import TransferConfig, TransferManager
    res = OracleResult('C01')
    rng = rng_for(seed, 'upload-oracle')
    tmpdir = tempfile.mkdtemp(prefix='s3v-upo-')
    n_small = 80 if tier == 'quick' else 1500
    try:
        for i in range(n_small + (6 if tier == 'quick' else 24)):
            real_scale = i >= n_small
            if real_scale:
                size = rng.choice([5 * MiB, 5 * MiB + 1, 10 * MiB + 7, 11 * MiB, 17 * MiB])
                # a threshold above the effective part size and not a multiple of it as well
                thr, chunk = rng.choice([(5 * MiB, 1 * MiB), (5 * MiB, 5 * MiB), (8 * MiB, 1 * MiB), (8 * MiB, 5 * MiB), (7 * MiB, 6 * MiB)])
            else:
                size = rng.choice([0, 1, 5, 9, 17, rng.randrange(0, 40)])
                thr, chunk = rng.choice([1, 6, 8, 100]), rng.choice([1, 3, 8])
            data = (bytes(range(256)) * (size // 256 + 1))[:size] if real_scale else bytes((j * 13 + 5) % 256 for j in range(size))
            kind = rng.choice(['path', 'seekable', 'seekable-offset', 'nonseekable', 'nonseekable-short', 'seekable-gzip'])
            proto = {'sign_reads': rng.random() < 0.4, 'rewinds': rng.choice([0, 0, 1, 2]),
                     'read_size': rng.choice([None, 1, 7, 64 * 1024])}
            if real_scale:
                proto['read_size'] = rng.choice([None, 256 * 1024, 1 * MiB])
                kind = rng.choice(['nonseekable', 'nonseekable', 'nonseekable-short', 'seekable', 'path'])
            fake = FakeS3(body_protocol=proto)
            if real_scale:
                fake.min_part_size = 5 * MiB
            alg = rng.choice([None, None, 'CRC32'])
            extra = {'ChecksumAlgorithm': alg} if alg else {}
            start = 0
            if kind == 'path':
                src = os.path.join(tmpdir, 'src-%d' % i)
                with open(src, 'wb') as fh:
                    fh.write(data)
            elif kind == 'seekable':
                src = io.BytesIO(data)
            elif kind == 'seekable-offset':
                start = rng.randrange(0, size + 1)
                src = io.BytesIO(data)
                src.seek(start)
            elif kind == 'seekable-gzip':
                # a seekable stream with a file descriptor whose file is not the stream: gzip.open(path, 'rb')
                import gzip
                gz = os.path.join(tmpdir, 'src-%d.gz' % i)
                with gzip.open(gz, 'wb') as fh:
                    fh.write(data)
                src = gzip.open(gz, 'rb')
                if size and rng.random() < 0.4:
                    start = rng.randrange(0, size + 1)
                    src.seek(start)
            elif kind == 'nonseekable':
                src = ShortReader(data, [])
            else:
                caps = [rng.choice([1, 2, 5, chunk, thr, 3 * MiB]) for _ in range(rng.randrange(1, 8))]
                src = ShortReader(data, caps)
            want = data[start:]
            # the size may also come from a subscriber (then the manager does not measure the stream itself)
            provided = kind != 'path' and rng.random() < 0.35
            subs = []
            if provided:
                from s3transfer.subscribers import BaseSubscriber

                class ProvideSize(BaseSubscriber):
                    def on_queued(self, future, **kw):
                        future.meta.provide_transfer_size(len(want))
                subs = [ProvideSize()]
            wit = {'source': kind, 'size': size, 'start': start, 'threshold': thr, 'chunksize': chunk,
                   'body_protocol': proto, 'checksum_algorithm': alg, 'size_provided_by_subscriber': provided}
            if kind == 'nonseekable-short':
                wit['short_read_caps'] = src.script[:]
            err = None
            try:
                with TransferManager(fake, TransferConfig(multipart_threshold=thr, multipart_chunksize=chunk),
                                     executor_cls=NonThreadedExecutor) as tm:
                    tm.upload(src, 'b', 'k', extra_args=extra, subscribers=subs).result()
            except Exception as e:   # noqa
                err = e
            res.evaluations += 1
            if res.enough():
                break
            res.hit(kind)
            if err is not None:
                res.violation('upload-failed:' + kind, wit, 'upload raised %r without any fault' % err)
                continue
            got = fake.objects.get(('b', 'k'))
            if got != want:
                wit['stored_len'] = None if got is None else len(got)
                res.violation('object-differs:' + kind, wit,
                              'success reported but the object has %s bytes, source has %d'
                              % (None if got is None else len(got), len(want)))
            for uid, up in fake.uploads.items():
                if up['completes'] != 1 or up['aborts'] != 0:
                    res.violation('complete-count:' + kind, wit, 'upload completed %d times, aborted %d' % (up['completes'], up['aborts']))
                if up.get('complete_problems'):
                    res.violation('complete-parts:' + kind, wit, 'CompleteMultipartUpload: %s' % up['complete_problems'][0])
                if real_scale or len(up['parts']) > 1:
                    res.nontrivial.add((kind, size, thr, chunk, i))
            if proto['rewinds']:
                res.nontrivial.add((kind, 'rewind', i))
        res.samples.append(wit)
    finally:
        shutil.rmtree(tmpdir, ignore_errors=True)
    return res


def oracle_c11_realscale(seed, tier):
    """C11 at real scale: stream-upload buffers against max(multipart_chunksize, multipart_threshold)."""
    from s3transfer.futures import NonThreadedExecutor
    from s3transfer.manager import TransferConfig, TransferManager
    res = OracleResult('C11')
    for thr, chunk, size in [(1 * MiB, 1 * MiB, 6 * MiB + 5), (6 * MiB, 6 * MiB, 13 * MiB), (8 * MiB, 2 * MiB, 9 * MiB)]:
        data = (bytes(range(256)) * (size // 256 + 1))[:size]
        fake = FakeS3()
        with TransferManager(fake, TransferConfig(multipart_threshold=thr, multipart_chunksize=chunk),
                             executor_cls=NonThreadedExecutor) as tm:
            tm.upload(ShortReader(data, []), 'b', 'k').result()
        res.evaluations += 1
        if res.enough():
            break
        sizes = [len(v[1]) for up in fake.uploads.values() for v in up['parts'].values()]
        bound = max(thr, chunk)
        res.nontrivial.add((thr, chunk, size))
        if sizes and max(sizes) > bound:
            res.violation('upload-buffer-size:adjusted-chunk-above-config',
                          {'multipart_threshold': thr, 'multipart_chunksize': chunk, 'stream_len': size,
                           'largest_part_buffer': max(sizes)},
                          'stream upload buffers of %d bytes with max(multipart_chunksize, multipart_threshold)=%d '
                          '(the part size is adjusted up to the 5 MiB minimum)' % (max(sizes), bound))
        if fake.objects.get(('b', 'k')) != data:
            res.violation('real-scale-bytes', {'size': size}, 'object differs')
    res.samples.append({'multipart_threshold': 1 * MiB, 'multipart_chunksize': 1 * MiB, 'stream_len': 6 * MiB + 5})
    return res
