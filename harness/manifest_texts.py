"""Per-property wording for MANIFEST.json (level text, trusted base note, technique)."""
COMMON_NOTE = ("Trusted: Lean 4.33 kernel; axioms propext/Classical.choice/Quot.sound only (audited per theorem, "
               "no sorry/native_decide); harness/extract.py; the correspondence harness and s3vdriver. ")

TEXTS = {
    'C14': {
        'text': "Lean theorems over all sizes/chunks/thresholds (unbounded Nat): ranges tile, upload parts tile, copy sizes sum, "
                "effective part size in [5MiB,5GiB], n<=10000 up to 5TiB, chunk size changed only when a limit requires; constants "
                "regenerated from source; model tied to the code by differential correspondence (exhaustive small domain + "
                "real-scale boundaries) and end-to-end request logs. Partial: the float ceiling of the code is compared with the "
                "exact ceiling below 2^52 by the correspondence, not proved.",
        'note': COMMON_NOTE + "IEEE-754 ceil(size/float(c)) = exact ceiling below 2^52 is sampled, not proved. Known finding D13.",
        'technique': "Lean 4 proof (induction/omega over a Nat model) + differential correspondence",
    },
    'C12': {
        'text': "Lean theorems over every capacity and every acquire/release history (any number of tags, unbounded length): "
                "capacity equation, sequential tokens, out-of-order release frees nothing until the lowest is released, "
                "non-blocking acquire raises unchanged, exactly the outstanding tokens are releasable and a rejected release "
                "changes nothing, full capacity once all tokens are released; blocking model with Condition wait/notify: no lost "
                "wake-up (invariant over all interleavings). Tied to the real classes by differential correspondence "
                "(exhaustive short histories + seeded long ones, malformed stream).",
        'note': COMMON_NOTE + "threading.Condition is modelled (one waiter woken per notify, woken waiter re-tests). "
                "Defects D11/D15 were found by this check and repaired (fix: commit e3e6256).",
        'technique': "Lean 4 proof (inductive invariant over op sequences) + differential correspondence",
    },
}

TEXTS['C16'] = {
    'text': "Lean theorems over every delivery history consistent with one object (any chunking, order, overlap, re-delivery; "
            "unbounded): emitted writes are consecutive from 0 and carry the object's bytes (in order, each byte once), no "
            "delivered byte is lost (written or queued), queued data lies strictly above the next offset (prompt release), and "
            "full delivery of [0,N) implies N written. Tied to download.DeferQueue by differential correspondence (exhaustive "
            "short histories, seeded download-loop histories with re-chunked retries). The single-request path to a "
            "non-seekable destination is judged end to end under C02.",
    'note': COMMON_NOTE + "heapq order is modelled as a list sorted by (offset, length) (equal for data consistent with one object). "
            "Defect D2 was found by this check and repaired (fix: commit 179a36b).",
    'technique': "Lean 4 proof (invariant + refinement to the object's prefix) + differential correspondence",
}

TEXTS['C17'] = {
    'text': "Lean theorems over every sequence of the coordinator's public operations (unbounded): done() is stable, a "
            "finished transfer cannot be restarted, the first recorded failure/cancellation is kept unless set_result or an "
            "explicit override replaces it, exception stored iff status failed/cancelled and result() raises exactly it, "
            "cleanups/done callbacks run at most once. Thread interleavings are sequences of these atomic steps; that the "
            "real operations are atomic is checked by running 2-3 threads on the real coordinator under the deterministic "
            "scheduler and replaying the operations on the model in state-lock acquisition order.",
    'note': COMMON_NOTE + "threading.Lock/Event are shims under the scheduler; GIL-level atomicity of single attribute reads.",
    'technique': "Lean 4 proof (case analysis + induction over op sequences) + sequential and scheduled correspondence",
}

TEXTS['C15'] = {
    'text': "Finite and complete: for every allowed argument name of every transfer method and every mode, `decide` over the "
            "tables regenerated from the source and from the installed botocore S3 model proves forwarded <=> accepted (stated "
            "exceptions: copy-source -> HeadObject mapping, full-object checksums never on UploadPart, CRC32 default), that "
            "nothing unknown is forwarded, and general theorems about get_filtered_dict / validation / checksum defaults for "
            "arbitrary dictionaries. The wiring (which table filters which call) is tied to the code by end-to-end kwargs "
            "correspondence for every name, random subsets, in single/multipart/ranged modes, modern and legacy front ends. "
            "Partial for the legacy multipart upload: D10 (nothing forwarded to CompleteMultipartUpload) is a recorded finding; "
            "the process-pool routing is proved on the model and exercised under C19.",
    'note': COMMON_NOTE + "The installed botocore service model defines 'the operation accepts a parameter of that name'. "
            "Defects D6, D7 were found by this check and repaired (commits b0364d5, 655e0f9); D10 is recorded.",
    'technique': "Lean 4 proof (decide +kernel over generated finite tables + list lemmas) + end-to-end kwargs correspondence",
}

TEXTS['C09'] = {
    'text': "Lean theorems over every window size and every operation sequence on a request body (reads of any amount, "
            "seeks with any offset/whence, enable/disable anywhere, any number of rewinds): reported values + movement "
            "while suppressed = movement of the bounded position; hence running sums in [0,size] and total = size when "
            "suppressed stretches return to their start (botocore's protocol); a rewind takes back exactly what was "
            "reported; through the aggregator (any threshold, any values) totals are conserved, deliveries are positive and "
            "each running delivered total equals a raw running total; download loop: per range the sum is the bytes of the "
            "successful attempt and every abandoned attempt is taken back exactly (S3V.Props.C02/C09 download part). "
            "Tied to ReadFileChunk / AggregatedProgressCallback / GetObjectTask by differential correspondence; "
            "end-to-end totals over whole transfers are judged by the scheduled explorer.",
    'note': COMMON_NOTE + "botocore's use of the body is scripted (signal_not_transferring, signing reads, seek(0), "
            "signal_transferring, send, rewinds); the underlying file is assumed to read fully.",
    'technique': "Lean 4 proof (telescoping invariant over op sequences) + differential correspondence",
}

TEXTS['C02'] = {
    'text': "Lean theorems over every range, io_chunksize, attempt budget and every sequence of attempts with arbitrary short "
            "reads and faults anywhere (unbounded): at most max_attempts GETs, non-retryable errors never retried, every write "
            "lies in its range at the offset it was fetched from, success implies the range is covered; any interleaving of "
            "such writes yields the object on offset-addressed destinations; for streaming destinations composition with the "
            "C16 queue theorems gives exactly the object, in order, once. Tied to GetObjectTask / "
            "ImmediatelyWriteIOGetObjectTask / DeferQueue by differential correspondence. Partial: the legacy "
            "S3Transfer.download_file loop is judged end to end (bytes, GET budget) by the oracle, not modelled; the "
            "process-pool loop is judged under C19; composition across threads is re-checked end to end by the scheduled explorer.",
    'note': COMMON_NOTE + "Network bodies are scripted (short reads, retryable/non-retryable faults); destinations are real "
            "files / BytesIO / a write-only stream. Defects D2 and D9 were found by these checks and repaired (179a36b, 6ac6d15).",
    'technique': "Lean 4 proof (induction over attempts; order-independence of consistent writes; refinement via C16) + differential correspondence + end-to-end oracle",
}

TEXTS['C01'] = {
    'text': "Lean theorems over every source, start offset, threshold and chunk size: the part bodies of path and seekable "
            "sources concatenate to the source (no gap/overlap/reordering, all but the last of full size); for non-seekable "
            "streams the same for every short-read pattern and either outcome of the threshold pre-read; a body re-read after "
            "any history returns the same bytes (client-level rewinds); copy ranges run from byte 0 to the last byte. "
            "Tied to the three input managers, ReadFileChunk and the copy plan by differential correspondence; the "
            "end-to-end oracle judges the stored object, 'completed once', part numbers 1..n and the returned ETags/checksums "
            "through the real manager (sequential executor here, all schedules under the explorer in C05/C03). Partial: the "
            "cross-thread ordering of create/parts/complete is a theorem of the M2 model (C05), not of this file.",
    'note': COMMON_NOTE + "botocore's use of a body and the multipart assembly of S3 are the fake service's; regular files and "
            "seekable streams are assumed to read fully.",
    'technique': "Lean 4 proof (list induction over slices / read loop) + differential correspondence + end-to-end oracle",
}

NOT_APPLICABLE = []
