"""Per-property wording for MANIFEST.json (level text, trusted base note, technique)."""
COMMON_NOTE = ("Trusted: Lean 4.33 kernel; axioms propext/Classical.choice/Quot.sound only (audited per theorem, "
               "no sorry/native_decide); harness/extract.py; the correspondence harness and s3vdriver. ")

TEXTS = {
    'C14': {
        'text': "Lean theorems over all sizes/chunks/thresholds (unbounded Nat): ranges tile, upload parts tile, copy sizes sum, "
                "effective part size in [5MiB,5GiB], n<=10000 up to 5TiB, chunk size changed only when a limit requires; constants "
                "regenerated from source; model tied to the code by differential correspondence (exhaustive small domain + "
                "real-scale boundaries) and end-to-end request logs. The float ceiling the code computes is modelled exactly and proved (see below).",
        'note': COMMON_NOTE + "That CPython's float division is IEEE-754 binary64 round-to-nearest-even (what S3V.Model.Float53 defines) is checked by bit-for-bit comparison, not proved; Mathlib tactics in the float lemmas. Known finding D13.",
        'technique': "Lean 4 proof (induction/omega over a Nat model) + differential correspondence",
    },
    'C12': {
        'text': "Lean theorems over every capacity and every acquire/release history (any number of tags, unbounded length): "
                "capacity equation, sequential tokens, out-of-order release frees nothing until the lowest is released, "
                "non-blocking acquire raises unchanged, exactly the outstanding tokens are releasable and a rejected release "
                "changes nothing, full capacity once all tokens are released; blocking model with Condition wait/notify: no lost "
                "wake-up (invariant over all interleavings). Tied to the real classes by differential correspondence "
                "(exhaustive short histories + seeded long ones, malformed stream).",
        'note': COMMON_NOTE + "threading.Condition is modelled (one waiter woken per notify, woken waiter re-tests). "
                "Defects D11/D15 were found by this check and repaired (fix: commit e3e6256).",
        'technique': "Lean 4 proof (inductive invariant over op sequences) + differential correspondence",
    },
}

TEXTS['C16'] = {
    'text': "Lean theorems over every delivery history consistent with one object (any chunking, order, overlap, re-delivery; "
            "unbounded): emitted writes are consecutive from 0 and carry the object's bytes (in order, each byte once), no "
            "delivered byte is lost (written or queued), queued data lies strictly above the next offset (prompt release), and "
            "full delivery of [0,N) implies N written. Tied to download.DeferQueue by differential correspondence (exhaustive "
            "short histories, seeded download-loop histories with re-chunked retries). The single-request path to a "
            "non-seekable destination is judged end to end under C02.",
    'note': COMMON_NOTE + "heapq order is modelled as a list sorted by (offset, length) (equal for data consistent with one object). "
            "Defect D2 was found by this check and repaired (fix: commit 179a36b).",
    'technique': "Lean 4 proof (invariant + refinement to the object's prefix) + differential correspondence",
}

TEXTS['C17'] = {
    'text': "Lean theorems over every sequence of the coordinator's public operations (unbounded): done() is stable, a "
            "finished transfer cannot be restarted, the first recorded failure/cancellation is kept unless set_result or an "
            "explicit override replaces it, exception stored iff status failed/cancelled and result() raises exactly it, "
            "cleanups/done callbacks run at most once. Thread interleavings are sequences of these atomic steps; that the "
            "real operations are atomic is checked by running 2-3 threads on the real coordinator under the deterministic "
            "scheduler and replaying the operations on the model in state-lock acquisition order.",
    'note': COMMON_NOTE + "threading.Lock/Event are shims under the scheduler; GIL-level atomicity of single attribute reads.",
    'technique': "Lean 4 proof (case analysis + induction over op sequences) + sequential and scheduled correspondence",
}

TEXTS['C15'] = {
    'text': "Finite and complete: for every allowed argument name of every transfer method and every mode, `decide` over the "
            "tables regenerated from the source and from the installed botocore S3 model proves forwarded <=> accepted (stated "
            "exceptions: copy-source -> HeadObject mapping, full-object checksums never on UploadPart, CRC32 default), that "
            "nothing unknown is forwarded, and general theorems about get_filtered_dict / validation / checksum defaults for "
            "arbitrary dictionaries. The wiring (which table filters which call) is tied to the code by end-to-end kwargs "
            "correspondence for every name, random subsets, in single/multipart/ranged modes, modern and legacy front ends. "
            "Partial for the legacy multipart upload: D10 (nothing forwarded to CompleteMultipartUpload) is a recorded finding; "
            "the process-pool routing is proved on the model and exercised under C19.",
    'note': COMMON_NOTE + "The installed botocore service model defines 'the operation accepts a parameter of that name'. "
            "Defects D6, D7 were found by this check and repaired (commits b0364d5, 655e0f9); D10 is recorded.",
    'technique': "Lean 4 proof (decide +kernel over generated finite tables + list lemmas) + end-to-end kwargs correspondence",
}

TEXTS['C09'] = {
    'text': "Lean theorems over every window size and every operation sequence on a request body (reads of any amount, "
            "seeks with any offset/whence, enable/disable anywhere, any number of rewinds): reported values + movement "
            "while suppressed = movement of the bounded position; hence running sums in [0,size] and total = size when "
            "suppressed stretches return to their start (botocore's protocol); a rewind takes back exactly what was "
            "reported; through the aggregator (any threshold, any values) totals are conserved, deliveries are positive and "
            "each running delivered total equals a raw running total; download loop: per range the sum is the bytes of the "
            "successful attempt and every abandoned attempt is taken back exactly (S3V.Props.C02/C09 download part). "
            "Tied to ReadFileChunk / AggregatedProgressCallback / GetObjectTask by differential correspondence; "
            "end-to-end totals over whole transfers are judged by the scheduled explorer.",
    'note': COMMON_NOTE + "botocore's use of the body is scripted (signal_not_transferring, signing reads, seek(0), "
            "signal_transferring, send, rewinds); the underlying file is assumed to read fully.",
    'technique': "Lean 4 proof (telescoping invariant over op sequences) + differential correspondence",
}

TEXTS['C02'] = {
    'text': "Lean theorems over every range, io_chunksize, attempt budget and every sequence of attempts with arbitrary short "
            "reads and faults anywhere (unbounded): at most max_attempts GETs, non-retryable errors never retried, every write "
            "lies in its range at the offset it was fetched from, success implies the range is covered; any interleaving of "
            "such writes yields the object on offset-addressed destinations; for streaming destinations composition with the "
            "C16 queue theorems gives exactly the object, in order, once. Tied to GetObjectTask / "
            "ImmediatelyWriteIOGetObjectTask / DeferQueue by differential correspondence. Partial: the legacy "
            "S3Transfer.download_file loop is judged end to end (bytes, GET budget) by the oracle, not modelled; the "
            "process-pool loop is judged under C19; composition across threads is re-checked end to end by the scheduled explorer.",
    'note': COMMON_NOTE + "Network bodies are scripted (short reads, retryable/non-retryable faults); destinations are real "
            "files / BytesIO / a write-only stream. Defects D2 and D9 were found by these checks and repaired (179a36b, 6ac6d15).",
    'technique': "Lean 4 proof (induction over attempts; order-independence of consistent writes; refinement via C16) + differential correspondence + end-to-end oracle",
}

TEXTS['C01'] = {
    'text': "Lean theorems over every source, start offset, threshold and chunk size: the part bodies of path and seekable "
            "sources concatenate to the source (no gap/overlap/reordering, all but the last of full size); for non-seekable "
            "streams the same for every short-read pattern and either outcome of the threshold pre-read; a body re-read after "
            "any history returns the same bytes (client-level rewinds); copy ranges run from byte 0 to the last byte. "
            "Tied to the three input managers, ReadFileChunk and the copy plan by differential correspondence; the "
            "end-to-end oracle judges the stored object, 'completed once', part numbers 1..n and the returned ETags/checksums "
            "through the real manager (sequential executor here, all schedules under the explorer in C05/C03). Partial: the "
            "cross-thread ordering of create/parts/complete is a theorem of the M2 model (C05), not of this file.",
    'note': COMMON_NOTE + "botocore's use of a body and the multipart assembly of S3 are the fake service's; regular files and "
            "seekable streams are assumed to read fully.",
    'technique': "Lean 4 proof (list induction over slices / read loop) + differential correspondence + end-to-end oracle",
}

M2_NOTE = ("Modelled, not verified: CPython threading primitives and ThreadPoolExecutor/Future as the cooperative shims "
           "implement them; S3/botocore as the fake service; only thread switches at shim operations are explored. ")

TEXTS['C03'] = {
    'text': "Partial proof. Lean theorems over every run of the transfer model Xfer (uploads, copies, deletes: all "
            "interleavings, any placement of request failures and cancels, any number of parts): success implies the final "
            "request and every other request succeeded (no false success), a failed request is recorded before its task "
            "ends and makes the transfer done, failed/cancelled statuses have a real cause; download retry bounds and "
            "'non-retryable is never retried' from the Download model; coordinator consistency from C17. The model is tied "
            "to the code by trace validation: the observed event sequence of every upload/copy/delete run under the "
            "deterministic scheduler must be a run of the model. Not modelled (explorer oracles only): downloads through the "
            "manager, callback and file-system faults, pairs of faults.",
    'note': COMMON_NOTE + M2_NOTE,
    'technique': "Lean 4 proof (inductive invariants over a transition system) + trace validation under a deterministic scheduler + fault-injection explorer",
}
TEXTS['C04'] = {
    'text': "Partial proof. Lean: a stage (bounded FIFO executor, k>=1 workers, tasks waiting only for earlier tasks) is never "
            "stuck while work is left (any number of tasks, capacities, workers), every event decreases a measure, permits "
            "return at quiescence; the sliding-window semaphore never loses a wake-up (C12); in the transfer model the final "
            "task's announcement is enabled as soon as its dependencies ended; the CountCallbackInvoker hands the final io task "
            "over exactly once whatever the order of finalize and the decrements; three bounded stages in a row whose tasks block "
            "while the next stage has no permit are never stuck (pipeline_no_deadlock). The combination of same-stage "
            "dependencies with cross-stage blocking, and termination of the whole, are not proved: the explorer runs the real manager under the deterministic scheduler (which knows who "
            "is blocked on what, so deadlock and livelock are detected exactly) over all small limit settings, faults, "
            "cancels and re-entrant subscribers. Defect D3 was found there and repaired.",
    'note': COMMON_NOTE + M2_NOTE + "OS-level starvation and blocking inside real sockets are outside the model.",
    'technique': "Lean 4 proof (stage progress + measure, semaphore invariant) + trace validation + deadlock-detecting scheduler exploration",
}
TEXTS['C05'] = {
    'text': "Lean theorems over every run of the transfer model Xfer: the abort begins only when no request of the upload is in "
            "flight, no request begins after the abort, at most one abort and only for an id the library received, an aborted "
            "upload is never reported as success, a non-successful transfer with a registered id has its abort issued and "
            "returned before the done callbacks run, one request per task and one final (complete) task. The plan facts "
            "(complete is the only final task and waits for create and all parts) are re-read from the source. Tied to the "
            "code by trace validation of every upload/copy run; the explorer judges the same statement directly on the fake "
            "service's per-upload log (faults before/after effect, cancels, all schedules). Partial: the legacy "
            "MultipartUploader is not modelled (D8 observation).",
    'note': COMMON_NOTE + M2_NOTE,
    'technique': "Lean 4 proof (inductive invariants over a transition system) + trace validation + explorer oracle",
}
TEXTS['C06'] = {
    'text': "Lean theorems over every run (hence every prefix = crash point) of the file-system model Fs2 of a download to a path "
            "(write tasks queued by the GET tasks; each tests done(), opens the temporary file, writes; failures and cancels land "
            "anywhere, also between the test and the write; the final task is picked only after all GET tasks ended and all writes "
            "were executed or skipped; cleanups only when no write is queued or running): the destination holds previous-or-complete "
            "content at all times, a failure keeps the previous content, a transfer that had failed when the final task tested "
            "done() is never renamed, a cancel yields previous or (only after the rename) complete, no temporary file after "
            "rename / cleanup and never again after the cleanup, no write ends after the cleanup or the rename, publication only "
            "when nothing is missing. The real manager's runs are replayed on the model label by label (trace validation, "
            "observed from outside); the explorer additionally inspects the real directory at every scheduling point. Partial: the "
            "guards of the model are what the FIFO io executor and the task dependencies establish (C10, Xfer) — they are validated "
            "by the traces, not derived from one combined model; the legacy front end is judged end to end, the process pool is C19.",
    'note': COMMON_NOTE + M2_NOTE + "POSIX rename atomicity is assumed.",
    'technique': "Lean 4 proof (invariant over the Fs2 event model) + trace validation of the real download tasks + explorer with directory inspection at every scheduling point",
}
TEXTS['C07'] = {
    'text': "Lean theorems: a cancel on an unfinished transfer stores the given error and makes it cancelled (Coord), the status "
            "then stays cancelled or becomes success only through the final step (Xfer, all continuations), a transfer "
            "cancelled before it started never issues a request nor runs on_queued and is announced by the canceller, a "
            "finished transfer keeps its result, success under a racing cancel means every request succeeded, a cancelled "
            "multipart upload is aborted before its done callbacks. Partial: the four entry points (message / exception type "
            "passed by shutdown, __exit__, Ctrl-C) are judged by the explorer at every scheduling point; defect D1 was found "
            "there and repaired.",
    'note': COMMON_NOTE + M2_NOTE,
    'technique': "Lean 4 proof (coordinator state machine + transfer transition system) + trace validation + explorer oracle",
}
TEXTS['C08'] = {
    'text': "Lean theorems over every run of the transfer model, including two concurrent announcers (cancel racing the "
            "submission thread): the done callbacks run at most once and never again, and when they run the outcome is final, "
            "the done event is set, no request and no abort is in flight; no request can begin after on_done; on_queued is "
            "never enabled once a request was issued nor for a transfer cancelled before starting. Tied to the code by trace "
            "validation (uploads, copies, deletes). Partial: 'exactly once' needs termination (C04); isolation of a raising "
            "on_done, the suppressed HeadObject and downloads are judged by the explorer.",
    'note': COMMON_NOTE + M2_NOTE,
    'technique': "Lean 4 proof (inductive invariants with lock-protected callback lists) + trace validation + explorer oracle",
}
TEXTS['C10'] = {
    'text': "Lean theorems over every run of a stage (any capacity, worker count, number of submitters): running tasks <= "
            "threads, queued+running <= permits and free+queued+running = permits, a submitter is blocked (not failed, not "
            "overrunning) while no permit is free, tasks start in FIFO order; which configuration value feeds which stage, the "
            "single io thread and the tag semaphores are regenerated from TransferManager.__init__ and checked by decide. "
            "Tied to the code by trace validation of the submit/pick/finish events of all three stages; the explorer measures "
            "in-flight requests and exact per-semaphore occupancy on the real manager.",
    'note': COMMON_NOTE + M2_NOTE,
    'technique': "Lean 4 proof (permit invariant over a transition system) + translator for wiring + trace validation + explorer oracle",
}
TEXTS['C11'] = {
    'text': "Lean theorems: stream-upload buffers <= max_in_memory_upload_chunks + max_submission_concurrency (stage permits "
            "plus one per submission thread), for every tag the sliding window spans at most max_in_memory_download_chunks "
            "tokens (from the C12 capacity equation), pending writes <= max_io_queue_size and each chunk <= io_chunksize. "
            "A stream sent as one PutObject is shorter than multipart_threshold and every part buffer of a stream upload has exactly "
            "the part size except the last, whatever the stream's short-read pattern (after the D16 repair). The explorer observes "
            "buffers through OSUtils and the window through the GET log. Partial: buffer sizes hold for the effective part size: D14 "
            "(the adjusted part size is at least 5 MiB even when threshold and chunksize are configured lower) is a recorded finding.",
    'note': COMMON_NOTE + M2_NOTE + "Memory as the allocator sees it is not observable.",
    'technique': "Lean 4 proof (corollaries of the permit and sliding-window invariants) + trace validation + explorer oracle",
}
TEXTS['C18'] = {
    'text': "Lean theorems: after a stage's join every submitted task has ended and no event of the stage is enabled, join is "
            "not enabled while work is left (however many transfers failed), the three executors are joined in the order "
            "submission, request, io (read from the source); permits are conserved, so after any mix of finished transfers "
            "all semaphores are full (reusable). Partial: isolation is a structural argument (transfers share only permits and "
            "threads) plus the explorer's oracle (a transfer nothing happened to must succeed with the right bytes among "
            "failing/cancelled neighbours; a fresh transfer afterwards succeeds; nothing happens after shutdown returned).",
    'note': COMMON_NOTE + M2_NOTE,
    'technique': "Lean 4 proof (stage with shutdown/join, permit conservation) + trace validation + explorer oracle",
}

TEXTS['C13'] = {
    'text': "Partial proof. Lean theorems in exact rational arithmetic (alpha read from the source), for every positive limit and "
            "every history of consume calls: an unscheduled grant happens only after a positive time and for at most "
            "(1/alpha) x max x dt bytes (the 1.25 allowance); traffic whose every read asks for at most max x (time since the "
            "previous grant) is never refused; the scheduler's total equals the sum of the waits of the tokens currently "
            "scheduled and a refused read is told to wait exactly that sum including its own; a scheduled token is granted on "
            "its next attempt; a stream whose transfer failed raises that error at the next loop test, does not sleep again and "
            "leaves the queue; window bounds: over any stretch of first-attempt grants the bytes are at most (1/alpha) x max x "
            "elapsed time (the statement's 1.25 x max x T, no burst term) — also when refusals and grants to waiting reads are "
            "interleaved in any way (window_first_attempts) — and reads that had to wait are granted no earlier than a "
            "FIFO server of rate max would finish them (so k waiting reads of amt bytes are not all granted before k x amt / max), "
            "assuming each refused stream retries no earlier than told. DISPROVED for the code as it is (finding D17, recorded): the "
            "statement's single bound '1.25 x max x T + burst' for all traffic together — smoothing_allowance_exceeded gives for every "
            "burst allowance a history (one saturated stream, one paced stream) in which 1.4 x max x T bytes are granted; the check "
            "replays the witness on the real LeakyBucket (correspondence corpus) and a stream-level variant on real "
            "BandwidthLimitedStreams (160% of the limit sustained), prints KNOWN-FINDING, and holds the code to the sum of the two "
            "separate bounds in mixed windows and to each separate bound in pure windows. The oracle measures "
            "windowed byte counts, waits and starvation of the real classes for 1-8 streams in virtual time under the "
            "deterministic scheduler (adversarial think times, late wake-ups, abandoned waiters). Defects D4 and D5 (rate "
            "stuck at infinity after two consumptions at one clock reading) were found and repaired; the tracked rate is proved to stay finite.",
    'note': COMMON_NOTE + "Axioms of the Mathlib tactics used (linarith, nlinarith, positivity, field lemmas) stay within propext / "
            "Classical.choice / Quot.sound. The real classes compute in IEEE-754 floats: decisions are compared with the exact "
            "model except within 1e-9 of the limit; real time and OS sleeping are replaced by a virtual clock.",
    'technique': "Lean 4 proof over exact rationals (Mathlib tactics) + differential correspondence + virtual-time simulation oracle",
}

TEXTS['C19'] = {
    'text': "Lean theorems over every number of workers, every number of downloads and jobs and every interleaving of user, "
            "submitter and workers (one step per monitor call, queue operation and file-system operation), with any job "
            "failing, head_object / allocate / rename failing and cancels anywhere: a download is done only when every one of "
            "its jobs has been queued, taken and counted by a worker (or the submitter failed before queuing any); at that "
            "moment the temporary file is gone and, if no exception is recorded, the destination was published by rename with "
            "all jobs' bytes written; a published destination always holds all jobs' bytes (no partial file after a failure); "
            "an exception once recorded stays, so after Ctrl-C (cancel all in progress) every unfinished download carries one "
            "for ever; and whenever shutdown() has returned every submitted download is done (FIFO-queue invariant: jobs "
            "precede shutdown signals, the submitter exits after every request, a worker exits only when no job is left). "
            "Not a theorem: that shutdown eventually returns (absence of deadlock is the scheduler's deadlock detection on every "
            "run). Trace validation: the real TransferMonitor, submitter, workers, "
            "downloader and futures run in-process under the scheduler and every label they produce is replayed on the model.",
    'note': COMMON_NOTE + "Real processes, multiprocessing queues and the manager proxy are replaced by scheduler threads, FIFO queues "
            "and a yielding proxy: a crash of a worker process, pickling, and OS-level queue behaviour are not covered. "
            "posix_fallocate(fd, 0, 0) fails on this platform, so empty objects fail in the submitter (a failure, not a false success).",
    'technique': "Lean 4 proof (25-clause counting invariant + FIFO-queue invariant over all interleavings of the process-pool protocol) + trace validation of the real classes under a deterministic scheduler",
}

TEXTS['C20'] = {
    'text': "Lean theorems over every permit count and every history of submissions (upload, path download, stream download, "
            "delete; request created or construction failed) and completions (success, error/cancel, failing rename) in any "
            "order: free permits + outstanding requests = the semaphore's size (128, read from the source), so a submitter "
            "blocks at zero and never more than 128 requests exist; every finished transfer gave its permit back exactly once "
            "and an outstanding one not yet, on every path; the done callback is [rename/remove], subscribers' on_done, release, "
            "callbacks-complete event, in this order, the event last; a path download ends renamed (success) or with its "
            "temporary file removed (error, cancel, failing rename); shutdown returns only when every transfer's event is set. "
            "Correspondence: the real CRTTransferManager against a stub awscrt, sequentially line by line and under the "
            "deterministic scheduler (blocking submitter, 1-2 completing threads, exit / shutdown(cancel) / exception in the "
            "with-block / Ctrl-C) with more transfers than permits, including the real 128.",
    'note': COMMON_NOTE + "The native CRT client is outside the repository and is replaced by a stub whose contract (on_done exactly "
            "once per created request; finished_future completed before or after it) is an assumption; a subscriber that "
            "raises inside on_done is not one of the property's paths and is not generated.",
    'technique': "Lean 4 proof (invariant over all submit/complete histories) + differential correspondence against a stub awscrt + scheduler runs",
}

NOT_APPLICABLE = []


# additions of the extension session (serial manager, special files, chained submissions, caller's dict, legacy histories)
_EXTRA = {'C17': " Source tie by translation: extract.gen_coordstep executes set_result / set_exception / cancel / set_status_to_queued / set_status_to_running / TransferFuture.set_exception of the working tree symbolically, path by path, and writes them as the Lean function Gen.coordStep; coord_step_from_source proves it equal to the model's step for every state and operation; coord_locking_from_source (all field writes under the state lock, no announce_done under it) and announce_order_from_source are generated facts checked by decide. Threaded runs have a scheduling point inside cancel()'s critical section.", 'C07': " 36 fixed scenarios (Ctrl-C while shutdown() / the with-block exit waits, with work queued behind one request thread) run first in every exploration; the cooperative executor implements shutdown(cancel_futures=True) and Future.cancel(); a transfer whose status is cancelled but whose done event was never set counts as never finishing.", 'C03': " Serial manager (executor_cls=NonThreadedExecutor, boto3's use_threads=False): Lean model S3V.Serial whose except-clause tables are generated from Task.__call__ / NonThreadedExecutor.submit / BoundedExecutor.submit / SubmissionTask._main; for every plan a manager builds and every outcome of every main (success, ordinary exception, KeyboardInterrupt): result() raises exactly the first failure and succeeds only if no main raised (serial_no_false_success, serial_first_failure_reported); correspondence of the model with the real classes on random plans; exhaustive serial sweep (every request / read / write / file-system position failed once with an ordinary exception and once with Ctrl-C). Found D18 (repaired).", 'C04': " CountCallbackInvoker.increment / decrement / finalize are translated path by path from utils.py into Lean functions (Gen.cci*) and proved equal to the model's (cci_from_source), so cci_handoff is about the code; cci_locking_from_source. Serial manager (executor_cls=NonThreadedExecutor, boto3's use_threads=False): Lean model S3V.Serial whose except-clause tables are generated from Task.__call__ / NonThreadedExecutor.submit / BoundedExecutor.submit / SubmissionTask._main; for every plan a manager builds and every outcome of every main (success, ordinary exception, KeyboardInterrupt): done is announced and the call returns (serial_future_done), no permit is left for the next transfer to wait for (serial_no_permit_left); serial sweep with a second transfer on the same manager. Found D19 (repaired).", 'C05': " Serial manager (executor_cls=NonThreadedExecutor, boto3's use_threads=False): Lean model S3V.Serial whose except-clause tables are generated from Task.__call__ / NonThreadedExecutor.submit / BoundedExecutor.submit / SubmissionTask._main; for every plan a manager builds and every outcome of every main (success, ordinary exception, KeyboardInterrupt): no main runs after the first failure — no part, no CompleteMultipartUpload — and the failure cleanups ran (serial_nothing_after_failure); serial sweep.", 'C06': " Serial manager (executor_cls=NonThreadedExecutor, boto3's use_threads=False): Lean model S3V.Serial whose except-clause tables are generated from Task.__call__ / NonThreadedExecutor.submit / BoundedExecutor.submit / SubmissionTask._main; for every plan a manager builds and every outcome of every main (success, ordinary exception, KeyboardInterrupt): the rename of a single-request download runs exactly when the GET's main returned normally (serial_rename_only_after_complete_get); serial sweep watching the destination path. Found D18 (repaired).", 'C12': " Serial manager (executor_cls=NonThreadedExecutor, boto3's use_threads=False): Lean model S3V.Serial whose except-clause tables are generated from Task.__call__ / NonThreadedExecutor.submit / BoundedExecutor.submit / SubmissionTask._main; for every plan a manager builds and every outcome of every main (success, ordinary exception, KeyboardInterrupt): every permit taken has been given back (serial_permits_restored); serial sweep checking all manager semaphores. Found D19 (repaired).", 'C02': ' Serial manager: serial_success_means_every_step_ok (Lean) and the exhaustive serial sweep (also retried stream faults, destinations that cannot seek incl. special files given by name); several downloads through one legacy S3Transfer object compared with downloads on objects of their own.', 'C08': ' Serial manager sweep (every fault position, Ctrl-C included) and subscribers whose on_done submits the next transfer; in a hung run every subscriber whose on_done never ran is reported.', 'C09': ' Serial manager sweep incl. destination faults that are TimeoutError / ConnectionError subclasses (must not be retried as stream errors).', 'C16': " End to end: explorer and serial sweep with the judge 'what was written to a destination that cannot seek is at every instant a prefix of the object' (streams and special files, objects smaller and larger than io_chunksize, retried faults).", 'C15': " caller_dict_oracle: one extra_args dict object reused from call to call under both checksum configurations — each transfer's requests equal those of a private-copy run and the library leaves the caller's dict unchanged.", 'C18': ' Legacy front-end: several downloads through one S3Transfer object, some failing locally or on the stream, each compared with the same download on an object of its own.', 'C14': ' The float computation the code performs (int(math.ceil(size / float(part_size)))) is modelled exactly (S3V.Model.Float53: binary64 quotient, round to nearest even, as a rational) and proved equal to the exact ceiling for every size below 2^53 (float_ceil_exact; float_quotient_error; tight: float_ceil_inexact_beyond); the model quotient is compared with CPython bit for bit. The upload correspondence (part bodies of the three input managers vs the model) and the end-to-end upload oracle also run under this property: EntityTooSmall is enforced by the fake service at real scale (threshold above the effective part size and not a multiple of it included).', 'C11': ' Part buffers are also counted by reachability (weak references) at every buffer creation in every run, failed and cancelled ones included: reachable and unclosed buffers <= max_in_memory_upload_chunks + max_submission_concurrency + max_request_concurrency.'}
for _p, _x in _EXTRA.items():
    TEXTS[_p]['text'] = TEXTS[_p]['text'] + _x

_EXTRA2 = {
    'C04': " A share of the threaded scenarios raises a BaseException that is not an Exception inside a task; a targeted oracle raises one in the submission thread while parts are in flight (found D20: the transfer was never announced; repaired).",
    'C08': " Targeted oracle: a non-Exception BaseException in the submission thread while parts are in flight — every on_done must still run (found D20, repaired).",
    'C05': " Scenarios in which the caller flags finished transfers as failed (TransferFuture.set_exception after done) before shutdown: a completed upload must not be aborted; Lean: cleanups_only_by_announce (no coordinator operation other than announce_done runs a failure cleanup).",
    'C10': " Component oracle for TaskSemaphore under the scheduler: at most `count` holders at any instant whoever is woken or barges in, nobody blocked for ever, exactly `count` non-blocking acquires succeed afterwards.",
    'C13': " A preempting stall of the scheduler (virtual time passes while one thread is held at its lock acquisition) with streams taking turns below the limit: no read may be throttled (150 such simulations per quick run).",
    'C18': " The barrier focus builds the critical situation directly: a multipart copy or upload with parts in flight next to a transfer that fails or is cancelled first, then shutdown / with-exit.",
}
for _p, _x in _EXTRA2.items():
    TEXTS[_p]['text'] = TEXTS[_p]['text'] + _x

TEXTS['C13']['text'] = TEXTS['C13']['text'] + (" For runs of the bucket model itself under the stream discipline (Disc: clock readings do not go back, a refused stream "
    "asks again for the same amount no earlier than it was told) the bytes granted to reads that waited are at most max x T (waited_bytes_le: an "
    "invariant carrying the virtual finish times of a FIFO server as ghost state) and all bytes at most (1/alpha + 1) x max x T (total_bytes_le) "
    "— the guarantee the code does give in place of the statement's single 1.25 bound.")

TEXTS['C04']['text'] = TEXTS['C04']['text'] + (" failed_submission_is_announced: the failure path of SubmissionTask._main (record, wait for the submitted futures, "
    "announce; the waiting loop's except clauses and the order are generated from the source) reaches announce_done whatever exceptions the awaited futures carry.")
