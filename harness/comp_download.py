"""Download component (C02, C09 download part, C03 retry bounds): the retry loop of
download.GetObjectTask / ImmediatelyWriteIOGetObjectTask against S3V.Model.Download, and the
direct C02 oracle end to end (transfer manager to path / seekable / non-seekable destinations,
legacy S3Transfer.download_file), under retryable stream faults and short reads."""
import io
import os
import shutil
import tempfile

from common import CorrResult, compare_with_model, rng_for
from fakes3 import FakeS3, InjectedFault, retryable_error
from oracle import OracleResult


class ScriptBody:
    def __init__(self, data, script, ending, tag):
        self.data, self.pos, self.script, self.ending, self.tag = data, 0, list(script), ending, tag

    def read(self, amt=None):
        rem = len(self.data) - self.pos
        if self.script:
            n = min(self.script.pop(0), rem if amt is None else min(amt, rem))
        else:
            if self.ending == 'r':
                raise retryable_error(['incomplete', 'timeout', 'conn'][self.tag % 3], self.tag)
            if self.ending == 'f':
                raise InjectedFault('fatal-%s' % self.tag)
            n = rem if amt is None else min(amt, rem)
        out = self.data[self.pos:self.pos + n]
        self.pos += n
        return out


class StubClient:
    def __init__(self, obj, start, length, attempts, log):
        self.obj, self.start, self.length, self.attempts, self.log = obj, start, length, list(attempts), log
        self.n = 0

    def get_object(self, **kw):
        self.log.append('GET')
        att = self.attempts.pop(0) if self.attempts else ([], 'e')
        script, ending = att[0], att[1]
        self.n += 1
        if len(att) > 2 and att[2] and not script:
            # the fault comes from the GetObject call itself, not from the first read of its body
            # (for the model both are "an attempt that delivered nothing")
            if ending == 'r':
                raise retryable_error(['incomplete', 'timeout', 'conn'][self.n % 3], self.n)
            if ending == 'f':
                raise InjectedFault('fatal-%s' % self.n)
        return {'Body': ScriptBody(self.obj[self.start:self.start + self.length], script, ending, self.n)}


class StubOutputManager:
    def __init__(self, log):
        self.log = log

    def queue_file_io_task(self, fileobj, data, offset):
        self.log.append('w%d+%d' % (offset, len(data)))


class Collector:
    def __init__(self, log):
        self.log, self.pos = log, 0

    def seek(self, where, whence=0):
        self.pos = where

    def write(self, data):
        self.log.append('w%d+%d' % (self.pos, len(data)))
        self.pos += len(data)


def gen_attempts(rng, length, max_attempts, io):
    atts = []
    n = rng.randrange(1, max_attempts + 2)
    for i in range(n):
        k = rng.randrange(0, 5)
        script, total = [], 0
        for _ in range(k):
            # a scripted read returns at least one byte and never reads past the body: the fault
            # (or EOF) comes after `sum(script)` <= length bytes
            sz = min(rng.randrange(1, io + 3), io, length - total)
            if sz <= 0:
                break
            script.append(sz)
            total += sz
        last = i == n - 1
        ending = 'e' if last and rng.random() < 0.75 else rng.choice(['r', 'r', 'r', 'f', 'e'])
        atts.append((script, ending, (not script) and ending in ('r', 'f') and rng.random() < 0.6))
        if ending in ('e', 'f'):
            break
    return atts


def run_real(task_cls_name, io_chunk, start, length, max_attempts, attempts):
    from s3transfer.download import (DownloadSeekableOutputManager, GetObjectTask,
                                     ImmediatelyWriteIOGetObjectTask)
    from s3transfer.exceptions import RetriesExceededError
    from s3transfer.futures import TransferCoordinator
    from s3transfer.utils import OSUtils
    log = []
    obj = bytes(i % 251 for i in range(start + length + 3))
    client = StubClient(obj, start, length, attempts, log)
    coord = TransferCoordinator()
    if task_cls_name == 'queue':
        cls, mgr, fileobj = GetObjectTask, StubOutputManager(log), None
    else:
        cls = ImmediatelyWriteIOGetObjectTask
        mgr = DownloadSeekableOutputManager(OSUtils(), coord, None)
        fileobj = Collector(log)
    task = cls(coord, main_kwargs={})
    try:
        task._main(client=client, bucket='b', key='k', fileobj=fileobj, extra_args={},
                   callbacks=[lambda bytes_transferred: log.append('p%d' % bytes_transferred)],
                   max_attempts=max_attempts, download_output_manager=mgr, io_chunksize=io_chunk,
                   start_index=start)
        outcome = 'ok'
    except RetriesExceededError:
        outcome = 'retries-exceeded'
    except InjectedFault:
        outcome = 'fatal'
    return ' '.join(log) + ' => ' + outcome


def corr(seed, tier):
    res = CorrResult('download')
    rng = rng_for(seed, 'download')
    cases = []
    for i in range(600 if tier == 'quick' else 10000):
        io_chunk = rng.randrange(1, 6)
        start = rng.choice([0, 0, 3, 8])
        length = rng.choice([0, 1, 2, 5, 7, rng.randrange(0, 14)])
        mx = rng.randrange(1, 5)
        atts = gen_attempts(rng, length, mx, io_chunk)
        kind = 'queue' if i % 2 == 0 else 'immediate'
        impl = run_real(kind, io_chunk, start, length, mx, atts)
        enc = ';'.join('%s:%s' % (','.join(map(str, a[0])) or '-', a[1]) for a in atts)
        # the model needs exactly the attempts consumed; pad with EOF attempts like the stub client does
        enc_full = enc + ''.join(';-:e' for _ in range(mx))
        line = 'dl get %d %d %d %d %s' % (io_chunk, start, length, mx, enc_full)
        nontriv = any(a[1] == 'r' for a in atts) and length > 0
        res.note_case((kind, io_chunk, start, length, mx, enc), nontriv,
                      {'task': kind, 'io_chunksize': io_chunk, 'start': start, 'len': length,
                       'max_attempts': mx, 'attempts': enc})
        res.hit('outcome:' + impl.split('=> ')[1])
        cases.append(({'task': kind, 'io_chunksize': io_chunk, 'start': start, 'len': length,
                       'max_attempts': mx, 'attempts': enc,
                       'fault_raised_by_the_call': [bool(a[2]) for a in atts]}, [(line, impl)]))
    compare_with_model(res, cases)
    return res


# ---------------------------------------------------------------------------
class NonSeekableDest:
    def __init__(self):
        self.buf = []

    def write(self, data):
        self.buf.append(bytes(data))

    def value(self):
        return b''.join(self.buf)


def plan_faults(rng, size, ranges, attempts_budget, io_chunk):
    """per range start: list of per-attempt scripts for FakeBody (sizes, then optional fault);
    fewer than `attempts_budget` retryable faults per range, so the download must succeed"""
    plan = {}
    for (start, length) in ranges:
        nf = rng.choice([0, 0, 1, 1, 2, attempts_budget - 1])
        nf = max(0, min(nf, attempts_budget - 1))
        scripts = []
        for a in range(nf):
            after = rng.randrange(0, length + 1)
            sizes = []
            pos = 0
            while pos < after:
                s = rng.randrange(1, io_chunk + 2)
                s = min(s, after - pos)
                sizes.append(s)
                pos += s
            kind = rng.choice(['incomplete', 'timeout', 'conn'])
            scripts.append(sizes + [('fault', (lambda k=kind, t=(start, a): retryable_error(k, t)))])
        # final attempt: short reads then natural EOF
        scripts.append([rng.randrange(1, io_chunk + 2) for _ in range(rng.randrange(0, 4))])
        plan[start] = scripts
    return plan


def script_fn_for(plan):
    state = {k: list(v) for k, v in plan.items()}

    def fn(kw, start):
        lst = state.get(start)
        if lst:
            return list(lst.pop(0))
        return None
    return fn


def ranges_of(size, thr, chunk):
    if size < thr:
        return [(0, size)]
    out, s = [], 0
    while s < size:
        out.append((s, min(chunk, size - s)))
        s += chunk
    return out


def e2e_case(rng, front, dest_kind, tmpdir):
    """One end-to-end download with retryable faults within budget. Returns (ok, witness, what)."""
    size = rng.choice([0, 1, 5, 9, 16, 17, rng.randrange(0, 40)])
    thr = rng.choice([1, 6, 8, 50])
    chunk = rng.choice([3, 5, 8])
    io_chunk = rng.choice([1, 2, 4, 8])
    attempts = rng.choice([2, 3, 5])
    data = bytes((i * 11 + 7) % 256 for i in range(size))
    fake = FakeS3()
    fake.objects[('b', 'k')] = data
    rngs = ranges_of(size, thr, chunk)
    plan = plan_faults(rng, size, rngs, attempts, io_chunk if front == 'manager' else 16 * 1024)
    fake.get_script_fn = script_fn_for(plan)
    wit = {'front_end': front, 'dest': dest_kind, 'size': size, 'threshold': thr, 'chunksize': chunk,
           'io_chunksize': io_chunk, 'num_download_attempts': attempts,
           'fault_plan': {str(k): [[x if not isinstance(x, tuple) else 'retryable-fault' for x in s] for s in v]
                          for k, v in plan.items()}}
    err = None
    got = None
    if front == 'manager':
        from s3transfer.futures import NonThreadedExecutor
        from s3transfer.manager import TransferConfig, TransferManager
        cfg = TransferConfig(multipart_threshold=thr, multipart_chunksize=chunk, io_chunksize=io_chunk,
                             num_download_attempts=attempts)
        tm = TransferManager(fake, cfg, executor_cls=NonThreadedExecutor)
        if dest_kind == 'path':
            path = os.path.join(tmpdir, 'dst-%d' % rng.randrange(1 << 30))
            dest = path
        elif dest_kind == 'seekable':
            dest = io.BytesIO()
        else:
            dest = NonSeekableDest()
        try:
            tm.download('b', 'k', dest).result()
        except Exception as e:   # noqa
            err = e
        tm.shutdown()
        if err is None:
            if dest_kind == 'path':
                with open(dest, 'rb') as f:
                    got = f.read()
                os.unlink(dest)
            elif dest_kind == 'seekable':
                got = dest.getvalue()
            else:
                got = dest.value()
    elif front == 'legacy':
        from s3transfer import S3Transfer, TransferConfig
        cfg = TransferConfig(multipart_threshold=thr, multipart_chunksize=chunk, num_download_attempts=attempts,
                             max_concurrency=rng.choice([1, 2]))
        path = os.path.join(tmpdir, 'ldst-%d' % rng.randrange(1 << 30))
        try:
            S3Transfer(fake, cfg).download_file('b', 'k', path)
            with open(path, 'rb') as f:
                got = f.read()
            os.unlink(path)
        except Exception as e:   # noqa
            err = e
    gets = {}
    for r in fake.requests('get_object'):
        key = r['args'].get('Range', 'whole')
        gets[key] = gets.get(key, 0) + 1
    wit['gets_per_range'] = gets
    if err is not None:
        return False, wit, 'download failed (%r) although every range had fewer than %d retryable faults' % (err, attempts), 'failed-within-budget'
    if got != data:
        first = next((i for i in range(min(len(got), len(data))) if got[i] != data[i]), min(len(got), len(data)))
        wit['got_len'] = len(got)
        return False, wit, 'success reported but destination has %d bytes (object %d), first difference at %d' % (len(got), len(data), first), 'bytes-differ'
    if any(n > attempts for n in gets.values()):
        return False, wit, 'more than num_download_attempts GETs for a range: %r' % gets, 'too-many-gets'
    return True, wit, '', ''


def oracle(seed, tier):
    res = OracleResult('C02')
    rng = rng_for(seed, 'download-oracle')
    tmpdir = tempfile.mkdtemp(prefix='s3v-dl-')
    try:
        combos = [('manager', 'path'), ('manager', 'seekable'), ('manager', 'nonseekable'), ('legacy', 'path')]
        n = 60 if tier == 'quick' else 1200
        for front, dest in combos:
            for i in range(n):
                ok, wit, what, sig = e2e_case(rng, front, dest, tmpdir)
                res.evaluations += 1
                if res.enough():
                    break
                res.hit('%s/%s' % (front, dest))
                faults = sum(1 for v in wit['fault_plan'].values() for s in v if 'retryable-fault' in s)
                if faults:
                    res.nontrivial.add((front, dest, i))
                if not ok:
                    ranged = wit['size'] >= wit['threshold']
                    res.violation('%s:%s:%s:%s' % (sig, front, dest, 'ranged' if ranged else 'single'), wit,
                                  '%s download to %s: %s' % (front, dest, what))
        res.samples.append(wit)
    finally:
        shutil.rmtree(tmpdir, ignore_errors=True)
    return res


def legacy_history_oracle(seed, tier):
    """Isolation for the legacy front-end: several downloads through ONE `S3Transfer` object, some of
    them failing on the local side (the destination directory does not exist: the io thread's open()
    fails while the part threads go on) or on the stream (a fatal body fault); every download must end
    exactly as the same download does on an S3Transfer object of its own."""
    import threading
    from s3transfer import S3Transfer, TransferConfig
    res = OracleResult('C18')
    rng = rng_for(seed, 'legacy-history')
    tmpdir = tempfile.mkdtemp(prefix='s3v-lh-')

    def one(s3t, fake, key, path):
        box = {}

        def work():
            try:
                s3t.download_file('b', key, path)
                with open(path, 'rb') as f:
                    box['out'] = ('ok', f.read())
            except BaseException as e:   # noqa
                box['out'] = ('raise', type(e).__name__)
        th = threading.Thread(target=work, daemon=True)
        th.start()
        th.join(8)
        if th.is_alive():
            return ('hang', None)
        return box['out']
    try:
        for it in range(12 if tier == 'quick' else 300):
            thr, chunk = rng.choice([(4, 3), (6, 4), (50, 8)]), None
            thr, chunk = thr
            cfg = dict(multipart_threshold=thr, multipart_chunksize=chunk, num_download_attempts=2, max_concurrency=rng.choice([1, 2]),
                       max_io_queue=100)      # (a queue that fills while the io thread is dead blocks the part threads of the
                                              #  legacy downloader for good: outside the properties, which speak of the manager there)
            steps = []
            for k in range(rng.randrange(2, 5)):
                size = rng.choice([3, 8, 11, 13])
                steps.append({'key': 'k%d' % k, 'size': size, 'fails': rng.choice(['no', 'no', 'missing-directory', 'fatal-body'])})
            steps[-1]['fails'] = 'no'
            objs = {st['key']: bytes((i * 7 + 31 * n + 1) % 256 for i in range(st['size'])) for n, st in enumerate(steps)}

            def mkfake():
                f = FakeS3()
                for key, data in objs.items():
                    f.objects[('b', key)] = data

                def script(kw, start):
                    st = next(x for x in steps if x['key'] == kw['Key'])
                    if st['fails'] == 'fatal-body':
                        return [1, ('fault', lambda: InjectedFault('body'))]
                    return None
                f.get_script_fn = script
                return f
            shared_fake = mkfake()
            shared = S3Transfer(shared_fake, TransferConfig(**cfg))
            hist = []
            for n, st in enumerate(steps):
                d = os.path.join(tmpdir, 'it%d-%d' % (it, n))
                if st['fails'] != 'missing-directory':
                    os.makedirs(d, exist_ok=True)
                got = one(shared, shared_fake, st['key'], os.path.join(d, 'shared'))
                want = one(S3Transfer(mkfake(), TransferConfig(**cfg)), None, st['key'], os.path.join(d, 'alone'))
                hist.append(dict(st))
                res.evaluations += 1
                res.hit('legacy:%s:%s' % (st['fails'], 'ranged' if st['size'] >= thr else 'single'))
                wit = {'config': cfg, 'downloads_through_one_S3Transfer': list(hist)}
                if want[0] == 'hang':
                    break          # the download hangs on its own as well: nothing to compare
                if got[0] == 'hang':
                    res.violation('legacy-history:hangs', wit, 'download %d through the shared S3Transfer object does not return' % n)
                    break
                if got != want:
                    res.violation('legacy-history:outcome-depends-on-earlier-transfers', wit,
                                  'download %d of %r: %s through the shared object, %s on an object of its own'
                                  % (n, st['key'], _short(got), _short(want)))
                if want[0] == 'ok' and want[1] != objs[st['key']]:
                    res.violation('legacy-history:bytes-differ', wit, 'download %d alone: wrong bytes' % n)
                if n and any(h['fails'] != 'no' for h in hist[:-1]):
                    res.nontrivial.add((it, n))
            if res.enough():
                break
        res.samples.append({'config': cfg, 'downloads_through_one_S3Transfer': hist})
    finally:
        shutil.rmtree(tmpdir, ignore_errors=True)
    return res


def legacy_overlap_oracle(seed, tier):
    """Two `download_file` calls of ONE legacy S3Transfer object for the same destination overlap: A has written
    every byte to its temporary file and is about to close and rename it when B opens its own temporary file; then
    A finishes, then B fails (or finishes).  At every observation the destination holds its previous content or a
    complete object, a success means the complete object, and no temporary file is left."""
    import threading
    from s3transfer import S3Transfer, TransferConfig
    res = OracleResult('C06')
    rng = rng_for(seed, 'legacy-overlap')
    tmpdir = tempfile.mkdtemp(prefix='s3v-lo-')
    try:
        for it in range(6 if tier == 'quick' else 100):
            size = rng.choice([5, 100, 20000])
            obj = {'a': bytes((i * 7 + 1) % 256 for i in range(size)), 'b': bytes((i * 11 + 3) % 256 for i in range(size))}
            b_ends = rng.choice(['fails', 'fails', 'completes'])
            ev = {n: threading.Event() for n in ('a_eof', 'a_go', 'b_open', 'b_go')}

            class Body:
                def __init__(self, key):
                    self.key, self.data, self.pos = key, obj[key], 0

                def read(self, n=-1):
                    if self.key == 'b' and self.pos == 0:
                        ev['b_open'].set()           # B's temporary file is open now
                        ev['b_go'].wait(10)
                        if b_ends == 'fails':
                            raise InjectedFault('body-b')
                    if self.pos >= len(self.data):
                        if self.key == 'a':
                            ev['a_eof'].set()        # A has written everything, not yet closed / renamed
                            ev['a_go'].wait(10)
                        return b''
                    n = len(self.data) - self.pos if n is None or n < 0 else n
                    chunk = self.data[self.pos:self.pos + n]
                    self.pos += len(chunk)
                    return chunk

            class Client:
                meta = FakeS3().meta

                def head_object(self, **kw):
                    return {'ContentLength': size}

                def get_object(self, **kw):
                    return {'Body': Body(kw['Key']), 'ContentLength': size}
            d = os.path.join(tmpdir, 'it%d' % it)
            os.makedirs(d)
            dest = os.path.join(d, 'dest')
            previous = b'previous-content'
            with open(dest, 'wb') as f:
                f.write(previous)
            s3t = S3Transfer(Client(), TransferConfig(multipart_threshold=10 ** 9, num_download_attempts=1))
            outcome = {}

            def run(key):
                try:
                    s3t.download_file('bucket', key, dest)
                    outcome[key] = 'ok'
                except BaseException as e:   # noqa
                    outcome[key] = type(e).__name__
            ta = threading.Thread(target=run, args=('a',), daemon=True)
            tb = threading.Thread(target=run, args=('b',), daemon=True)
            ta.start()
            ok = ev['a_eof'].wait(10)
            tb.start()
            ok = ev['b_open'].wait(10) and ok
            ev['a_go'].set()
            ta.join(10)

            def content():
                try:
                    with open(dest, 'rb') as f:
                        return f.read()
                except OSError:
                    return None
            after_a = content()
            ev['b_go'].set()
            tb.join(10)
            after_b = content()
            left = sorted(n for n in os.listdir(d) if n != 'dest')
            res.evaluations += 1
            res.hit('legacy-overlap:b-%s' % b_ends)
            res.nontrivial.add((size, b_ends, it))
            wit = {'front_end': 'legacy S3Transfer.download_file, two overlapping calls on one object, same destination',
                   'object_bytes': size, 'second_download': b_ends, 'outcomes': dict(outcome)}
            if not ok or ta.is_alive() or tb.is_alive():
                res.violation('legacy-overlap:hangs', wit, 'the overlapping downloads did not finish')
                continue
            allowed = {previous, obj['a'], obj['b']}
            if outcome.get('a') == 'ok' and after_a not in (obj['a'], obj['b']):
                res.violation('legacy-overlap:partial-content-after-success', dict(wit, destination_bytes=None if after_a is None else len(after_a)),
                              'download A returned successfully and the destination holds %s bytes that are no complete object'
                              % (None if after_a is None else len(after_a)))
            elif after_a not in allowed or after_b not in allowed:
                res.violation('legacy-overlap:partial-content', wit, 'the destination held neither its previous content nor a complete object')
            if left:
                res.violation('legacy-overlap:temp-left', dict(wit, files=left), 'temporary files left: %r' % left)
            if res.enough():
                break
        res.samples.append(wit)
    finally:
        shutil.rmtree(tmpdir, ignore_errors=True)
    return res


def legacy_history_oracle_c02(seed, tier):
    r = legacy_history_oracle(seed, tier)
    r.prop = 'C02'
    return r


def _short(o):
    return '%s %s' % (o[0], ('%d bytes %r' % (len(o[1]), o[1][:12])) if isinstance(o[1], bytes) else o[1])


def progress_oracle(seed, tier):
    """C09 judged directly on one GetObject task: whatever mix of faults (raised by the call or by
    the body, after any number of bytes), the running progress sum stays within [0, length] and a
    successful task reported exactly `length` bytes."""
    res = OracleResult('C09')
    rng = rng_for(seed, 'download-progress')
    for i in range(1500 if tier == 'quick' else 30000):
        io_chunk = rng.randrange(1, 6)
        start = rng.choice([0, 0, 3, 8])
        length = rng.choice([1, 2, 5, 7, rng.randrange(1, 14)])
        mx = rng.randrange(2, 6)
        atts = gen_attempts(rng, length, mx, io_chunk)
        kind = 'queue' if i % 2 == 0 else 'immediate'
        impl = run_real(kind, io_chunk, start, length, mx, atts)
        res.evaluations += 1
        if res.enough():
            break
        log, outcome = impl.split(' => ')
        amounts = [int(x[1:]) for x in log.split() if x.startswith('p')]
        wit = {'task': kind, 'io_chunksize': io_chunk, 'range_start': start, 'range_len': length, 'max_attempts': mx,
               'attempts': [{'reads': a[0], 'ends_with': {'r': 'retryable fault', 'f': 'fatal fault', 'e': 'eof'}[a[1]],
                             'raised_by_get_object_call': bool(a[2])} for a in atts], 'progress_amounts': amounts}
        res.nontrivial.add((kind, tuple((len(a[0]), a[1], a[2]) for a in atts)))
        run, bad = 0, None
        for k, a in enumerate(amounts):
            run += a
            if run < 0 or run > length:
                bad = (k, run)
                break
        if bad:
            res.violation('download-progress-out-of-range', wit,
                          'running progress sum %d after callback %d, range has %d bytes' % (bad[1], bad[0], length))
        elif outcome == 'ok' and sum(amounts) != length:
            res.violation('download-progress-sum', wit, 'successful GetObject task reported %d of %d bytes' % (sum(amounts), length))
    res.samples.append(wit)
    return res
