"""Translator: reads literals, tables and wiring from /repo/s3transfer with `ast` (no import,
so it sees exactly the working tree) and regenerates lean/S3V/Gen/*.lean.  The property
theorems are stated about these generated definitions.

Exit status 2 (ExtractError) when a construct is no longer something this translator can read;
the check then falls back to searching the real code for a failing input."""
import ast
import json
import os
import sys

from common import LEAN_DIR, REPO

GEN_DIR = os.path.join(LEAN_DIR, 'S3V', 'Gen')
PKG = os.path.join(REPO, 's3transfer')


class ExtractError(Exception):
    pass


class Module:
    def __init__(self, name):
        self.name = name
        self.path = os.path.join(PKG, name + '.py')
        try:
            with open(self.path) as f:
                self.tree = ast.parse(f.read())
        except (OSError, SyntaxError) as e:
            raise ExtractError('%s: cannot parse: %s' % (name, e))
        self.env = {}
        self.imports = {}
        for node in self.tree.body:
            if isinstance(node, ast.ImportFrom) and node.module and node.module.startswith('s3transfer'):
                for a in node.names:
                    self.imports[a.asname or a.name] = (node.module.split('.')[-1] if '.' in node.module else '__init__', a.name)

    def cls(self, cname):
        for node in self.tree.body:
            if isinstance(node, ast.ClassDef) and node.name == cname:
                return node
        raise ExtractError('%s: class %s not found' % (self.name, cname))

    def func(self, cname, fname):
        body = self.tree.body if cname is None else self.cls(cname).body
        for node in body:
            if isinstance(node, (ast.FunctionDef,)) and node.name == fname:
                return node
        raise ExtractError('%s: %s.%s not found' % (self.name, cname, fname))

    def assign(self, cname, attr):
        body = self.tree.body if cname is None else self.cls(cname).body
        found = None
        for node in body:
            if isinstance(node, ast.Assign):
                for t in node.targets:
                    if isinstance(t, ast.Name) and t.id == attr:
                        found = node.value
        if found is None:
            raise ExtractError('%s: %s.%s not found' % (self.name, cname, attr))
        return found


_modules = {}


def module(name):
    if name not in _modules:
        _modules[name] = Module(name)
    return _modules[name]


def ev(mod, node, cname=None, depth=0):
    """Evaluate a constant expression: numbers, strings, lists/tuples/dicts of such,
    + * ** - on them, names bound at module or class level (followed through
    `from s3transfer.x import NAME`), attribute `self.NAME`/`cls.NAME`."""
    if depth > 20:
        raise ExtractError('%s: expression too deep' % mod.name)
    if isinstance(node, ast.Constant):
        return node.value
    if isinstance(node, (ast.List, ast.Tuple)):
        return [ev(mod, e, cname, depth + 1) for e in node.elts]
    if isinstance(node, ast.Dict):
        return {ev(mod, k, cname, depth + 1): ev(mod, v, cname, depth + 1)
                for k, v in zip(node.keys, node.values)}
    if isinstance(node, ast.BinOp):
        a = ev(mod, node.left, cname, depth + 1)
        b = ev(mod, node.right, cname, depth + 1)
        if isinstance(node.op, ast.Add):
            return a + b
        if isinstance(node.op, ast.Mult):
            return a * b
        if isinstance(node.op, ast.Pow):
            return a ** b
        if isinstance(node.op, ast.Sub):
            return a - b
        raise ExtractError('%s: unsupported operator %s' % (mod.name, ast.dump(node.op)))
    if isinstance(node, ast.Name):
        if cname is not None:
            try:
                return ev(mod, mod.assign(cname, node.id), cname, depth + 1)
            except ExtractError:
                pass
        try:
            return ev(mod, mod.assign(None, node.id), None, depth + 1)
        except ExtractError:
            if node.id in mod.imports:
                m2, n2 = mod.imports[node.id]
                m2 = module('constants' if m2 == 'constants' else m2)
                return ev(m2, m2.assign(None, n2), None, depth + 1)
            raise
    if isinstance(node, ast.Attribute) and isinstance(node.value, ast.Name) \
            and node.value.id in ('self', 'cls') and cname is not None:
        return ev(mod, mod.assign(cname, node.attr), cname, depth + 1)
    if isinstance(node, ast.Call) and isinstance(node.func, ast.Name) and node.func.id in ('list', 'tuple', 'sorted') \
            and len(node.args) == 1 and not node.keywords:
        v = ev(mod, node.args[0], cname, depth + 1)
        return sorted(v) if node.func.id == 'sorted' else list(v)
    if isinstance(node, ast.Set):
        return [ev(mod, e, cname, depth + 1) for e in node.elts]
    if isinstance(node, ast.Starred):
        raise ExtractError('%s: starred expression in a literal' % mod.name)
    raise ExtractError('%s: cannot read %s as a literal' % (mod.name, ast.dump(node)[:120]))


def const(modname, cname, attr):
    m = module(modname)
    return ev(m, m.assign(cname, attr), cname)


def default_arg(modname, cname, fname, argname):
    f = module(modname).func(cname, fname)
    args = f.args.args
    defaults = f.args.defaults
    off = len(args) - len(defaults)
    for i, a in enumerate(args):
        if a.arg == argname and i >= off:
            return ev(module(modname), defaults[i - off], cname)
    raise ExtractError('%s: %s.%s has no default for %s' % (modname, cname, fname, argname))


def lean_str(s):
    return '"' + s.replace('\\', '\\\\').replace('"', '\\"') + '"'


def lean_strlist(xs):
    if not all(isinstance(x, str) for x in xs):
        raise ExtractError('table is not a list of strings: %r' % (xs,))
    return '[' + ', '.join(lean_str(x) for x in xs) + ']'


HEADER = '-- GENERATED by harness/extract.py from /repo/s3transfer on every run. Do not edit.\n'


def gen_consts():
    out = [HEADER, 'namespace S3V.Gen\n']

    def nat(name, value, src):
        if not isinstance(value, int) or isinstance(value, bool) or value < 0:
            raise ExtractError('%s (%s) is not a natural number: %r' % (name, src, value))
        out.append('/-- %s -/\ndef %s : Nat := %d\n' % (src, name, value))

    nat('maxParts', const('utils', None, 'MAX_PARTS'), 'utils.MAX_PARTS')
    nat('maxSingleUploadSize', const('utils', None, 'MAX_SINGLE_UPLOAD_SIZE'), 'utils.MAX_SINGLE_UPLOAD_SIZE')
    nat('minUploadChunksize', const('utils', None, 'MIN_UPLOAD_CHUNKSIZE'), 'utils.MIN_UPLOAD_CHUNKSIZE')
    nat('adjusterMaxSize', default_arg('utils', 'ChunksizeAdjuster', '__init__', 'max_size'), 'ChunksizeAdjuster default max_size')
    nat('adjusterMinSize', default_arg('utils', 'ChunksizeAdjuster', '__init__', 'min_size'), 'ChunksizeAdjuster default min_size')
    nat('adjusterMaxParts', default_arg('utils', 'ChunksizeAdjuster', '__init__', 'max_parts'), 'ChunksizeAdjuster default max_parts')
    nat('aggThreshold', default_arg('upload', 'AggregatedProgressCallback', '__init__', 'threshold'), 'AggregatedProgressCallback default threshold')
    nat('bwBytesThreshold', default_arg('bandwidth', 'BandwidthLimitedStream', '__init__', 'bytes_threshold'), 'BandwidthLimitedStream default bytes_threshold')
    alpha = default_arg('bandwidth', 'BandwidthRateTracker', '__init__', 'alpha')
    from fractions import Fraction
    fr = Fraction(str(alpha))
    nat('alphaNum', fr.numerator, 'BandwidthRateTracker alpha numerator (decimal literal %r)' % alpha)
    nat('alphaDen', fr.denominator, 'BandwidthRateTracker alpha denominator')
    for a in ['multipart_threshold', 'multipart_chunksize', 'max_request_concurrency',
              'max_submission_concurrency', 'max_request_queue_size', 'max_submission_queue_size',
              'max_io_queue_size', 'io_chunksize', 'num_download_attempts',
              'max_in_memory_upload_chunks', 'max_in_memory_download_chunks']:
        camel = ''.join(w.capitalize() for w in a.split('_'))
        nat('cfg' + camel, default_arg('manager', 'TransferConfig', '__init__', a), 'TransferConfig default ' + a)
    nat('ppMaxAttempts', const('processpool', 'GetObjectWorker', '_MAX_ATTEMPTS'), 'GetObjectWorker._MAX_ATTEMPTS')
    nat('ppIoChunksize', const('processpool', 'GetObjectWorker', '_IO_CHUNKSIZE'), 'GetObjectWorker._IO_CHUNKSIZE')
    nat('crtPermits', crt_semaphore(), 'CRTTransferManager.__init__ threading.Semaphore(n)')
    out.append('end S3V.Gen\n')
    return ''.join(out)


def crt_semaphore():
    f = module('crt').func('CRTTransferManager', '__init__')
    for node in ast.walk(f):
        if isinstance(node, ast.Assign) and any(
                isinstance(t, ast.Attribute) and t.attr == '_semaphore' for t in node.targets):
            call = node.value
            if isinstance(call, ast.Call) and call.args:
                return ev(module('crt'), call.args[0])
    raise ExtractError('crt: CRTTransferManager.__init__ no longer assigns self._semaphore = Semaphore(n)')


def write_if_changed(path, text):
    try:
        with open(path) as f:
            if f.read() == text:
                return False
    except OSError:
        pass
    os.makedirs(os.path.dirname(path), exist_ok=True)
    with open(path, 'w') as f:
        f.write(text)
    return True


TABLES = [
    # (lean name, module, class, attribute)
    ('allowedUpload', 'manager', 'TransferManager', 'ALLOWED_UPLOAD_ARGS'),
    ('allowedDownload', 'manager', 'TransferManager', 'ALLOWED_DOWNLOAD_ARGS'),
    ('allowedCopy', 'manager', 'TransferManager', 'ALLOWED_COPY_ARGS'),
    ('allowedDelete', 'manager', 'TransferManager', 'ALLOWED_DELETE_ARGS'),
    ('fullObjectChecksumArgs', 'constants', None, 'FULL_OBJECT_CHECKSUM_ARGS'),
    ('putObjectBlocklist', 'upload', 'UploadSubmissionTask', 'PUT_OBJECT_BLOCKLIST'),
    ('createMultipartBlocklist', 'upload', 'UploadSubmissionTask', 'CREATE_MULTIPART_BLOCKLIST'),
    ('uploadPartArgs', 'upload', 'UploadSubmissionTask', 'UPLOAD_PART_ARGS'),
    ('completeMultipartArgs', 'upload', 'UploadSubmissionTask', 'COMPLETE_MULTIPART_ARGS'),
    ('copyUploadPartCopyArgs', 'copies', 'CopySubmissionTask', 'UPLOAD_PART_COPY_ARGS'),
    ('copyCreateMultipartBlacklist', 'copies', 'CopySubmissionTask', 'CREATE_MULTIPART_ARGS_BLACKLIST'),
    ('copyCompleteMultipartArgs', 'copies', 'CopySubmissionTask', 'COMPLETE_MULTIPART_ARGS'),
    ('legacyAllowedUpload', '__init__', 'S3Transfer', 'ALLOWED_UPLOAD_ARGS'),
    ('legacyAllowedDownload', '__init__', 'S3Transfer', 'ALLOWED_DOWNLOAD_ARGS'),
    ('legacyUploadPartArgs', '__init__', 'MultipartUploader', 'UPLOAD_PART_ARGS'),
    ('processpoolAllowedDownload', 'constants', None, 'ALLOWED_DOWNLOAD_ARGS'),
]

S3_OPERATIONS = ['HeadObject', 'GetObject', 'PutObject', 'CreateMultipartUpload', 'UploadPart',
                 'UploadPartCopy', 'CompleteMultipartUpload', 'AbortMultipartUpload', 'CopyObject',
                 'DeleteObject']


def gen_argtables():
    out = [HEADER, 'namespace S3V.Gen\n']
    for lean, mod, cls, attr in TABLES:
        v = const(mod, cls, attr)
        if not isinstance(v, list):
            raise ExtractError('%s.%s.%s is not a list' % (mod, cls, attr))
        out.append('/-- %s.%s.%s -/\ndef %s : List String := %s\n'
                   % (mod, cls or '', attr, lean, lean_strlist(v)))
    mp = const('copies', 'CopySubmissionTask', 'EXTRA_ARGS_TO_HEAD_ARGS_MAPPING')
    if not isinstance(mp, dict):
        raise ExtractError('EXTRA_ARGS_TO_HEAD_ARGS_MAPPING is not a dict literal')
    pairs = ', '.join('(%s, %s)' % (lean_str(k), lean_str(v)) for k, v in mp.items())
    out.append('/-- copies.CopySubmissionTask.EXTRA_ARGS_TO_HEAD_ARGS_MAPPING -/\n'
               'def copyHeadMapping : List (String × String) := [%s]\n' % pairs)
    out.append('end S3V.Gen\n')
    return ''.join(out)


def s3_shapes():
    """input-shape member names of the S3 operations used, from the installed botocore model"""
    import botocore
    import gzip
    base = os.path.join(os.path.dirname(botocore.__file__), 'data', 's3', '2006-03-01')
    path = os.path.join(base, 'service-2.json')
    if os.path.exists(path):
        with open(path) as f:
            model = json.load(f)
    elif os.path.exists(path + '.gz'):
        with gzip.open(path + '.gz', 'rt') as f:
            model = json.load(f)
    else:
        raise ExtractError('botocore S3 service model not found under %s' % base)
    shapes = {}
    for op in S3_OPERATIONS:
        inp = model['operations'][op]['input']['shape']
        shapes[op] = sorted(model['shapes'][inp]['members'].keys())
    return shapes, botocore.__version__


def gen_s3shapes():
    shapes, version = s3_shapes()
    out = [HEADER, '-- botocore %s, data/s3/2006-03-01/service-2.json\n' % version, 'namespace S3V.Gen\n']
    for op in S3_OPERATIONS:
        out.append('def shape%s : List String := %s\n' % (op, lean_strlist(shapes[op])))
    out.append('end S3V.Gen\n')
    return ''.join(out)


def _cfg_attr(node):
    """`self._config.<attr>` -> attr ; literal int -> str(int)"""
    if isinstance(node, ast.Attribute) and isinstance(node.value, ast.Attribute) and node.value.attr == '_config':
        return node.attr
    if isinstance(node, ast.Constant) and isinstance(node.value, int):
        return str(node.value)
    raise ExtractError('manager: cannot read executor argument %s' % ast.dump(node)[:100])


def _kw(call, name):
    for k in call.keywords:
        if k.arg == name:
            return k.value
    return None


def gen_wiring():
    m = module('manager')
    init = m.func('TransferManager', '__init__')
    execs = {}
    for node in ast.walk(init):
        if isinstance(node, ast.Assign) and isinstance(node.value, ast.Call) \
                and isinstance(node.value.func, ast.Name) and node.value.func.id == 'BoundedExecutor':
            tgt = node.targets[0]
            if isinstance(tgt, ast.Attribute):
                call = node.value
                info = {'max_size': _cfg_attr(_kw(call, 'max_size')), 'threads': _cfg_attr(_kw(call, 'max_num_threads')), 'tags': []}
                tags = _kw(call, 'tag_semaphores')
                if tags is not None:
                    if not isinstance(tags, ast.Dict):
                        raise ExtractError('manager: tag_semaphores is not a dict literal')
                    for k, v in zip(tags.keys, tags.values):
                        if not (isinstance(k, ast.Name) and isinstance(v, ast.Call) and isinstance(v.func, ast.Name)):
                            raise ExtractError('manager: unreadable tag semaphore entry')
                        info['tags'].append((k.id, v.func.id, _cfg_attr(v.args[0])))
                execs[tgt.attr] = info
    for name in ('_request_executor', '_submission_executor', '_io_executor'):
        if name not in execs:
            raise ExtractError('manager: %s is no longer a BoundedExecutor(...) assignment' % name)
    sh = m.func('TransferManager', '_shutdown')
    order = []
    for node in ast.walk(sh):
        if isinstance(node, ast.Call) and isinstance(node.func, ast.Attribute) and node.func.attr == 'shutdown' \
                and isinstance(node.func.value, ast.Attribute):
            order.append((node.lineno, node.func.value.attr))
    order = [a for _, a in sorted(order)]

    def task_calls(modname, cname):
        """Task constructions inside a submission task: (class name, is_final, pending keys)"""
        res = []
        for node in ast.walk(module(modname).cls(cname)):
            if isinstance(node, ast.Call) and isinstance(node.func, ast.Name) and node.func.id.endswith('Task'):
                fin = _kw(node, 'is_final')
                pend = _kw(node, 'pending_main_kwargs')
                keys = []
                if isinstance(pend, ast.Dict):
                    keys = [k.value for k in pend.keys if isinstance(k, ast.Constant)]
                res.append((node.func.id, bool(fin is not None and isinstance(fin, ast.Constant) and fin.value), sorted(keys)))
        return res
    out = [HEADER, 'namespace S3V.Gen\n']
    for name, lean in (('_request_executor', 'req'), ('_submission_executor', 'sub'), ('_io_executor', 'io')):
        out.append('def %sMaxSize : String := %s\n' % (lean, lean_str(execs[name]['max_size'])))
        out.append('def %sThreads : String := %s\n' % (lean, lean_str(execs[name]['threads'])))
        out.append('def %sTags : List (String × String × String) := [%s]\n' % (
            lean, ', '.join('(%s, %s, %s)' % tuple(lean_str(x) for x in t) for t in execs[name]['tags'])))
    out.append('def shutdownOrder : List String := %s\n' % lean_strlist(order))
    for modname, cname, lean in (('upload', 'UploadSubmissionTask', 'uploadTasks'), ('copies', 'CopySubmissionTask', 'copyTasks'),
                                 ('delete', 'DeleteSubmissionTask', 'deleteTasks'), ('download', 'DownloadSubmissionTask', 'downloadTasks')):
        calls = task_calls(modname, cname)
        out.append('def %s : List (String × Bool × List String) := [%s]\n' % (
            lean, ', '.join('(%s, %s, %s)' % (lean_str(c), 'true' if f else 'false', lean_strlist(k)) for c, f, k in calls)))
    # final flags of the download output managers' final tasks
    dl = module('download')
    finals = []
    for cname in ('DownloadFilenameOutputManager', 'DownloadSeekableOutputManager', 'DownloadNonSeekableOutputManager',
                  'DownloadSpecialFilenameOutputManager'):
        f = dl.func(cname, 'get_final_io_task')
        for node in ast.walk(f):
            if isinstance(node, ast.Call) and isinstance(node.func, ast.Name) and node.func.id.endswith('Task'):
                fin = _kw(node, 'is_final')
                finals.append((cname, node.func.id, bool(fin is not None and getattr(fin, 'value', False))))
    out.append('def downloadFinalTasks : List (String × String × Bool) := [%s]\n' % ', '.join(
        '(%s, %s, %s)' % (lean_str(a), lean_str(b), 'true' if c else 'false') for a, b, c in finals))
    # CompleteDownloadNOOPTask defaults is_final=True
    noop_default = default_arg('download', 'CompleteDownloadNOOPTask', '__init__', 'is_final')
    out.append('def noopTaskFinalDefault : Bool := %s\n' % ('true' if noop_default else 'false'))
    out.append('end S3V.Gen\n')
    return ''.join(out)



def _calls_in(stmts):
    """names of the functions / methods called anywhere in a list of statements"""
    names = set()
    for st in stmts:
        for node in ast.walk(st):
            if isinstance(node, ast.Call):
                f = node.func
                if isinstance(f, ast.Attribute):
                    names.add(f.attr)
                elif isinstance(f, ast.Name):
                    names.add(f.id)
    return names


def _handler_rows(try_node, where, third):
    """(exception class, records the exception on the transfer, re-raises, <third>) per except clause;
    `except (A, B):` counts as two clauses with the same body; the name the exception is bound to does
    not matter; re-raising is a bare `raise` or `raise <bound name>`."""
    rows = []
    for h in try_node.handlers:
        if h.type is None:
            classes = ['BaseException']
        elif isinstance(h.type, ast.Name):
            classes = [h.type.id]
        elif isinstance(h.type, ast.Tuple) and all(isinstance(e, ast.Name) for e in h.type.elts):
            classes = [e.id for e in h.type.elts]
        else:
            raise ExtractError('%s: an except clause with something other than class names' % where)
        for cls in classes:
            if cls not in ('Exception', 'BaseException'):
                raise ExtractError('%s: except %s (only Exception / BaseException are modelled)' % (where, cls))
        calls = _calls_in(h.body)
        reraises = any(isinstance(st, ast.Raise) and (st.exc is None or (isinstance(st.exc, ast.Name) and st.exc.id == h.name))
                       for st in h.body)
        third_names = set(third(try_node)) if callable(third) else set(third)
        for cls in classes:
            rows.append((cls, bool(calls & {'_log_and_set_exception', 'set_exception'}), reraises, bool(calls & third_names)))
    return rows


def _tries_around(func, pred):
    """the `try` statements whose body contains a node satisfying `pred`, innermost first"""
    cands = [t for t in ast.walk(func) if isinstance(t, ast.Try) and any(pred(n) for st in t.body for n in ast.walk(st))]

    def depth(t):
        return sum(1 for u in cands if u is not t and any(n is t for st in u.body for n in ast.walk(st)))
    return sorted(cands, key=depth, reverse=True)


def _is_call_named(names):
    def pred(n):
        if isinstance(n, ast.Call):
            f = n.func
            return (isinstance(f, ast.Attribute) and f.attr in names) or (isinstance(f, ast.Name) and f.id in names)
        return False
    return pred


def _innermost_with_handlers(chain):
    for t in chain:
        if t.handlers:
            return t
    return None


def _try_containing(func, call_name, where):
    chain = _tries_around(func, _is_call_named({call_name}))
    return _innermost_with_handlers(chain)


def gen_handlers():
    """How exceptions travel through a manager whose tasks run in the caller's thread: the except
    clauses of Task.__call__, NonThreadedExecutor.submit, BoundedExecutor.submit and SubmissionTask._main."""
    def rows(xs):
        return '[%s]' % ', '.join('(%s, %s, %s, %s)' % (lean_str(c), 'true' if a else 'false', 'true' if b else 'false',
                                                         'true' if d else 'false') for c, a, b, d in xs)
    out = [HEADER, 'namespace S3V.Gen\n']
    # Task.__call__
    call = module('tasks').func('Task', '__call__')
    chain = _tries_around(call, _is_call_named({'_execute_main'}))
    t = _innermost_with_handlers(chain)
    if t is None:
        raise ExtractError('tasks.Task.__call__: no try statement with except clauses around _execute_main')
    out.append('/-- `Task.__call__`: (class, records, re-raises, -) -/\n')
    out.append('def taskHandlers : List (String × Bool × Bool × Bool) := %s\n' % rows(_handler_rows(t, 'tasks.Task.__call__', set())))
    # the finally blocks of that try and of the ones around it (`try/except/finally` = `try: (try/except) finally:`)
    final = [st for tr in chain for st in tr.finalbody]
    runs_cbs = any(isinstance(n, ast.For) and isinstance(n.iter, ast.Attribute) and n.iter.attr == '_done_callbacks'
                   for st in final for n in ast.walk(st))
    announces = any(isinstance(n, ast.If) and isinstance(n.test, ast.Attribute) and n.test.attr == '_is_final'
                    and 'announce_done' in _calls_in(n.body) for st in final for n in ast.walk(st))
    skips = any(isinstance(n, ast.If) and isinstance(n.test, ast.UnaryOp) and isinstance(n.test.op, ast.Not)
                and 'done' in _calls_in([ast.Expr(n.test.operand)]) and '_execute_main' in _calls_in(n.body)
                for st in t.body for n in ast.walk(st))
    out.append('def taskFinallyRunsDoneCallbacks : Bool := %s\n' % ('true' if runs_cbs else 'false'))
    out.append('def taskFinallyAnnouncesIfFinal : Bool := %s\n' % ('true' if announces else 'false'))
    out.append('def taskSkipsMainWhenDone : Bool := %s\n' % ('true' if skips else 'false'))
    # NonThreadedExecutor.submit
    sub = module('futures').func('NonThreadedExecutor', 'submit')
    t = _try_containing(sub, 'fn', 'futures.NonThreadedExecutor.submit')
    out.append('/-- `NonThreadedExecutor.submit`: (class, -, re-raises, stores it on the returned future) -/\n')
    out.append('def serialExecutorHandlers : List (String × Bool × Bool × Bool) := %s\n' % rows(
        _handler_rows(t, 'futures.NonThreadedExecutor.submit', {'set_exception_info', 'set_exception'}) if t is not None else []))
    # BoundedExecutor.submit
    bsub = module('futures').func('BoundedExecutor', 'submit')
    release_names = {'release'}
    for node in ast.walk(bsub):
        if isinstance(node, ast.Assign) and isinstance(node.value, ast.Call) and isinstance(node.value.func, ast.Name) \
                and node.value.func.id == 'FunctionContainer' and node.value.args \
                and isinstance(node.value.args[0], ast.Attribute) and node.value.args[0].attr == 'release':
            for tg in node.targets:
                if isinstance(tg, ast.Name):
                    release_names.add(tg.id)
    chain = _tries_around(bsub, lambda n: isinstance(n, ast.Attribute) and n.attr == '_executor')
    t = _innermost_with_handlers(chain)
    out.append('/-- `BoundedExecutor.submit` around the underlying submit: (class, -, re-raises, gives the permit back) -/\n')
    out.append('def boundedSubmitHandlers : List (String × Bool × Bool × Bool) := %s\n' % rows(
        _handler_rows(t, 'futures.BoundedExecutor.submit', release_names) if t is not None else []))
    # SubmissionTask._main
    main = module('tasks').func('SubmissionTask', '_main')
    t = _try_containing(main, '_submit', 'tasks.SubmissionTask._main')
    if t is None:
        raise ExtractError('tasks.SubmissionTask._main: no try statement around _submit')
    t_sub = t
    out.append('/-- `SubmissionTask._main`: (class, records, re-raises, waits for the submitted tasks and announces done) -/\n')
    srows = []
    for (c, a, b, _), h in zip(_handler_rows(t, 'tasks.SubmissionTask._main', set()), t.handlers):
        calls = _calls_in(h.body)
        srows.append((c, a, b, 'announce_done' in calls and '_wait_for_all_submitted_futures_to_complete' in calls))
    out.append('def submissionHandlers : List (String × Bool × Bool × Bool) := %s\n' % rows(srows))
    # Task._wait_until_all_complete: which exceptions of the awaited futures the waiting loop ignores
    wl = module('tasks').cls('Task')
    chain = [tr for tr in ast.walk(wl) if isinstance(tr, ast.Try) and tr.handlers
             and any(isinstance(n, ast.Call) and isinstance(n.func, ast.Attribute) and n.func.attr == 'result'
                     and isinstance(n.func.value, ast.Name) and n.func.value.id == 'future' and not n.args
                     for st in tr.body for n in ast.walk(st))]
    wrows = _handler_rows(chain[0], 'tasks.Task: the loop waiting for other tasks', set()) if chain else []
    out.append('/-- the loop in `Task` that waits for other tasks (`future.result()`): (class, -, re-raises, -) -/\n')
    out.append('def waitLoopHandlers : List (String × Bool × Bool × Bool) := %s\n' % rows(wrows))
    # the failure path of SubmissionTask._main: record, wait for the submitted futures, announce — in that order
    order = []
    for h in t_sub.handlers:
        for st in h.body:
            for n in ast.walk(st):
                if isinstance(n, ast.Call) and isinstance(n.func, ast.Attribute) and n.func.attr in (
                        '_log_and_set_exception', '_wait_for_all_submitted_futures_to_complete', 'announce_done'):
                    order.append((n.lineno, n.col_offset, n.func.attr))
    out.append('def submissionFailurePath : List String := %s\n' % lean_strlist([a for _, _, a in sorted(order)]))
    out.append('end S3V.Gen\n')
    return ''.join(out)


# ---------------------------------------------------------------------------------------------
# Control flow, translated: the coordinator's status machine (futures.py) and CountCallbackInvoker (utils.py)

STATUS = {'not-started': '.notStarted', 'queued': '.queued', 'running': '.running',
          'success': '.success', 'failed': '.failed', 'cancelled': '.cancelled'}


class _Path:
    """one symbolic path through a coordinator method"""

    def __init__(self):
        self.conds = []                 # [(lean Bool expr, taken?)]
        self.fields = {'status': 'c.status', 'exc': 'c.exc', 'result': 'c.result'}
        self.locals = {}                # name -> lean Bool expr / value expr
        self.out = '.ok'
        self.announce = False
        self.stopped = False
        self.locked = False
        self.announce_locked = False    # announce_done called while the state lock is held
        self.unlocked_write = False     # a field written without the state lock

    def copy(self):
        p = _Path()
        p.conds = list(self.conds)
        p.fields = dict(self.fields)
        p.locals = dict(self.locals)
        p.out, p.announce, p.stopped = self.out, self.announce, self.stopped
        p.locked, p.announce_locked = self.locked, self.announce_locked
        p.unlocked_write = self.unlocked_write
        return p


def _done_expr(status):
    return '(Status.isDone %s)' % status


class CoordTranslator:
    """Symbolic execution of the loop-free methods of TransferCoordinator / TransferFuture that
    change status / exception / result.  Anything outside the subset raises ExtractError."""

    def __init__(self):
        self.mod = module('futures')

    # -- expressions ------------------------------------------------------------------
    def value(self, p, node, args):
        """lean expr of type Option Nat (exception / result values) or a status literal"""
        if isinstance(node, ast.Constant) and node.value is None:
            return 'none'
        if isinstance(node, ast.Name):
            if node.id in args:
                return args[node.id]
            if node.id in p.locals:
                return p.locals[node.id]
        if isinstance(node, ast.Call) and isinstance(node.func, ast.Name) and node.func.id in args:
            # exc_type(msg): the exception the caller asked for
            return args[node.func.id]
        raise ExtractError('futures: coordinator value not understood: %s' % ast.dump(node)[:120])

    def cond(self, p, node, args, on_future):
        if isinstance(node, ast.UnaryOp) and isinstance(node.op, ast.Not):
            return '(!%s)' % self.cond(p, node.operand, args, on_future)
        if isinstance(node, ast.BoolOp):
            op = ' || ' if isinstance(node.op, ast.Or) else ' && '
            return '(' + op.join(self.cond(p, v, args, on_future) for v in node.values) + ')'
        if isinstance(node, ast.Constant) and isinstance(node.value, bool):
            return 'true' if node.value else 'false'
        if isinstance(node, ast.Name):
            if node.id in p.locals:
                return p.locals[node.id]
            if node.id in args:
                return args[node.id]
        if isinstance(node, ast.Call) and isinstance(node.func, ast.Attribute) and node.func.attr == 'done' \
                and not node.args:
            # self.done() of the coordinator, or the future's done() which forwards to it
            self._check_done_defs()
            return _done_expr(p.fields['status'])
        if isinstance(node, ast.Compare) and len(node.ops) == 1 and isinstance(node.ops[0], (ast.Eq, ast.NotEq)):
            left, right = node.left, node.comparators[0]
            if isinstance(left, ast.Attribute) and left.attr in ('_status', 'status') and \
                    isinstance(right, ast.Constant) and right.value in STATUS:
                e = '(%s == %s)' % (p.fields['status'], STATUS[right.value])
                return e if isinstance(node.ops[0], ast.Eq) else '(!%s)' % e
        raise ExtractError('futures: coordinator condition not understood: %s' % ast.dump(node)[:160])

    _done_checked = False

    def _check_done_defs(self):
        """`TransferCoordinator.done` must be `status in [the three done states]`, `status` must return
        `_status`, and `TransferFuture.done` must forward to the coordinator."""
        if self._done_checked:
            return
        f = self.mod.func('TransferCoordinator', 'done')
        ret = [s for s in f.body if isinstance(s, ast.Return)]
        ok = False
        if len(ret) == 1 and isinstance(ret[0].value, ast.Compare) and isinstance(ret[0].value.ops[0], ast.In):
            cmp_ = ret[0].value
            try:
                vals = sorted(ev(self.mod, cmp_.comparators[0]))
            except Exception:
                vals = None
            left_ok = isinstance(cmp_.left, ast.Attribute) and cmp_.left.attr in ('status', '_status')
            ok = left_ok and vals == ['cancelled', 'failed', 'success']
        if not ok:
            raise ExtractError('futures: TransferCoordinator.done is no longer `status in [failed, cancelled, success]`')
        st = self.mod.func('TransferCoordinator', 'status')
        r = [s for s in st.body if isinstance(s, ast.Return)]
        if not (len(r) == 1 and isinstance(r[0].value, ast.Attribute) and r[0].value.attr == '_status'):
            raise ExtractError('futures: TransferCoordinator.status no longer returns _status')
        fd = self.mod.func('TransferFuture', 'done')
        r = [s for s in fd.body if isinstance(s, ast.Return)]
        if not (len(r) == 1 and isinstance(r[0].value, ast.Call) and isinstance(r[0].value.func, ast.Attribute)
                and r[0].value.func.attr == 'done' and isinstance(r[0].value.func.value, ast.Attribute)
                and r[0].value.func.value.attr == '_coordinator'):
            raise ExtractError('futures: TransferFuture.done no longer forwards to the coordinator')
        CoordTranslator._done_checked = True

    # -- statements -------------------------------------------------------------------
    def block(self, paths, stmts, args, cname, depth):
        for s in stmts:
            paths = self.stmt(paths, s, args, cname, depth)
        return paths

    def stmt(self, paths, s, args, cname, depth):
        live = [p for p in paths if not p.stopped]
        dead = [p for p in paths if p.stopped]
        if not live:
            return paths
        if isinstance(s, ast.Expr) and isinstance(s.value, ast.Constant):
            return paths                                              # docstring
        if isinstance(s, ast.Expr) and isinstance(s.value, ast.Call):
            call = s.value
            if isinstance(call.func, ast.Attribute) and isinstance(call.func.value, ast.Name) and \
                    call.func.value.id == 'logger':
                return paths
            return dead + self.call(live, call, args, cname, depth)
        if isinstance(s, ast.With):
            items = s.items
            if len(items) == 1 and isinstance(items[0].context_expr, ast.Attribute) and \
                    items[0].context_expr.attr == '_lock':
                for p in live:
                    if p.locked:
                        raise ExtractError('futures: state lock taken twice on one path')
                    p.locked = True
                out = self.block(live, s.body, args, cname, depth)
                for p in out:
                    p.locked = False
                return dead + out
            raise ExtractError('futures: unexpected `with` in a coordinator method')
        if isinstance(s, ast.If):
            out = []
            for p in live:
                c = self.cond(p, s.test, args, cname == 'TransferFuture')
                pt, pf = p.copy(), p.copy()
                pt.conds.append((c, True))
                pf.conds.append((c, False))
                out += self.block([pt], s.body, args, cname, depth)
                out += self.block([pf], s.orelse, args, cname, depth)
            return dead + out
        if isinstance(s, ast.Assign) and len(s.targets) == 1:
            t = s.targets[0]
            if isinstance(t, ast.Attribute) and isinstance(t.value, ast.Name) and t.value.id == 'self':
                for p in live:
                    if not p.locked:
                        p.unlocked_write = True
                    if t.attr == '_status':
                        if isinstance(s.value, ast.Constant) and s.value.value in STATUS:
                            p.fields['status'] = STATUS[s.value.value]
                        elif isinstance(s.value, ast.Name) and s.value.id in args:
                            p.fields['status'] = args[s.value.id]
                        else:
                            raise ExtractError('futures: status assigned something unexpected')
                    elif t.attr == '_exception':
                        p.fields['exc'] = self.value(p, s.value, args)
                    elif t.attr == '_result':
                        p.fields['result'] = self.value(p, s.value, args)
                    else:
                        raise ExtractError('futures: coordinator method assigns self.%s' % t.attr)
                return dead + live
            if isinstance(t, ast.Name):
                # a boolean local: a literal, or a condition evaluated at this point of the path
                for p in live:
                    p.locals[t.id] = self.cond(p, s.value, args, cname == 'TransferFuture')
                return dead + live
        if isinstance(s, ast.Raise):
            exc = s.exc
            name = exc.func.id if isinstance(exc, ast.Call) and isinstance(exc.func, ast.Name) else None
            kinds = {'RuntimeError': '.runtimeError', 'TransferNotDoneError': '.notDoneError'}
            if name not in kinds:
                raise ExtractError('futures: coordinator method raises %s' % name)
            for p in live:
                p.out = kinds[name]
                p.stopped = True
            return dead + live
        raise ExtractError('futures: statement outside the translated subset: %s' % ast.dump(s)[:160])

    def call(self, live, call, args, cname, depth):
        if depth > 3:
            raise ExtractError('futures: coordinator call chain too deep')
        f = call.func
        if not isinstance(f, ast.Attribute):
            raise ExtractError('futures: call not understood')
        target_cls = None
        if isinstance(f.value, ast.Name) and f.value.id == 'self':
            target_cls = cname
        elif isinstance(f.value, ast.Attribute) and f.value.attr == '_coordinator':
            target_cls = 'TransferCoordinator'
        if target_cls is None:
            raise ExtractError('futures: call on %s not understood' % ast.dump(f.value)[:80])
        if f.attr == 'announce_done':
            for p in live:
                if p.announce:
                    raise ExtractError('futures: announce_done called twice on one path')
                p.announce = True
                p.announce_locked = p.locked
            return live
        fn = self.mod.func(target_cls, f.attr)
        params = [a.arg for a in fn.args.args[1:]]
        defaults = fn.args.defaults
        out = []
        for p in live:
            new_args = {}
            for i, name in enumerate(params):
                if i < len(call.args):
                    node = call.args[i]
                else:
                    kw = [k.value for k in call.keywords if k.arg == name]
                    if kw:
                        node = kw[0]
                    else:
                        di = i - (len(params) - len(defaults))
                        if di < 0:
                            raise ExtractError('futures: missing argument %s' % name)
                        node = defaults[di]
                new_args[name] = self.arg_value(p, node, args)
            out += self.block([p], fn.body, new_args, target_cls, depth + 1)
        return out

    def arg_value(self, p, node, args):
        if isinstance(node, ast.Constant) and isinstance(node.value, bool):
            return 'true' if node.value else 'false'
        if isinstance(node, ast.Constant) and node.value in STATUS:
            return STATUS[node.value]
        if isinstance(node, ast.Name) and node.id in args:
            return args[node.id]
        if isinstance(node, ast.Constant) and node.value is None:
            return 'none'
        raise ExtractError('futures: argument not understood: %s' % ast.dump(node)[:80])

    # -- emission ---------------------------------------------------------------------
    def method(self, cname, fname, args):
        fn = self.mod.func(cname, fname)
        paths = self.block([_Path()], fn.body, args, cname, 0)
        return paths

    def emit(self, paths):
        """nested if-then-else over the path conditions, in source order"""
        def rec(ps, k):
            if len(ps) == 1 and len(ps[0].conds) <= k:
                p = ps[0]
                st = '{ c with status := %s, exc := %s, result := %s }' % (
                    p.fields['status'], p.fields['exc'], p.fields['result'])
                if p.announce:
                    st = 'announce %s' % st
                return '(%s, %s)' % (st, p.out)
            c = ps[0].conds[k][0]
            yes = [p for p in ps if p.conds[k] == (c, True)]
            no = [p for p in ps if p.conds[k] == (c, False)]
            if len(yes) + len(no) != len(ps) or not yes or not no:
                raise ExtractError('futures: coordinator paths do not form a decision tree')
            return '(if %s then %s else %s)' % (c, rec(yes, k + 1), rec(no, k + 1))
        return rec(paths, 0)


OPS = [
    # (Op constructor pattern, class, method, argument map)
    ('.setResult r', 'TransferCoordinator', 'set_result', {'result': '(some r)'}),
    ('.setException e ov', 'TransferCoordinator', 'set_exception', {'exception': '(some e)', 'override': 'ov'}),
    ('.cancel e', 'TransferCoordinator', 'cancel', {'msg': 'none', 'exc_type': '(some e)'}),
    ('.toQueued', 'TransferCoordinator', 'set_status_to_queued', {}),
    ('.toRunning', 'TransferCoordinator', 'set_status_to_running', {}),
    ('.futureSetException e', 'TransferFuture', 'set_exception', {'exception': '(some e)'}),
]


def announce_order(mod):
    """the statements of announce_done in order, conditions included (text form, compared in Lean)"""
    fn = mod.func('TransferCoordinator', 'announce_done')
    rows = []

    def walk(stmts, prefix):
        for st in stmts:
            if isinstance(st, ast.Expr) and isinstance(st.value, ast.Constant):
                continue
            if isinstance(st, ast.Expr) and isinstance(st.value, ast.Call) and isinstance(st.value.func, ast.Attribute):
                f = st.value.func
                if isinstance(f.value, ast.Name) and f.value.id == 'logger':
                    continue
                rows.append(prefix + ast.unparse(f).replace('self.', ''))
            elif isinstance(st, ast.If) and not st.orelse:
                walk(st.body, prefix + 'if ' + ast.unparse(st.test).replace('self.', '').replace('"', "'") + ': ')
            else:
                raise ExtractError('futures: announce_done has a statement outside the translated subset')
    walk(fn.body, '')
    # the two runners: take their lock, run the list, empty it
    for runner, lock, lst in (('_run_failure_cleanups', '_failure_cleanups_lock', '_failure_cleanups'),
                              ('_run_done_callbacks', '_done_callbacks_lock', '_done_callbacks')):
        r = mod.func('TransferCoordinator', runner)
        body = [st for st in r.body if not (isinstance(st, ast.Expr) and isinstance(st.value, ast.Constant))]
        ok = len(body) == 1 and isinstance(body[0], ast.With) and lock in ast.unparse(body[0].items[0].context_expr)
        if ok:
            inner = body[0].body
            ok = len(inner) == 2 and '_run_callback' in ast.unparse(inner[0]) and \
                lst.lstrip('_') in ast.unparse(inner[0]) and \
                isinstance(inner[1], ast.Assign) and ast.unparse(inner[1].targets[0]) == 'self.' + lst and \
                ast.unparse(inner[1].value) == '[]'
        if not ok:
            raise ExtractError('futures: %s is no longer `with lock: run the list; empty it`' % runner)
    return rows


def gen_coordstep():
    CoordTranslator._done_checked = False
    tr = CoordTranslator()
    out = [HEADER, 'import S3V.Model.Coord\n', 'namespace S3V.Gen\nopen S3V.Coord\n']
    out.append('/-- The status / exception / result part of every mutator of `TransferCoordinator` (and of\n'
               '`TransferFuture.set_exception`), translated path by path from futures.py. `none` for the operations\n'
               'that do not touch these fields (callback registration, a bare `announce_done`). -/')
    out.append('def coordStep (c : Coord) : Op → Option (Coord × Out)')
    locked = []
    unlocked_writes = []
    for pat, cname, fname, args in OPS:
        paths = tr.method(cname, fname, args)
        out.append('  | %s => some %s' % (pat, tr.emit(paths)))
        for p in paths:
            if p.announce and p.announce_locked:
                locked.append(fname)
            if p.unlocked_write:
                unlocked_writes.append(fname)
    out.append('  | _ => none\n')
    out.append('/-- methods that call `announce_done` while holding the state lock (D3: must be empty) -/')
    out.append('def coordAnnouncesUnderLock : List String := [%s]' % ', '.join('"%s"' % n for n in sorted(set(locked))))
    out.append('/-- methods that write status / exception / result without holding the state lock -/')
    out.append('def coordWritesWithoutLock : List String := [%s]' % ', '.join('"%s"' % n for n in sorted(set(unlocked_writes))))
    out.append('/-- `announce_done`, statement by statement -/')
    out.append('def announceOrder : List String := [%s]' % ', '.join('"%s"' % n for n in announce_order(tr.mod)))
    out.append('end S3V.Gen\n')
    return '\n'.join(out)



# ---------------------------------------------------------------------------------------------
# CountCallbackInvoker (utils.py): increment / decrement / finalize, path by path

class _CPath:
    def __init__(self):
        self.conds = []
        self.count = 'c.count'
        self.finalized = 'c.finalized'
        self.fired = False
        self.raised = False
        self.locked = False
        self.unlocked = False

    def copy(self):
        p = _CPath()
        p.__dict__.update({k: (list(v) if isinstance(v, list) else v) for k, v in self.__dict__.items()})
        return p


def _cci_cond(p, node):
    if isinstance(node, ast.BoolOp):
        op = ' || ' if isinstance(node.op, ast.Or) else ' && '
        return '(' + op.join(_cci_cond(p, v) for v in node.values) + ')'
    if isinstance(node, ast.UnaryOp) and isinstance(node.op, ast.Not):
        return '(!%s)' % _cci_cond(p, node.operand)
    if isinstance(node, ast.Attribute) and node.attr == '_is_finalized':
        return p.finalized
    if isinstance(node, ast.Compare) and len(node.ops) == 1 and isinstance(node.left, ast.Attribute) and \
            node.left.attr == '_count' and isinstance(node.comparators[0], ast.Constant) and \
            isinstance(node.comparators[0].value, int):
        k = node.comparators[0].value
        ops = {ast.Eq: '(%s == %d)', ast.NotEq: '(%s != %d)', ast.Gt: '(decide (%s > %d))', ast.LtE: '(decide (%s ≤ %d))'}
        for t, fmt in ops.items():
            if isinstance(node.ops[0], t):
                return fmt % (p.count, k)
    raise ExtractError('utils: CountCallbackInvoker condition not understood: %s' % ast.dump(node)[:120])


def _cci_block(paths, stmts):
    for s in stmts:
        nxt = []
        for p in paths:
            if p.raised:
                nxt.append(p)
                continue
            if isinstance(s, ast.Expr) and isinstance(s.value, ast.Constant):
                nxt.append(p)
            elif isinstance(s, ast.With) and len(s.items) == 1 and isinstance(s.items[0].context_expr, ast.Attribute) \
                    and s.items[0].context_expr.attr == '_lock':
                p.locked = True
                out = _cci_block([p], s.body)
                for q in out:
                    q.locked = False
                nxt += out
            elif isinstance(s, ast.If):
                c = _cci_cond(p, s.test)
                pt, pf = p.copy(), p.copy()
                pt.conds.append((c, True))
                pf.conds.append((c, False))
                nxt += _cci_block([pt], s.body) + _cci_block([pf], s.orelse)
            elif isinstance(s, ast.Raise):
                if not (isinstance(s.exc, ast.Call) and isinstance(s.exc.func, ast.Name) and s.exc.func.id == 'RuntimeError'):
                    raise ExtractError('utils: CountCallbackInvoker raises something else than RuntimeError')
                p.raised = True
                nxt.append(p)
            elif isinstance(s, ast.AugAssign) and isinstance(s.target, ast.Attribute) and s.target.attr == '_count' \
                    and isinstance(s.value, ast.Constant) and s.value.value == 1 and isinstance(s.op, (ast.Add, ast.Sub)):
                if not p.locked:
                    p.unlocked = True
                p.count = '(%s %s 1)' % (p.count, '+' if isinstance(s.op, ast.Add) else '-')
                nxt.append(p)
            elif isinstance(s, ast.Assign) and len(s.targets) == 1 and isinstance(s.targets[0], ast.Attribute) \
                    and s.targets[0].attr == '_is_finalized' and isinstance(s.value, ast.Constant) \
                    and isinstance(s.value.value, bool):
                if not p.locked:
                    p.unlocked = True
                p.finalized = 'true' if s.value.value else 'false'
                nxt.append(p)
            elif isinstance(s, ast.Expr) and isinstance(s.value, ast.Call) and isinstance(s.value.func, ast.Attribute) \
                    and s.value.func.attr == '_callback' and not s.value.args:
                if p.fired:
                    raise ExtractError('utils: CountCallbackInvoker calls the callback twice on one path')
                if not p.locked:
                    p.unlocked = True
                p.fired = True
                nxt.append(p)
            else:
                raise ExtractError('utils: CountCallbackInvoker statement outside the translated subset: %s'
                                   % ast.dump(s)[:120])
        paths = nxt
    return paths


def _cci_emit(ps, k=0):
    if len(ps) == 1 and len(ps[0].conds) <= k:
        p = ps[0]
        if p.raised:
            return '(c, .runtimeError)'
        st = '{ c with count := %s, finalized := %s, fired := %s }' % (
            p.count, p.finalized, '(c.fired + 1)' if p.fired else 'c.fired')
        return '(%s, %s)' % (st, '.fired' if p.fired else '.ok')
    c = ps[0].conds[k][0]
    yes = [p for p in ps if p.conds[k] == (c, True)]
    no = [p for p in ps if p.conds[k] == (c, False)]
    if len(yes) + len(no) != len(ps) or not yes or not no:
        raise ExtractError('utils: CountCallbackInvoker paths do not form a decision tree')
    return '(if %s then %s else %s)' % (c, _cci_emit(yes, k + 1), _cci_emit(no, k + 1))


def gen_cci():
    mod = module('utils')
    out = [HEADER, 'import S3V.Model.Sema\n', 'namespace S3V.Gen\nopen S3V.Sema\n']
    unlocked = []
    for lean, fname in (('cciIncrement', 'increment'), ('cciDecrement', 'decrement'), ('cciFinalize', 'finalize')):
        fn = mod.func('CountCallbackInvoker', fname)
        if len(fn.args.args) != 1:
            raise ExtractError('utils: CountCallbackInvoker.%s takes arguments now' % fname)
        paths = _cci_block([_CPath()], fn.body)
        out.append('/-- `CountCallbackInvoker.%s`, translated path by path from utils.py -/' % fname)
        out.append('def %s (c : Cci) : Cci × CciOut := %s' % (lean, _cci_emit(paths)))
        if any(p.unlocked for p in paths):
            unlocked.append(fname)
    out.append('/-- methods touching the counter, the flag or the callback outside the lock -/')
    out.append('def cciWithoutLock : List String := [%s]' % ', '.join('"%s"' % n for n in unlocked))
    out.append('end S3V.Gen\n')
    return '\n'.join(out)


GENERATORS = {'Consts': gen_consts, 'ArgTables': gen_argtables, 'S3Shapes': gen_s3shapes, 'Wiring': gen_wiring,
              'Handlers': gen_handlers, 'CoordStep': gen_coordstep, 'Cci': gen_cci}


def extract_all():
    """Regenerate every Gen module; returns {module: 'ok'|'unchanged'} or raises ExtractError."""
    _modules.clear()
    status = {}
    for name, fn in GENERATORS.items():
        text = fn()
        changed = write_if_changed(os.path.join(GEN_DIR, name + '.lean'), text)
        status[name] = 'rewritten' if changed else 'unchanged'
    return status


if __name__ == '__main__':
    try:
        print(json.dumps(extract_all()))
    except ExtractError as e:
        print('extract: %s' % e, file=sys.stderr)
        sys.exit(2)
