"""A stub of the `awscrt` package, just large enough for `s3transfer.crt` to import and for
`CRTTransferManager` to run against: the native S3 client is replaced by `StubS3Client`, whose
requests are completed by the test (success, error, cancelled) in any order.

Contract of the stub request (the part of the native client's behaviour C20 relies on):
  * `make_request(**kwargs)` either raises (construction failure) or returns a request object
    with `finished_future` and `cancel()`;
  * for every returned request the client calls `on_done(error=…)` exactly once;
  * `finished_future` is completed before `on_done` is called (`future_first=True`, the native
    order: `crt.py` itself notes "the CRT future has done already at this point") or after it;
  * a path download is received into `recv_filepath` (the file exists when `on_done` runs).

`install()` must be called after botocore has been imported, so that botocore's own CRT detection
(`botocore.compat.HAS_CRT`) stays off."""
import enum
import sys
import types


class AwsCrtError(Exception):
    def __init__(self, code=0, name='AWS_ERROR_UNKNOWN', message=''):
        super().__init__('%s: %s' % (name, message))
        self.code, self.name, self.message = code, name, message


class S3ResponseError(AwsCrtError):
    def __init__(self, code=0, name='AWS_ERROR_S3_INVALID_RESPONSE_STATUS', message='', status_code=500,
                 headers=None, body=None, operation_name=None):
        super().__init__(code, name, message)
        self.status_code, self.headers, self.body, self.operation_name = status_code, headers or [], body, operation_name


class S3RequestType(enum.IntEnum):
    DEFAULT = 0
    GET_OBJECT = 1
    PUT_OBJECT = 2


class S3RequestTlsMode(enum.IntEnum):
    ENABLED = 0
    DISABLED = 1


class S3ChecksumAlgorithm(enum.IntEnum):
    CRC32C = 1
    CRC32 = 2
    SHA1 = 3
    SHA256 = 4
    CRC64NVME = 5


class S3ChecksumLocation(enum.IntEnum):
    HEADER = 1
    TRAILER = 2


class S3ChecksumConfig:
    def __init__(self, algorithm=None, location=None, validate_response=False):
        self.algorithm, self.location, self.validate_response = algorithm, location, validate_response


class HttpHeaders:
    def __init__(self, name_value_pairs=None):
        self._l = list(name_value_pairs or [])

    def add(self, name, value):
        self._l.append((name, value))

    def set(self, name, value):
        self.remove(name) if self.get(name) is not None else None
        self._l.append((name, value))

    def get(self, name, default=None):
        for k, v in self._l:
            if k.lower() == name.lower():
                return v
        return default

    def remove(self, name):
        n = len(self._l)
        self._l = [(k, v) for k, v in self._l if k.lower() != name.lower()]
        if len(self._l) == n:
            raise KeyError(name)

    def __iter__(self):
        return iter(self._l)


class HttpRequest:
    def __init__(self, method='GET', path='/', headers=None, body_stream=None):
        self.method, self.path, self.headers, self.body_stream = method, path, headers or HttpHeaders(), body_stream


class _Opaque:
    def __init__(self, *a, **k):
        self.args, self.kwargs = a, k


class AwsSigningAlgorithm(enum.IntEnum):
    V4 = 0
    V4_ASYMMETRIC = 1
    V4_S3EXPRESS = 2


class StubRequest:
    """What `S3Client.make_request` returns."""

    def __init__(self, client, index, kwargs):
        self.client, self.index, self.kwargs = client, index, kwargs
        self.finished_future = client.future_factory()
        self.cancel_requested = False
        self.completed = False

    def cancel(self):
        self.client.log('cancel', self.index)
        self.cancel_requested = True

    def complete(self, error=None):
        """The native client finishing the request (called by the test's 'CRT thread')."""
        assert not self.completed
        self.completed = True
        self.client.outstanding.discard(self.index)
        path = self.kwargs.get('recv_filepath')
        if path and error is None:
            with open(path, 'wb') as f:
                f.write(b'object-bytes-%d' % self.index)
        elif path and self.client.partial_on_error:
            with open(path, 'wb') as f:
                f.write(b'partial')
        on_body = self.kwargs.get('on_body')
        if on_body is not None and error is None:
            on_body(chunk=b'object-bytes-%d' % self.index, offset=0)
        on_progress = self.kwargs.get('on_progress')
        if on_progress is not None and error is None:
            on_progress(14)

        def finish_future():
            if error is not None:
                self.finished_future.set_exception(error)
            else:
                self.finished_future.set_result(None)

        if self.client.future_first:
            finish_future()
        self.client.log('on_done-begin', self.index)
        try:
            self.kwargs['on_done'](error=error, error_headers=None, error_body=None)
        finally:
            self.client.log('on_done-end', self.index)
            if not self.client.future_first:
                finish_future()


class StubS3Client:
    def __init__(self, future_factory, future_first=True, construct_failures=(), log=None):
        self.future_factory = future_factory
        self.future_first = future_first
        self.construct_failures = set(construct_failures)   # indices (n-th make_request call) that raise
        self.requests = {}
        self.calls = 0
        self.outstanding = set()
        self.max_outstanding = 0
        self.partial_on_error = True
        self._log = log if log is not None else (lambda *a: None)

    def log(self, *a):
        self._log(*a)

    def make_request(self, **kwargs):
        i = self.calls
        self.calls += 1
        if i in self.construct_failures:
            self.log('make_request-raises', i)
            raise AwsCrtError(1, 'AWS_ERROR_INVALID_ARGUMENT', 'stub construction failure %d' % i)
        r = StubRequest(self, i, kwargs)
        self.requests[i] = r
        self.outstanding.add(i)
        self.max_outstanding = max(self.max_outstanding, len(self.outstanding))
        self.log('make_request', i)
        return r


def install():
    if 'awscrt' in sys.modules and getattr(sys.modules['awscrt'], '_s3v_stub', False):
        return sys.modules['awscrt']
    import botocore.session  # noqa: F401  (must come first, see module docstring)
    root = types.ModuleType('awscrt')
    root.__version__ = '0.0.0-stub'
    root._s3v_stub = True
    root.__path__ = []
    http = types.ModuleType('awscrt.http')
    http.HttpHeaders, http.HttpRequest = HttpHeaders, HttpRequest
    s3 = types.ModuleType('awscrt.s3')
    for n, v in dict(S3Client=StubS3Client, S3RequestTlsMode=S3RequestTlsMode, S3RequestType=S3RequestType,
                     S3ChecksumConfig=S3ChecksumConfig, S3ChecksumAlgorithm=S3ChecksumAlgorithm,
                     S3ChecksumLocation=S3ChecksumLocation, S3ResponseError=S3ResponseError,
                     CrossProcessLock=_Opaque, get_recommended_throughput_target_gbps=lambda: None).items():
        setattr(s3, n, v)
    auth = types.ModuleType('awscrt.auth')
    auth.AwsCredentials = _Opaque
    auth.AwsCredentialsProvider = _Opaque
    auth.AwsSigningAlgorithm = AwsSigningAlgorithm
    auth.AwsSigningConfig = _Opaque
    io = types.ModuleType('awscrt.io')
    for n in ('ClientBootstrap', 'ClientTlsContext', 'DefaultHostResolver', 'EventLoopGroup', 'TlsContextOptions'):
        setattr(io, n, _Opaque)
    exc = types.ModuleType('awscrt.exceptions')
    exc.AwsCrtError = AwsCrtError
    root.http, root.s3, root.auth, root.io, root.exceptions = http, s3, auth, io, exc
    sys.modules.update({'awscrt': root, 'awscrt.http': http, 'awscrt.s3': s3, 'awscrt.auth': auth,
                        'awscrt.io': io, 'awscrt.exceptions': exc})
    return root
