"""Regenerates MANIFEST.json from registry.PROPS + manifest_texts (keeps it valid at all times)."""
import json
import os
import sys

sys.path.insert(0, os.path.dirname(os.path.abspath(__file__)))
import registry  # noqa: E402
from manifest_texts import TEXTS, NOT_APPLICABLE  # noqa: E402

VERIF = os.path.dirname(os.path.dirname(os.path.abspath(__file__)))

doc = {
    "version": 1,
    "setup_cmd": "cd harness && /venv/bin/python extract.py && cd ../lean && lake build",
    "hooks": {
        "guard": "S3TRANSFER_VERIF",
        "enable": "no source hooks are needed: the harness imports /repo's working tree (sys.path), replaces the `threading` name inside s3transfer modules by a cooperative shim and passes executor_cls from outside",
        "baseline_off_cmd": "cd /repo && /venv/bin/python -m pytest -ra -q -p no:cacheprovider --timeout=900 --continue-on-collection-errors",
        "source_commits": [],
        "add_only": True,
    },
    "engines": [
        {"name": "lean-proof", "path": "lean/", "serves_properties": sorted(registry.PROPS),
         "kind_free_text": "Lean 4 theorems (S3V/Props) about executable models (S3V/Model) and tables regenerated from the source (S3V/Gen); axioms audited per theorem"},
        {"name": "correspondence", "path": "harness/", "serves_properties": sorted(registry.PROPS),
         "kind_free_text": "differential / trace validation of the Lean model against /repo through the compiled line-protocol driver; direct oracles on the real code for the failing-input search"},
    ],
    "checks": [],
    "not_applicable": NOT_APPLICABLE,
    "notes": "Every check: ./check <id> --tier quick|thorough (honours VERIF_SEED). Exit 0 held / 1 VIOLATION / 2 infrastructure. Known findings: known_findings.json.",
}
for pid in sorted(registry.PROPS):
    t = TEXTS[pid]
    doc["checks"].append({
        "property_id": pid,
        "quick_cmd": "./check %s --tier quick" % pid,
        "thorough_cmd": "./check %s --tier thorough" % pid,
        "evidence_file": "evidence/%s.json" % pid,
        "replay_cmd_template": "./check %s --replay {path}" % pid,
        "engine": "lean-proof",
        "level_claimed": {"category": "proof", "text": t["text"], "design_ref": "DESIGN.md section 8 %s" % pid},
        "level_note": t["note"],
        "technique": t["technique"],
    })
with open(os.path.join(VERIF, 'MANIFEST.json'), 'w') as f:
    json.dump(doc, f, indent=1)
print('MANIFEST.json: %d checks' % len(doc["checks"]))
