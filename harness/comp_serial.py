"""Serial manager sweep (C02, C03, C05, C06, C08, C12): the transfer manager built with
`executor_cls=NonThreadedExecutor` (what boto3 builds for use_threads=False) runs every task in the
caller's thread, so a run is deterministic and the fault positions of a transfer can be enumerated
instead of sampled: for each transfer shape, one fault-free run counts the S3 calls, body reads,
source reads, destination writes and file-system calls; then every position is failed once with an
ordinary exception and once with a KeyboardInterrupt (the caller's thread is where Ctrl-C lands),
and the explorer's judges for the property decide each run."""
import copy
import json

from common import rng_for
from oracle import OracleResult

BASE_CFG = {'multipart_threshold': 6, 'multipart_chunksize': 3, 'max_request_concurrency': 2, 'max_submission_concurrency': 1,
            'max_request_queue_size': 2, 'max_submission_queue_size': 1, 'max_io_queue_size': 1, 'io_chunksize': 2,
            'num_download_attempts': 2, 'max_in_memory_upload_chunks': 1, 'max_in_memory_download_chunks': 1}


def shapes():
    out = []
    for size in (4, 8):                      # below / above the multipart threshold
        for source in ('path', 'seekable', 'nonseekable'):
            out.append({'kind': 'upload', 'size': size, 'source': source, 'rewinds': 0, 'sign_reads': False})
        for dest in ('path', 'seekable', 'nonseekable', 'special'):
            t = {'kind': 'download', 'size': size, 'dest': dest}
            if dest == 'path':
                t['previous'] = 5
            out.append(t)
        out.append({'kind': 'copy', 'size': size})
    # objects that fit in one io chunk, to destinations that cannot seek
    for dest in ('nonseekable', 'special'):
        out.append({'kind': 'download', 'size': 4, 'dest': dest, 'cfg': {'io_chunksize': 8}})
    out.append({'kind': 'delete', 'size': 1})
    return out


def scenario(shape, faults, second=None, subs=None):
    t = dict(shape)
    cfg_over = t.pop('cfg', {})
    t['subscribers'] = subs if subs is not None else [{'id': 0}]
    transfers = [t]
    if second is not None:
        u = dict(second)
        u['subscribers'] = [{'id': 0}]
        transfers.append(u)
    cfg = dict(BASE_CFG, **cfg_over)
    if any(s.get('chain') for u in transfers for s in u['subscribers']):
        import explore
        explore.normalize_chain_cfg(cfg)
    return {'cfg': cfg, 'transfers': transfers, 'faults': faults, 'cancel': None, 'mode': 'uniform',
            'sched_seed': 1, 'fresh_after': True, 'fresh_nonseekable': True, 'serial': True, 'mark_failed_after_done': True}


def positions(run):
    """fault positions of the fault-free run"""
    pos = []
    per_op = {}
    for e in run.fake.log:
        if e['phase'] == 'begin' and e['args'].get('Key') != 'fresh':
            n = per_op.get(e['op'], 0)
            per_op[e['op']] = n + 1
    for op, n in sorted(per_op.items()):
        for k in range(n):
            for when in ('before', 'after'):
                pos.append({'site': 'req', 'op': op, 'nth': k, 'when': when})
    ngets = per_op.get('get_object', 0)
    size = run.sc['transfers'][0]['size']
    for g in range(ngets):
        for after in range(0, min(size, 4) + 1):
            pos.append({'site': 'body', 'nth_get': g, 'after': after, 'kind': 'fatal'})
    nsrc = sum(1 for e in run.env.events if e['k'] == 'src-read' and e.get('ti') == 0)
    for k in range(min(nsrc, 6)):
        pos.append({'site': 'src-read', 'transfer': 0, 'nth': k})
    ndst = sum(1 for e in run.env.events if e['k'] == 'dest-write-begin' and e.get('ti') == 0)
    for k in range(min(ndst, 6)):
        pos.append({'site': 'dest-write', 'transfer': 0, 'nth': k})
    for op, n in sorted(run.env.fs_counts.items()):
        if op in ('open', 'write', 'close', 'rename'):
            for k in range(min(n, 4)):
                pos.append({'site': 'fs', 'op': op, 'nth': k})
    return pos


def with_kind(p, kind):
    q = dict(p)
    if q['site'] == 'body':
        # 'retryable': a stream error the download retries (the attempt budget allows one)
        q['kind'] = {'interrupt': 'interrupt', 'retryable': 'retryable'}.get(kind, 'fatal')
    else:
        q['exc_kind'] = kind
    return q


def sweep(prop, seed, tier):
    import explore
    import explore_judge
    res = OracleResult(prop)
    rng = rng_for(seed, 'serial-sweep', prop)
    all_shapes = shapes()
    chosen = all_shapes
    for shape in chosen:
        base = explore.run_scenario(scenario(shape, [], None, [{'id': 0}, {'id': 1, 'chain': True}]))
        res.evaluations += 1
        judged = explore_judge.judge_all(base, [prop]).get(prop, [])
        for sig, wit, what in judged:
            res.violation(sig + ':serial', _wit(wit, shape, None), what)
        pos = positions(base)
        if tier == 'quick' and len(pos) > 40:
            pos = rng.sample(pos, 40)
        for p in pos:
            for kind in ('plain', 'interrupt', 'retryable', 'timeout', 'brokenpipe'):
                if kind == 'retryable' and p['site'] != 'body':
                    continue
                # local failures that happen to be TimeoutError / ConnectionError subclasses (a stalled mount,
                # a closed pipe): the download's retry loop must not mistake them for stream errors
                if kind in ('timeout', 'brokenpipe') and p['site'] not in ('dest-write', 'fs'):
                    continue
                f = with_kind(p, kind)
                # a second transfer on the same manager afterwards shows leaked permits as a hang
                second = {'kind': 'download', 'size': 4, 'dest': 'nonseekable'} if rng.random() < 0.5 else None
                subs = [{'id': 0}]
                if rng.random() < 0.2:
                    subs.append({'id': 1, 'reentrant': ['result', 'done']})
                if rng.random() < 0.2:
                    subs.append({'id': 2, 'chain': True})
                run = explore.run_scenario(scenario(shape, [f], second, subs))
                res.evaluations += 1
                res.hit('serial:%s:%s:%s' % (shape['kind'], p['site'], kind))
                if any(x for x in run.outcomes.values() if x[0] == 'raise'):
                    res.nontrivial.add((json.dumps(shape, sort_keys=True), json.dumps(f, sort_keys=True)))
                for sig, wit, what in explore_judge.judge_all(run, [prop]).get(prop, []):
                    res.violation(sig + ':serial', _wit(wit, shape, f), what)
                if res.enough():
                    return res
        if tier == 'thorough':
            # pairs of faults
            for _ in range(150):
                p1, p2 = rng.choice(pos), rng.choice(pos)
                if p1 == p2:
                    continue
                fs = [with_kind(p1, rng.choice(['plain', 'interrupt'])), with_kind(p2, rng.choice(['plain', 'interrupt']))]
                if len({(f['site'], f.get('transfer')) for f in fs if f['site'] in ('src-read', 'dest-write')}) < sum(
                        1 for f in fs if f['site'] in ('src-read', 'dest-write')):
                    continue     # one fault position per stream
                run = explore.run_scenario(scenario(shape, fs, None, [{'id': 0}]))
                res.evaluations += 1
                res.hit('serial:%s:pair' % shape['kind'])
                for sig, wit, what in explore_judge.judge_all(run, [prop]).get(prop, []):
                    res.violation(sig + ':serial', _wit(wit, shape, fs), what)
                if res.enough():
                    return res
    res.samples.append({'shape': chosen[0], 'manager': 'executor_cls=NonThreadedExecutor',
                        'faults': 'every position once as an ordinary exception and once as KeyboardInterrupt'})
    return res


def _wit(wit, shape, fault):
    w = json.loads(json.dumps(wit, default=str))
    w.pop('schedule', None)
    w['serial_manager'] = True
    w['shape'] = shape
    w['fault'] = copy.deepcopy(fault)
    return w


def make(prop):
    def oracle(seed, tier):
        return sweep(prop, seed, tier)
    oracle.__name__ = 'serial_sweep_%s' % prop
    return oracle


for _p in ['C02', 'C03', 'C04', 'C05', 'C06', 'C08', 'C09', 'C12', 'C16']:
    globals()['oracle_' + _p] = make(_p)


# --------------------------------------------------------------------------- correspondence with S3V.Model.Serial
class _Ordinary(Exception):
    pass


class _Base(BaseException):
    pass


def real_plan(plan):
    """Run `plan` — [(id, is_final, out, after)] with out in ok|ord|base and after None or (id, is_final, out) —
    through the real TransferManager(executor_cls=NonThreadedExecutor), real SubmissionTask / Task /
    BoundedExecutor / TransferCoordinator; returns the model's output line."""
    from s3transfer.futures import NonThreadedExecutor
    from s3transfer.manager import TransferConfig, TransferManager
    from s3transfer.tasks import SubmissionTask, Task
    from s3transfer.utils import CallArgs
    ran = []
    excs = {'ord': _Ordinary('ordinary'), 'base': _Base('base')}

    class Generic(Task):
        def _main(self, ident, out):
            ran.append(ident)
            if out != 'ok':
                raise excs[out]
            return 'result-%d' % ident

    class Plan(SubmissionTask):
        def _submit(self, transfer_future, request_executor, **kw):
            for ident, fin, out, after in plan:
                cbs = []
                if after is not None:
                    cbs = [Generic(self._transfer_coordinator, main_kwargs={'ident': after[0], 'out': after[2]}, is_final=after[1])]
                self._transfer_coordinator.submit(
                    request_executor,
                    Generic(self._transfer_coordinator, main_kwargs={'ident': ident, 'out': out}, is_final=fin, done_callbacks=cbs))

    class Client:
        class meta:
            class events:
                @staticmethod
                def register_first(*a, **k):
                    pass

                @staticmethod
                def register_last(*a, **k):
                    pass

                @staticmethod
                def register(*a, **k):
                    pass

                @staticmethod
                def unregister(*a, **k):
                    pass

            class config:
                request_checksum_calculation = 'when_supported'
                response_checksum_validation = 'when_supported'
    cfg = TransferConfig(max_request_queue_size=7, max_submission_queue_size=5, max_io_queue_size=3)
    tm = TransferManager(Client(), cfg, executor_cls=NonThreadedExecutor)
    counts = {'announced': 0, 'cleaned': False}
    import s3transfer.futures as fm
    orig_announce = fm.TransferCoordinator.announce_done

    def announce(self):
        counts['announced'] += 1
        return orig_announce(self)
    fm.TransferCoordinator.announce_done = announce

    class Sub:
        def on_queued(self, **kw):
            pass

        def on_progress(self, **kw):
            pass

        def on_done(self, **kw):
            pass
    raised = 'none'
    fut = None
    try:
        try:
            # add the cleanup flag as the first thing the submission does: through on_queued
            from s3transfer.subscribers import BaseSubscriber

            class Flag(BaseSubscriber):
                def on_queued(self, future, **kw):
                    future._coordinator.add_failure_cleanup(lambda: counts.__setitem__('cleaned', True))
            fut = tm._submit_transfer(CallArgs(subscribers=[Flag()]), Plan, {'request_executor': tm._request_executor})
        except _Ordinary:
            raised = 'ord'
        except _Base:
            raised = 'base'
    finally:
        fm.TransferCoordinator.announce_done = orig_announce
    coord = fut._coordinator if fut is not None else None
    exc = 'none'
    success = 0
    if coord is not None:
        e = coord.exception
        exc = 'none' if e is None else ('ord' if isinstance(e, _Ordinary) else 'base' if isinstance(e, _Base) else repr(e))
        success = 1 if coord.status == 'success' else 0
    sems = [(tm._request_executor._semaphore._semaphore._value, 7), (tm._submission_executor._semaphore._semaphore._value, 5),
            (tm._io_executor._semaphore._semaphore._value, 3)]
    permits = sum(cap - v for v, cap in sems)
    return 'exc=%s success=%d announced=%d cleaned=%d permits=%d ran=%s raised=%s' % (
        exc, success, counts['announced'], 1 if counts['cleaned'] else 0, permits, ','.join(map(str, ran)), raised)


def corr(seed, tier):
    """Random plans (well-formed and not) with every mix of outcomes: the real serial manager against
    `S3V.Serial.manager Tables.current`."""
    from common import CorrResult, DriverError, run_driver
    res = CorrResult('serial-manager')
    rng = rng_for(seed, 'serial-corr')
    outs = ['ok', 'ok', 'ok', 'ord', 'base']
    plans = []
    for i in range(400 if tier == 'quick' else 6000):
        n = rng.randrange(1, 6)
        plan = []
        wf = i % 3 != 0
        for k in range(n):
            last = k == n - 1
            if wf:
                if last and rng.random() < 0.4:
                    plan.append((k, False, rng.choice(outs), (100 + k, True, rng.choice(outs))))
                else:
                    plan.append((k, last, rng.choice(outs), None))
            else:
                after = (100 + k, rng.random() < 0.5, rng.choice(outs)) if rng.random() < 0.3 else None
                plan.append((k, rng.random() < 0.4, rng.choice(outs), after))
        plans.append(plan)
    lines = []
    for plan in plans:
        enc = ';'.join(','.join([str(i), '1' if f else '0', o] + ([str(a[0]), '1' if a[1] else '0', a[2]] if a else []))
                       for i, f, o, a in plan)
        lines.append('serial run %s' % enc)
    try:
        model = run_driver(lines)
    except DriverError as e:
        res.error = 'driver: %s' % e
        return res
    for plan, line, m in zip(plans, lines, model):
        impl = real_plan(plan)
        res.ops += 1
        kinds = {o for _, _, o, a in plan} | {a[2] for _, _, _, a in plan if a}
        res.note_case(tuple(plan), bool(kinds - {'ok'}), {'plan': line} if len(res.samples) < 2 else None)
        for o in kinds:
            res.hit('out:' + o)
        if impl != m:
            res.mismatches.append({'component': 'serial-manager', 'case': {'plan': line}, 'ops': [line],
                                   'first_diverging_op': line, 'impl': impl, 'model': m})
    return res
