"""Args component (C15): kwargs of every call reaching the (fake) client, end to end, for every
allowed argument name of every transfer method in every mode — compared with S3V.Model.Args, and
judged directly against the installed botocore S3 input shapes."""
import io
import os
import shutil
import tempfile

from common import CorrResult, compare_with_model, rng_for
from fakes3 import FakeS3
from oracle import OracleResult

FIXED = {'Bucket', 'Key', 'Body', 'UploadId', 'PartNumber', 'MultipartUpload', 'CopySource',
         'CopySourceRange', 'Range'}
FO = ['ChecksumCRC32', 'ChecksumCRC32C', 'ChecksumCRC64NVME', 'ChecksumSHA1', 'ChecksumSHA256']


def value_for(name):
    if name == 'ChecksumAlgorithm':
        return 'CRC32'
    return 'v%s' % name


def _tm(fake, **cfg):
    from s3transfer.futures import NonThreadedExecutor
    from s3transfer.manager import TransferConfig, TransferManager
    return TransferManager(fake, TransferConfig(**cfg), executor_cls=NonThreadedExecutor)


def canon_calls(fake, ops_order):
    """one entry per operation type in model order; extra kwargs (non-fixed) sorted; identical
    for every call of that type (checked)"""
    out = []
    problems = []
    for op in ops_order:
        reqs = fake.requests(op)
        if not reqs:
            problems.append('no %s request' % op)
            continue
        sets = []
        for r in reqs:
            kv = sorted('%s=%s' % (k, v) for k, v in r['args'].items() if k not in FIXED)
            sets.append(','.join(kv))
        if len(set(sets)) != 1:
            problems.append('%s calls differ: %r' % (op, sorted(set(sets))))
        out.append('%s:%s' % (op, sets[0]))
    return '|'.join(out), problems


DATA = bytes(range(11))


def run_mode(mode, extra, tmpdir):
    """Run the real code in `mode` with extra_args `extra`; returns (canonical calls, fake, error)"""
    fake = FakeS3()
    fake.objects[('b', 'k')] = DATA
    fake.objects[('sb', 'sk')] = DATA
    err = None
    order = None
    try:
        if mode == 'upload-single':
            order = ['put_object']
            with _tm(fake, multipart_threshold=100) as tm:
                tm.upload(io.BytesIO(DATA), 'b', 'k2', extra_args=dict(extra)).result()
        elif mode == 'upload-multipart':
            order = ['create_multipart_upload', 'upload_part', 'complete_multipart_upload']
            with _tm(fake, multipart_threshold=5) as tm:
                tm.upload(io.BytesIO(DATA), 'b', 'k2', extra_args=dict(extra)).result()
        elif mode in ('download', 'download-known', 'download-ranged'):
            order = ['get_object'] if mode == 'download-known' else ['head_object', 'get_object']
            thr = 5 if mode == 'download-ranged' else 100
            from s3transfer.subscribers import BaseSubscriber

            class Sz(BaseSubscriber):
                def on_queued(self, future, **kw):
                    future.meta.provide_transfer_size(len(DATA))
            subs = [Sz()] if mode == 'download-known' else []
            with _tm(fake, multipart_threshold=thr, multipart_chunksize=4) as tm:
                tm.download('b', 'k', io.BytesIO(), extra_args=dict(extra), subscribers=subs).result()
        elif mode == 'copy-single':
            order = ['head_object', 'copy_object']
            with _tm(fake, multipart_threshold=100) as tm:
                tm.copy({'Bucket': 'sb', 'Key': 'sk'}, 'b', 'k2', extra_args=dict(extra)).result()
        elif mode == 'copy-multipart':
            order = ['head_object', 'create_multipart_upload', 'upload_part_copy', 'complete_multipart_upload']
            with _tm(fake, multipart_threshold=5) as tm:
                tm.copy({'Bucket': 'sb', 'Key': 'sk'}, 'b', 'k2', extra_args=dict(extra)).result()
        elif mode == 'delete':
            order = ['delete_object']
            with _tm(fake) as tm:
                tm.delete('b', 'k', extra_args=dict(extra)).result()
        elif mode in ('legacy-upload-single', 'legacy-upload-multipart'):
            from s3transfer import S3Transfer, TransferConfig
            path = os.path.join(tmpdir, 'src')
            with open(path, 'wb') as f:
                f.write(DATA)
            if mode.endswith('single'):
                order = ['put_object']
                cfg = TransferConfig(multipart_threshold=100)
            else:
                order = ['create_multipart_upload', 'upload_part', 'complete_multipart_upload']
                cfg = TransferConfig(multipart_threshold=5, multipart_chunksize=4, max_concurrency=1)
            S3Transfer(fake, cfg).upload_file(path, 'b', 'k2', extra_args=dict(extra))
        elif mode in ('legacy-download', 'legacy-download-ranged'):
            from s3transfer import S3Transfer, TransferConfig
            order = ['head_object', 'get_object']
            cfg = TransferConfig(multipart_threshold=100 if mode == 'legacy-download' else 5,
                                 multipart_chunksize=4, max_concurrency=1)
            S3Transfer(fake, cfg).download_file('b', 'k', os.path.join(tmpdir, 'dst'), extra_args=dict(extra))
        else:
            raise AssertionError(mode)
    except Exception as e:   # noqa
        err = e
    calls, problems = ('', []) if order is None or err is not None else canon_calls(fake, order)
    return calls, problems, fake, err


MODES = {
    'upload-single': ('ALLOWED_UPLOAD_ARGS', 'upload-single'),
    'upload-multipart': ('ALLOWED_UPLOAD_ARGS', 'upload-multipart'),
    'download': ('ALLOWED_DOWNLOAD_ARGS', 'download'),
    'download-known': ('ALLOWED_DOWNLOAD_ARGS', 'download-known'),
    'download-ranged': ('ALLOWED_DOWNLOAD_ARGS', 'download'),
    'copy-single': ('ALLOWED_COPY_ARGS', 'copy-single'),
    'copy-multipart': ('ALLOWED_COPY_ARGS', 'copy-multipart'),
    'delete': ('ALLOWED_DELETE_ARGS', 'delete'),
    'legacy-upload-single': ('legacy-up', 'legacy-upload-single'),
    'legacy-upload-multipart': ('legacy-up', 'legacy-upload-multipart'),
    'legacy-download': ('legacy-down', 'legacy-download'),
    'legacy-download-ranged': ('legacy-down', 'legacy-download'),
}


def allowed_names(key):
    from s3transfer import S3Transfer
    from s3transfer.manager import TransferManager
    if key == 'legacy-up':
        return list(S3Transfer.ALLOWED_UPLOAD_ARGS)
    if key == 'legacy-down':
        return list(S3Transfer.ALLOWED_DOWNLOAD_ARGS)
    return list(getattr(TransferManager, key))


def _dicts_for(mode, names, rng, tier):
    ds = [[]]
    ds += [[(n, value_for(n))] for n in names]
    nsub = 6 if tier == 'quick' else 60
    for _ in range(nsub):
        k = rng.randrange(2, 6)
        sub = rng.sample(names, min(k, len(names)))
        # at most one full-object checksum, as a user would supply
        fo = [n for n in sub if n in FO]
        for n in fo[1:]:
            sub.remove(n)
        ds.append([(n, value_for(n)) for n in sub])
    return ds


def corr(seed, tier):
    res = CorrResult('args')
    rng = rng_for(seed, 'args')
    cases = []
    tmpdir = tempfile.mkdtemp(prefix='s3v-args-')
    try:
        for mode, (akey, model_mode) in MODES.items():
            names = allowed_names(akey)
            for d in _dicts_for(mode, names, rng, tier):
                calls, problems, fake, err = run_mode(mode, d, tmpdir)
                if err is not None:
                    impl = 'error:%s' % type(err).__name__
                elif problems:
                    impl = 'problem:%s' % problems[0]
                else:
                    impl = calls
                arg = ','.join('%s=%s' % kv for kv in d) or '-'
                cases.append(({'mode': mode, 'extra_args': dict(d)}, [('args %s %s' % (model_mode, arg), impl)]))
                res.note_case((mode, tuple(d)), len(d) >= 1, {'mode': mode, 'extra_args': dict(d)})
                res.hit('mode:' + mode)
                res.hit('dict-size:%d' % min(len(d), 3))
        # default checksum (client configured with when_supported)
        for d in [[], [('ChecksumAlgorithm', 'SHA256')], [('ChecksumCRC32', 'x')], [('ACL', 'private')]]:
            from s3transfer.utils import set_default_checksum_algorithm
            dd = dict(d)
            set_default_checksum_algorithm(dd)
            impl = ','.join(sorted('%s=%s' % kv for kv in dd.items()))
            arg = ','.join('%s=%s' % kv for kv in d) or '-'
            cases.append(({'mode': 'default-checksum', 'extra_args': dict(d)}, [('args default-checksum %s' % arg, impl)]))
            res.note_case(('defck', tuple(d)), True, None)
    finally:
        shutil.rmtree(tmpdir, ignore_errors=True)
    compare_with_model(res, cases)
    return res


# ---------------------------------------------------------------------------
_shapes = None


def shapes():
    global _shapes
    if _shapes is None:
        import extract
        s, _ = extract.s3_shapes()
        _shapes = {k: set(v) for k, v in s.items()}
    return _shapes


PY2OP = {'head_object': 'HeadObject', 'get_object': 'GetObject', 'put_object': 'PutObject',
         'create_multipart_upload': 'CreateMultipartUpload', 'upload_part': 'UploadPart',
         'upload_part_copy': 'UploadPartCopy', 'complete_multipart_upload': 'CompleteMultipartUpload',
         'copy_object': 'CopyObject', 'delete_object': 'DeleteObject',
         'abort_multipart_upload': 'AbortMultipartUpload'}
COPY_HEAD_MAP = {'CopySourceIfMatch': 'IfMatch', 'CopySourceIfModifiedSince': 'IfModifiedSince',
                 'CopySourceIfNoneMatch': 'IfNoneMatch', 'CopySourceIfUnmodifiedSince': 'IfUnmodifiedSince',
                 'CopySourceSSECustomerKey': 'SSECustomerKey', 'CopySourceSSECustomerAlgorithm': 'SSECustomerAlgorithm',
                 'CopySourceSSECustomerKeyMD5': 'SSECustomerKeyMD5'}


def oracle(seed, tier):
    """The statement judged directly: every allowed name reaches exactly the operations whose
    shape has it (stated exceptions only), unmodified; nothing unknown is sent; names outside the
    allow-list raise before any request."""
    res = OracleResult('C15')
    sh = shapes()
    tmpdir = tempfile.mkdtemp(prefix='s3v-argso-')
    try:
        for mode, (akey, _m) in MODES.items():
            names = allowed_names(akey)
            for n in names:
                v = value_for(n)
                calls, problems, fake, err = run_mode(mode, [(n, v)], tmpdir)
                res.evaluations += 1
                if res.enough():
                    break
                wit = {'mode': mode, 'extra_args': {n: v}}
                if err is not None:
                    res.violation('transfer-failed:%s' % mode, wit, 'transfer raised %r' % err)
                    continue
                for p in problems:
                    res.violation('calls-differ:%s' % mode, wit, p)
                for r in fake.requests():
                    op = PY2OP[r['op']]
                    if op == 'AbortMultipartUpload':
                        continue
                    unknown = [k for k in r['args'] if k not in sh[op]]
                    if unknown:
                        res.violation('unknown-arg:%s:%s:%s' % (mode.split('-')[0], op, unknown[0]), dict(wit, call=op),
                                      '%s: %s received unknown parameter %s' % (mode, op, unknown))
                    accepted = n in sh[op]
                    got = n in r['args']
                    is_copy_head = mode.startswith('copy') and op == 'HeadObject'
                    if is_copy_head:
                        # the source head receives the mapped name
                        if n in COPY_HEAD_MAP:
                            if r['args'].get(COPY_HEAD_MAP[n]) != v:
                                res.violation('copy-head-mapping:%s' % n, dict(wit, call=op),
                                              'copy: %s not mapped to HeadObject %s' % (n, COPY_HEAD_MAP[n]))
                            continue
                        if n in ('SSECustomerAlgorithm', 'SSECustomerKey', 'SSECustomerKeyMD5'):
                            if got:
                                res.violation('copy-head-dest-ssec', dict(wit, call=op),
                                              'destination SSE-C argument %s sent to the source HeadObject' % n)
                            continue
                    if n in FO and op == 'UploadPart':
                        if got:
                            res.violation('full-object-checksum-on-part', dict(wit, call=op),
                                          'full-object checksum %s sent to UploadPart' % n)
                        continue
                    if got != accepted:
                        sig = 'not-forwarded' if accepted else 'forwarded-not-accepted'
                        res.violation('%s:%s:%s:%s' % (sig, mode, op, n), dict(wit, call=op),
                                      '%s: %s %s %s' % (mode, n, 'is accepted by but not sent to' if accepted else
                                                        'is sent to but not accepted by', op))
                    elif got and r['args'][n] != v:
                        res.violation('value-modified:%s:%s' % (mode, n), dict(wit, call=op),
                                      '%s: value of %s changed to %r' % (mode, n, r['args'][n]))
                if n in FO and mode == 'upload-multipart':
                    cr = fake.requests('create_multipart_upload')[0]['args']
                    co = fake.requests('complete_multipart_upload')[0]['args']
                    if cr.get('ChecksumType') != 'FULL_OBJECT' or cr.get('ChecksumAlgorithm') != n.replace('Checksum', '') \
                            or co.get('ChecksumType') != 'FULL_OBJECT':
                        res.violation('full-object-checksum-type', wit, 'ChecksumType/Algorithm not added for %s' % n)
                res.nontrivial.add((mode, n))
            # a name outside the allow-list: rejected before any request
            calls, problems, fake, err = run_mode(mode, [('NotAnS3Argument', 'x')], tmpdir)
            res.evaluations += 1
            if res.enough():
                break
            if not isinstance(err, ValueError) or fake.requests():
                res.violation('unknown-not-rejected:%s' % mode, {'mode': mode},
                              'argument outside the allow-list: error %r, %d requests made' % (err, len(fake.requests())))
        # failing multipart transfers: the AbortMultipartUpload of the cleanup must only carry parameters it has
        from fakes3 import FaultPlan, InjectedFault
        for mode, akey in (('upload-multipart', 'ALLOWED_UPLOAD_ARGS'), ('copy-multipart', 'ALLOWED_COPY_ARGS')):
            names = allowed_names(akey)
            groups = [[n] for n in names] + [[n for n in names if n.startswith('SSECustomer')],
                                             [n for n in names if n in ('RequestPayer', 'ExpectedBucketOwner')]]
            for grp in groups:
                if not grp:
                    continue
                extra = [(n, value_for(n)) for n in grp if not (n in FO and len([g for g in grp if g in FO]) > 1)]
                fake = FakeS3(fault_plan=FaultPlan([{'op': 'upload_part' if mode.startswith('upload') else 'upload_part_copy',
                                                      'nth': 0, 'when': 'before', 'exc': lambda: InjectedFault('part')}]))
                fake.objects[('sb', 'sk')] = DATA
                err = None
                try:
                    with _tm(fake, multipart_threshold=5) as tm:
                        if mode.startswith('upload'):
                            tm.upload(io.BytesIO(DATA), 'b', 'k2', extra_args=dict(extra)).result()
                        else:
                            tm.copy({'Bucket': 'sb', 'Key': 'sk'}, 'b', 'k2', extra_args=dict(extra)).result()
                except Exception as e:      # noqa
                    err = e
                res.evaluations += 1
                wit = {'mode': mode + ' with a failing part', 'extra_args': dict(extra)}
                aborts = fake.requests('abort_multipart_upload')
                if not isinstance(err, InjectedFault):
                    res.violation('failing-part-not-reported:%s' % mode, wit, 'expected the part failure, got %r' % err)
                if len(aborts) != 1:
                    res.violation('abort-count:%s' % mode, wit, '%d AbortMultipartUpload requests after a failed part' % len(aborts))
                for r in aborts:
                    unknown = [k for k in r['args'] if k not in sh['AbortMultipartUpload']]
                    if unknown:
                        res.violation('unknown-arg:%s:AbortMultipartUpload:%s' % (mode.split('-')[0], unknown[0]), wit,
                                      'AbortMultipartUpload received %s, which it does not have' % unknown)
                for uid, up in fake.uploads.items():
                    if up['state'] == 'open':
                        res.violation('left-open-after-failure:%s' % mode, wit, 'upload %s left open (the abort did not reach the service)' % uid)
                res.nontrivial.add((mode, 'fail', tuple(grp)))
        res.samples.append({'mode': 'copy-multipart', 'extra_args': {'CopySourceIfMatch': 'vCopySourceIfMatch'}})
        res.samples.append({'mode': 'upload-multipart', 'extra_args': {'ChecksumCRC32': 'vChecksumCRC32'}})
    finally:
        shutil.rmtree(tmpdir, ignore_errors=True)
    return res


# ---------------------------------------------------------------------------
# one manager, many calls: validation must not depend on what was accepted before

def _hist_call(kind, tm, legacy, extra, tmpdir):
    if kind == 'upload':
        return tm.upload(io.BytesIO(DATA), 'b', 'k2', extra_args=dict(extra)).result()
    if kind == 'download':
        return tm.download('b', 'k', io.BytesIO(), extra_args=dict(extra)).result()
    if kind == 'copy':
        return tm.copy({'Bucket': 'sb', 'Key': 'sk'}, 'b', 'k2', extra_args=dict(extra)).result()
    if kind == 'delete':
        return tm.delete('b', 'k', extra_args=dict(extra)).result()
    if kind == 'legacy-upload':
        path = os.path.join(tmpdir, 'src')
        with open(path, 'wb') as f:
            f.write(DATA)
        return legacy.upload_file(path, 'b', 'k2', extra_args=dict(extra))
    if kind == 'legacy-download':
        return legacy.download_file('b', 'k', os.path.join(tmpdir, 'dst'), extra_args=dict(extra))
    raise AssertionError(kind)


HIST_KINDS = {'upload': 'ALLOWED_UPLOAD_ARGS', 'download': 'ALLOWED_DOWNLOAD_ARGS', 'copy': 'ALLOWED_COPY_ARGS',
              'delete': 'ALLOWED_DELETE_ARGS', 'legacy-upload': 'legacy-up', 'legacy-download': 'legacy-down'}


def history_oracle(seed, tier):
    """Sequences of transfers through ONE TransferManager and ONE S3Transfer: at every step a name
    outside that method's allow-list is rejected before any request, whatever was accepted before;
    a legal call succeeds and sends nothing a botocore shape does not have."""
    from s3transfer import S3Transfer, TransferConfig as LegacyConfig
    res = OracleResult('C15')
    rng = rng_for(seed, 'args-history')
    sh = shapes()
    allowed = {k: allowed_names(v) for k, v in HIST_KINDS.items()}
    union = sorted(set().union(*allowed.values()))
    tmpdir = tempfile.mkdtemp(prefix='s3v-argsh-')
    try:
        for _ in range(40 if tier == 'quick' else 1500):
            fake = FakeS3()
            fake.objects[('b', 'k')] = DATA
            fake.objects[('sb', 'sk')] = DATA
            tm = _tm(fake, multipart_threshold=100 if rng.random() < 0.5 else 5)
            legacy = S3Transfer(fake, LegacyConfig(multipart_threshold=100, max_concurrency=1))
            hist = []
            accepted_sets = []
            try:
                for _step in range(rng.randrange(2, 7)):
                    kind = rng.choice(list(HIST_KINDS))
                    r = rng.random()
                    if accepted_sets and r < 0.5:
                        names = list(rng.choice(accepted_sets))       # exactly a set of names seen before
                    elif r < 0.8:
                        names = rng.sample(allowed[kind], rng.randrange(0, 3))
                    else:
                        names = rng.sample(union, rng.randrange(1, 3))
                    fo = [n for n in names if n in FO]
                    for n in fo[1:]:
                        names.remove(n)
                    extra = [(n, value_for(n)) for n in names]
                    legal = all(n in allowed[kind] for n in names)
                    fake.objects[('b', 'k')] = DATA      # a delete earlier in the history removed it
                    before = len(fake.requests())
                    err = None
                    try:
                        _hist_call(kind, tm, legacy, extra, tmpdir)
                    except Exception as e:      # noqa
                        err = e
                    new = fake.requests()[before:]
                    hist.append({'method': kind, 'extra_args': dict(extra)})
                    res.evaluations += 1
                    if res.enough():
                        break
                    wit = {'history': list(hist)}
                    if legal:
                        accepted_sets.append(tuple(names))
                        if err is not None:
                            res.violation('history:legal-call-failed:%s' % kind, wit, '%s with allowed arguments raised %r' % (kind, err))
                        for rq in new:
                            op = PY2OP[rq['op']]
                            unknown = [k for k in rq['args'] if k not in sh[op]]
                            if unknown and op != 'AbortMultipartUpload':
                                res.violation('history:unknown-arg:%s:%s' % (kind, op), wit, '%s received unknown parameter %s' % (op, unknown))
                    else:
                        bad = [n for n in names if n not in allowed[kind]]
                        if not isinstance(err, ValueError) or new:
                            res.violation('history:unknown-not-rejected:%s' % kind, wit,
                                          '%s with %s outside its allow-list: error %r, %d requests made' % (kind, bad, err, len(new)))
                    res.nontrivial.add((kind, legal, len(hist) > 1, tuple(sorted(names)) in {tuple(sorted(a)) for a in accepted_sets[:-1]}))
            finally:
                tm.shutdown()
            if len(res.samples) < 2:
                res.samples.append({'history': hist})
    finally:
        shutil.rmtree(tmpdir, ignore_errors=True)
    return res


def _canon_reqs(reqs):
    return [(r['op'], tuple(sorted((k, repr(v)) for k, v in r['args'].items() if k not in FIXED and k not in ('UploadId', 'MultipartUpload'))))
            for r in reqs]


def caller_dict_oracle(seed, tier):
    """What reaches S3 is what was passed to the call: the caller's `extra_args` dict is the caller's.
    One dict object is reused from call to call (the usual loop over files).  Each transfer's requests
    must equal those of the same call made with a private copy on a fresh manager, and the library must
    leave the caller's dict as it found it (otherwise what it added is sent with the next call).
    Both checksum configurations of the client."""
    from s3transfer.subscribers import BaseSubscriber
    res = OracleResult('C15')
    rng = rng_for(seed, 'args-caller-dict')
    kinds = ['upload', 'download', 'copy', 'delete']
    allowed = {k: allowed_names(HIST_KINDS[k]) for k in kinds}
    # first, systematically: both checksum configurations x single / multipart x each full-object checksum argument,
    # an upload carrying it followed by plain uploads through the same dict object
    planned = [(rcc0, thr0, fo0) for rcc0 in ('when_supported', 'when_required') for thr0 in (100, 5) for fo0 in sorted(FO)]
    for it_ in range(len(planned) + (150 if tier == 'quick' else 3000)):
        rcc = rng.choice(['when_supported', 'when_required'])
        thr = rng.choice([100, 5])
        plan = None
        if it_ < len(planned):
            rcc, thr, plan = planned[it_]
        fake = FakeS3(request_checksum_calculation=rcc)
        fake.objects[('b', 'k')] = DATA
        fake.objects[('sb', 'sk')] = DATA
        tm = _tm(fake, multipart_threshold=thr)
        shared = {}
        hist = []
        try:
            for _step in range(3 if plan else rng.randrange(1, 5)):
                kind = rng.choice(kinds)
                names = rng.sample(allowed[kind], rng.randrange(0, 4))
                if plan:
                    kind = 'upload'
                    names = [plan] if _step == 0 and plan in allowed['upload'] else []
                fo = [n for n in names if n in FO]
                for n in fo[1:]:
                    names.remove(n)
                snapshot = {n: value_for(n) for n in names}
                shared.clear()
                shared.update(snapshot)
                empties = False    # (a caller changing its dict while the transfer is queued is the caller's business: download / copy / delete keep a reference)

                class Caller(BaseSubscriber):
                    def on_queued(self, future, **kw):
                        if empties:
                            shared.clear()
                fake.objects[('b', 'k')] = DATA
                before = len(fake.requests())
                err = None
                try:
                    if kind == 'upload':
                        tm.upload(io.BytesIO(DATA), 'b', 'k2', extra_args=shared, subscribers=[Caller()]).result()
                    elif kind == 'download':
                        tm.download('b', 'k', io.BytesIO(), extra_args=shared, subscribers=[Caller()]).result()
                    elif kind == 'copy':
                        tm.copy({'Bucket': 'sb', 'Key': 'sk'}, 'b', 'k2', extra_args=shared, subscribers=[Caller()]).result()
                    else:
                        tm.delete('b', 'k', extra_args=shared, subscribers=[Caller()]).result()
                except Exception as e:   # noqa
                    err = e
                got = _canon_reqs(fake.requests()[before:])
                # reference: the same call with a private copy, nothing shared, fresh manager
                ref_fake = FakeS3(request_checksum_calculation=rcc)
                ref_fake.objects[('b', 'k')] = DATA
                ref_fake.objects[('sb', 'sk')] = DATA
                ref_tm = _tm(ref_fake, multipart_threshold=thr)
                ref_err = None
                try:
                    _hist_call(kind, ref_tm, None, list(snapshot.items()), None)
                except Exception as e:   # noqa
                    ref_err = e
                finally:
                    ref_tm.shutdown()
                want = _canon_reqs(ref_fake.requests())
                hist.append({'method': kind, 'extra_args': dict(snapshot), 'caller_empties_its_dict_while_queued': empties})
                res.evaluations += 1
                res.hit('%s:%s:%s' % (kind, rcc, 'multipart' if thr == 5 else 'single'))
                wit = {'request_checksum_calculation': rcc, 'multipart_threshold': thr, 'history': list(hist)}
                if (err is None) != (ref_err is None) or got != want:
                    diff = [x for x in got if x not in want][:2] + [('missing',) + x for x in want if x not in got][:2]
                    res.violation('caller-dict:requests-differ:%s' % kind, wit,
                                  '%s sent %r; the same call with a private copy of extra_args sends otherwise (error %r / %r)' % (kind, diff, err, ref_err))
                if not empties and shared != snapshot:
                    res.violation('caller-dict:modified:%s' % kind, dict(wit, after=dict(shared)),
                                  "%s changed the caller's extra_args: %r became %r" % (kind, snapshot, dict(shared)))
                if names:
                    res.nontrivial.add((kind, rcc, thr, tuple(sorted(names)), empties))
                if res.enough():
                    break
        finally:
            tm.shutdown()
        if res.enough():
            break
    res.samples.append({'history': hist, 'request_checksum_calculation': rcc})
    return res


def provided_size_oracle(seed, tier):
    """C08: a size supplied during on_queued suppresses the size-discovery request — for downloads and
    copies, for every size including 0, and the transfer still moves exactly that object."""
    from s3transfer.subscribers import BaseSubscriber
    res = OracleResult('C08')
    for kind in ('download', 'copy'):
        for size in (0, 1, 5, 11):
            for thr in (4, 100):
                data = bytes(range(size))
                fake = FakeS3()
                fake.objects[('b', 'k')] = data
                fake.objects[('sb', 'sk')] = data

                class Sz(BaseSubscriber):
                    def on_queued(self, future, **kw):
                        future.meta.provide_transfer_size(size)
                err = None
                try:
                    with _tm(fake, multipart_threshold=thr, multipart_chunksize=4) as tm:
                        if kind == 'download':
                            tm.download('b', 'k', io.BytesIO(), subscribers=[Sz()]).result()
                        else:
                            tm.copy({'Bucket': 'sb', 'Key': 'sk'}, 'b', 'k2', subscribers=[Sz()]).result()
                except Exception as e:      # noqa
                    err = e
                res.evaluations += 1
                wit = {'transfer': kind, 'size_supplied_in_on_queued': size, 'multipart_threshold': thr}
                res.nontrivial.add((kind, size, thr))
                if err is not None:
                    res.violation('provided-size-transfer-failed:%s' % kind, wit, '%s with a supplied size raised %r' % (kind, err))
                heads = fake.requests('head_object')
                if heads:
                    res.violation('head-despite-provided-size:%s:%s' % (kind, 'zero' if size == 0 else 'nonzero'), wit,
                                  'size %d was supplied in on_queued but %d HeadObject request(s) were issued' % (size, len(heads)))
    res.samples.append(wit)
    return res
