"""Result container for the direct property oracles (they judge real runs of /repo against
the property statement, independently of the Lean model)."""


class OracleResult:
    def __init__(self, prop):
        self.prop = prop
        self.evaluations = 0
        self.nontrivial = set()
        self.samples = []
        self.violations = []     # dicts: {signature, witness, what}
        self.distribution = {}
        self.error = None

    def hit(self, key, n=1):
        self.distribution[key] = self.distribution.get(key, 0) + n

    def violation(self, signature, witness, what):
        # keep one witness per signature plus a count, so the report stays readable
        for v in self.violations:
            if v['signature'] == signature:
                v['count'] += 1
                return
        self.violations.append({'signature': signature, 'witness': witness, 'what': what, 'count': 1})

    def enough(self):
        """A failing check does bounded work: once a violation has been seen often enough (or several
        different ones were found) the search stops — one replay per signature is all that is reported."""
        return len(self.violations) >= 4 or any(v['count'] >= 20 for v in self.violations)

    def merge(self, other):
        self.evaluations += other.evaluations
        self.nontrivial |= {(other.prop,) + (x if isinstance(x, tuple) else (x,)) for x in other.nontrivial}
        self.samples.extend(other.samples[:2])
        for v in other.violations:
            self.violations.append(v)
        for k, n in other.distribution.items():
            self.hit(k, n)
        if other.error and not self.error:
            self.error = other.error
