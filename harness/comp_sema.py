"""Sema component (C12): SlidingWindowSemaphore / TaskSemaphore / CountCallbackInvoker
against S3V.Model.Sema, and the direct C12 oracle (a reference semaphore written from the
property statement) on the real classes."""
import itertools

from common import CorrResult, compare_with_model, rng_for
from oracle import OracleResult


def _real_sws(cap):
    from s3transfer.utils import SlidingWindowSemaphore
    return SlidingWindowSemaphore(cap)


def _apply_real(sem, op):
    from s3transfer.utils import NoResourcesAvailable
    if op[0] == 'acq':
        try:
            return 'token %d' % sem.acquire('t%d' % op[1], blocking=False)
        except NoResourcesAvailable:
            return 'no-resources'
    if op[0] == 'rel':
        try:
            sem.release('t%d' % op[1], op[2])
            return 'ok'
        except ValueError:
            return 'value-error'
    if op[0] == 'count':
        return str(sem.current_count())
    raise AssertionError(op)


def _line(op):
    if op[0] == 'acq':
        return 'sema acq %d' % op[1]
    if op[0] == 'rel':
        return 'sema rel %d %d' % (op[1], op[2])
    return 'sema count'


def gen_history(rng, cap, ntags, length, malformed):
    """Mostly valid histories: release tokens that are outstanding, in shuffled order; the
    malformed stream adds unknown tags, never-issued and already-released tokens."""
    ops = []
    outstanding = {t: [] for t in range(ntags)}
    nxt = {t: 0 for t in range(ntags)}
    free = cap
    released = {t: [] for t in range(ntags)}
    for _ in range(length):
        r = rng.random()
        live = [(t, k) for t in outstanding for k in outstanding[t]]
        if malformed and r < 0.25:
            t = rng.randrange(ntags + 1)
            choice = rng.random()
            if choice < 0.4 and released.get(t):
                k = rng.choice(released[t])
            elif choice < 0.8:
                k = nxt.get(t, 0) + rng.randrange(0, 2)
            else:
                k = rng.randrange(0, 6)
            ops.append(('rel', t, k))
            # keep bookkeeping right if it happened to be valid
            if t in outstanding and k in outstanding[t]:
                outstanding[t].remove(k)
                released[t].append(k)
        elif live and (r < 0.55 or free == 0 and r < 0.9):
            t, k = rng.choice(live)
            outstanding[t].remove(k)
            released[t].append(k)
            ops.append(('rel', t, k))
            if not any(j < k for j in outstanding[t]):
                pass
        else:
            t = rng.randrange(ntags)
            ops.append(('acq', t))
            if free > 0:
                outstanding[t].append(nxt[t])
                nxt[t] += 1
        # recompute free by the reference rule
        free = cap - sum(nxt[t] - (min(outstanding[t]) if outstanding[t] else nxt[t]) for t in outstanding)
        ops.append(('count',))
    return ops


def exhaustive_histories(cap, ntags, length):
    alphabet = [('acq', t) for t in range(ntags)] + \
               [('rel', t, k) for t in range(ntags) for k in range(0, 3)]
    for seq in itertools.product(alphabet, repeat=length):
        yield list(seq)


def corr(seed, tier):
    res = CorrResult('sema')
    rng = rng_for(seed, 'sema')
    cases = []
    n_rand = 400 if tier == 'quick' else 6000
    histories = []
    for i in range(n_rand):
        cap = rng.randrange(1, 4)
        ntags = rng.randrange(1, 4)
        histories.append((cap, gen_history(rng, cap, ntags, rng.randrange(4, 40), malformed=(i % 3 == 0))))
    # exhaustive short histories (one tag, and two tags at shorter length)
    ex_len = 4 if tier == 'quick' else 6
    for cap in (1, 2, 3):
        for h in exhaustive_histories(cap, 1, ex_len):
            histories.append((cap, h + [('count',)]))
    for h in exhaustive_histories(2, 2, 3 if tier == 'quick' else 4):
        histories.append((2, h + [('count',)]))
    # the D11 / D15 witnesses always run first in the corpus sense
    histories.insert(0, (3, [('acq', 0)] * 3 + [('rel', 0, 1), ('rel', 0, 1), ('rel', 0, 0), ('acq', 0),
                             ('rel', 0, 3), ('rel', 0, 2), ('count',)]))
    histories.insert(0, (3, [('acq', 0), ('rel', 0, 0), ('rel', 0, 1), ('count',)]))
    for cap, h in histories:
        sem = _real_sws(cap)
        ops = [('sema new %d' % cap, 'ok')]
        errs = set()
        for op in h:
            out = _apply_real(sem, op)
            ops.append((_line(op), out))
            if out in ('no-resources', 'value-error'):
                errs.add(out)
                res.hit(out)
            else:
                res.hit(op[0])
        nontrivial = any(o[0] == 'rel' for o in h) and any(o[0] == 'acq' for o in h)
        res.note_case((cap, tuple(h)), nontrivial, {'cap': cap, 'ops': [_line(o) for o in h[:12]]})
        cases.append(({'cap': cap, 'history': [list(o) for o in h]}, ops))
    # TaskSemaphore + CountCallbackInvoker
    from s3transfer.utils import CountCallbackInvoker, NoResourcesAvailable, TaskSemaphore
    for i in range(60 if tier == 'quick' else 600):
        cap = rng.randrange(1, 4)
        ts = TaskSemaphore(cap)
        ops = [('tsem new %d' % cap, 'ok')]
        held = 0
        for _ in range(rng.randrange(1, 20)):
            if rng.random() < 0.6 or held == 0:
                try:
                    ts.acquire('x', blocking=False)
                    ops.append(('tsem acq', 'ok'))
                    held += 1
                except NoResourcesAvailable:
                    ops.append(('tsem acq', 'no-resources'))
            else:
                ts.release('x', None)
                held -= 1
                ops.append(('tsem rel', 'ok'))
        fired = []
        cci = CountCallbackInvoker(lambda: fired.append(1))
        ops.append(('cci new', 'ok'))
        for _ in range(rng.randrange(1, 16)):
            r = rng.random()
            before = len(fired)
            try:
                if r < 0.45:
                    cci.increment(); name = 'inc'
                elif r < 0.85:
                    cci.decrement(); name = 'dec'
                else:
                    cci.finalize(); name = 'fin'
                out = 'fired' if len(fired) > before else 'ok'
            except RuntimeError:
                name = 'inc' if r < 0.45 else 'dec'
                out = 'runtime-error'
            ops.append(('cci ' + name, out))
            ops.append(('cci count', str(cci.current_count)))
        res.note_case(('tsem-cci', i), True, None)
        cases.append(({'kind': 'tsem+cci', 'i': i}, ops))
    compare_with_model(res, cases)
    return res


# ---------------------------------------------------------------------------
class RefSemaphore:
    """Reference written from the property statement: per tag the set of outstanding tokens;
    free = cap - sum over tags of (newest+1 - lowest unreleased)."""

    def __init__(self, cap):
        self.cap = cap
        self.next = {}
        self.out = {}

    def free(self):
        return self.cap - sum(self.next[t] - (min(self.out[t]) if self.out[t] else self.next[t])
                              for t in self.next)

    def acquire(self, t):
        if self.free() == 0:
            return 'no-resources'
        k = self.next.get(t, 0)
        self.next[t] = k + 1
        self.out.setdefault(t, set()).add(k)
        return 'token %d' % k

    def release(self, t, k):
        if t not in self.next or k not in self.out[t]:
            return 'value-error'
        self.out[t].remove(k)
        return 'ok'


def oracle(seed, tier):
    res = OracleResult('C12')
    rng = rng_for(seed, 'sema-oracle')
    histories = []
    ex_len = 5 if tier == 'quick' else 7
    for cap in (1, 2, 3):
        for h in exhaustive_histories(cap, 1, ex_len):
            histories.append((cap, h))
    for h in exhaustive_histories(2, 2, 4 if tier == 'quick' else 5):
        histories.append((2, h))
    for i in range(300 if tier == 'quick' else 5000):
        cap = rng.randrange(1, 4)
        histories.append((cap, [o for o in gen_history(rng, cap, rng.randrange(1, 4), rng.randrange(4, 40), i % 2 == 0)
                                if o[0] != 'count']))
    histories.append((3, [('acq', 0)] * 3 + [('rel', 0, 1), ('rel', 0, 1), ('rel', 0, 0), ('acq', 0),
                          ('rel', 0, 3), ('rel', 0, 2)]))
    for cap, h in histories:
        sem = _real_sws(cap)
        ref = RefSemaphore(cap)
        res.evaluations += 1
        if res.enough():
            break
        interesting = False
        for i, op in enumerate(h):
            got = _apply_real(sem, op)
            want = ref.acquire(op[1]) if op[0] == 'acq' else ref.release(op[1], op[2])
            cnt = sem.current_count()
            if got != want or cnt != ref.free():
                hist = [list(o) for o in h[:i + 1]]
                sig = 'sws-mismatch'
                if op[0] == 'rel' and want == 'value-error' and got == 'ok':
                    # classify: never-issued token vs token already released
                    t, k = op[1], op[2]
                    if t in ref.next and k >= ref.next[t]:
                        sig = 'release-never-issued-accepted'
                    elif t in ref.next:
                        sig = 'release-twice-accepted'
                    else:
                        sig = 'release-unknown-tag-accepted'
                elif got == want:
                    sig = 'capacity-equation'
                res.violation(sig, {'cap': cap, 'history': hist, 'got': got, 'want': want,
                                    'current_count': cnt, 'reference_free': ref.free()},
                              'SlidingWindowSemaphore(%d) after %s: returned %s / count %d, reference %s / free %d'
                              % (cap, hist[-6:], got, cnt, want, ref.free()))
                break
            if want in ('value-error', 'no-resources'):
                interesting = True
        if interesting:
            res.nontrivial.add((cap, tuple(h)))
        res.hit('len:%d' % min(len(h), 10))
    res.samples.append({'cap': histories[-1][0], 'history': [list(o) for o in histories[-1][1]]})
    res.samples.append({'cap': histories[0][0], 'history': [list(o) for o in histories[0][1]]})
    return res


# ---------------------------------------------------------------------------
# blocking acquirers under the deterministic scheduler (trace validation against the
# blocking model `bstep`, and the direct no-lost-wake-up oracle)


def _thread_failure(sch, fail):
    """A thread of the rig that died with an exception is a failed run, never a quiet one (its events are
    missing from the trace)."""
    if fail is None and sch.thread_errors:
        name, e, tb = sch.thread_errors[0]
        return RuntimeError('thread %s died: %r | %s' % (name, e, tb.strip().split('\n')[-1][:200]))
    return fail


def blocking_run(seed, cap, plans, mode):
    """plans: per thread a list of tags; the thread does, for each tag: tok = acquire(tag)
    (blocking), yield, release(tag, tok).  Returns (events sorted by stamp, failure, sched)."""
    from sched import Scheduler
    from shim import Installed
    sch = Scheduler(seed=seed, mode=mode, max_steps=20000)
    events = []

    with Installed(sch, modules=['utils']):
        from s3transfer.utils import SlidingWindowSemaphore
        sem = SlidingWindowSemaphore(cap)
        inner = sem._condition
        stamps = {}

        class CondProxy:
            def acquire(self, *a, **k):
                r = inner.acquire(*a, **k)
                stamps.setdefault(sch.me().name, []).append(('lock', sch.tick()))
                return r

            def release(self):
                inner.release()

            def wait(self, timeout=None):
                inner.wait(timeout)
                stamps.setdefault(sch.me().name, []).append(('wake', sch.tick()))

            def notify(self, n=1):
                inner.notify(n)

            def notify_all(self):
                inner.notify_all()

            def __enter__(self):
                self.acquire()
                return self

            def __exit__(self, *a):
                self.release()
        sem._condition = CondProxy()

        def worker(i, tags):
            def run():
                me = sch.me().name
                for tag in tags:
                    n0 = len(stamps.get(me, []))
                    tok = sem.acquire('t%d' % tag, blocking=True)
                    evs = stamps[me][n0:]
                    for j, (kind, st) in enumerate(evs):
                        out = 'token %d' % tok if j == len(evs) - 1 else 'would-block'
                        lab = 'bsema acq %d %d' % (i, tag) if kind == 'lock' else 'bsema wake %d %d' % (i, tag)
                        events.append((st, lab, out))
                    sch.point('hold')
                    n0 = len(stamps.get(me, []))
                    sem.release('t%d' % tag, tok)
                    st = stamps[me][n0][1]
                    events.append((st, 'bsema rel %d %d' % (tag, tok), 'ok'))
            return run

        def main():
            ts = [sch.spawn(worker(i, p), 'u%d' % i) for i, p in enumerate(plans)]
            sch.block_until(lambda: all(t.finished for t in ts), 'join')
        fail = _thread_failure(sch, sch.run(main, timeout=30))
        # events of calls that never returned (blocked for ever) are in `stamps` only
        return sorted(events), fail, sch, sem


def _blocking_plans(rng):
    cap = rng.randrange(1, 4)
    nthreads = rng.randrange(2, 5)
    ntags = rng.randrange(1, 4)
    plans = [[rng.randrange(ntags) for _ in range(rng.randrange(1, 4))] for _ in range(nthreads)]
    return cap, plans


def blocking_corr(seed, tier):
    res = CorrResult('sema-blocking')
    rng = rng_for(seed, 'sema-blocking')
    cases = []
    for i in range(120 if tier == 'quick' else 2500):
        cap, plans = _blocking_plans(rng)
        mode = ['uniform', 'sticky', 'pct', 'stall'][i % 4]
        events, fail, sch, sem = blocking_run(rng.randrange(1 << 30), cap, plans, mode)
        ops = [('bsema new %d' % cap, 'ok')]
        for st, lab, out in events:
            ops.append((lab, out))
        if fail is None:
            ops.append(('bsema state', 'count=%d waiting= notified=' % cap))
        blocked = any(o == 'would-block' for _, _, o in events)
        res.note_case(('b', i), blocked, {'cap': cap, 'threads': plans, 'trace': [l for _, l, _ in events[:12]]} if blocked else None)
        res.hit('blocked' if blocked else 'no-wait')
        case = {'cap': cap, 'plans': plans, 'mode': mode, 'schedule': sch.choices[:300]}
        if fail is not None:
            res.mismatches.append({'component': 'sema-blocking', 'case': case, 'ops': [l for l, _ in ops],
                                   'first_diverging_op': 'quiescence', 'impl': repr(fail),
                                   'model': 'no thread blocked once every token is released'})
        else:
            cases.append((case, ops))
    compare_with_model(res, cases)
    return res


def window_used(events):
    """Reference computation from the C12 statement: after each granted acquire, the sum over tags
    of the tokens from the lowest unreleased one up to and including the newest.  Returns the
    maximum and the event index where it was reached."""
    issued, held = {}, {}
    worst, at = 0, None
    for k, (_st, lab, out) in enumerate(events):
        w = lab.split()
        if w[1] in ('acq', 'wake') and out.startswith('token'):
            tag, tok = int(w[3]), int(out.split()[1])
            issued[tag] = max(issued.get(tag, 0), tok + 1)
            held.setdefault(tag, set()).add(tok)
            used = sum(issued[t] - (min(held[t]) if held.get(t) else issued[t]) for t in issued)
            if used > worst:
                worst, at = used, k
        elif w[1] == 'rel':
            held.get(int(w[2]), set()).discard(int(w[3]))
    return worst, at


def blocking_oracle_c11(seed, tier):
    return blocking_oracle(seed, tier, prop='C11')


def blocking_oracle_c10(seed, tier):
    # the tag semaphore behind max_in_memory_download_chunks is one of the configured limits
    return blocking_oracle(seed, tier, prop='C10')


def blocking_oracle(seed, tier, prop='C12'):
    """No acquirer stays blocked for ever when every issued token is eventually released, and the
    window (tokens from the lowest unreleased to the newest, summed over tags) never exceeds the
    configured count, whoever is woken or barges in."""
    res = OracleResult(prop)
    rng = rng_for(seed, 'sema-blocking-oracle')
    for i in range(150 if tier == 'quick' else 3000):
        cap, plans = _blocking_plans(rng)
        mode = ['uniform', 'sticky', 'pct', 'stall'][i % 4]
        events, fail, sch, sem = blocking_run(rng.randrange(1 << 30), cap, plans, mode)
        res.evaluations += 1
        if res.enough():
            break
        worst, at = window_used(events)
        if worst > cap:
            res.violation('window-exceeded',
                          {'cap': cap, 'threads_tags': plans, 'mode': mode, 'schedule': sch.choices[:300],
                           'trace': [(l, o) for _, l, o in events[:at + 1]]},
                          'SlidingWindowSemaphore(%d): %d tokens between the lowest unreleased and the newest' % (cap, worst))
        if fail is not None:
            res.violation('acquirer-blocked-for-ever',
                          {'cap': cap, 'threads_tags': plans, 'mode': mode, 'schedule': sch.choices[:300],
                           'trace': [(l, o) for _, l, o in events[-12:]], 'blocked': sch.blocked_summary()},
                          'SlidingWindowSemaphore(%d): %r although every acquired token was released' % (cap, fail))
        elif sem.current_count.__self__._count != cap:
            res.violation('not-restored', {'cap': cap, 'threads_tags': plans}, 'count %d after all released' % sem._count)
        if any(o == 'would-block' for _, _, o in events):
            res.nontrivial.add(('b', i))
    res.samples.append({'cap': cap, 'threads_tags': plans})
    return res


# ---------------------------------------------------------------------------
# CountCallbackInvoker under the scheduler: the submission thread increments once per ranged
# GetObjectTask and finalizes, the tasks' done-callbacks decrement.  Operations take effect in the
# order in which they acquire the invoker's lock (trace validated against the model's Cci), and
# the C04 hand-off is judged directly: finalized and count 0 at the end => callback ran once.

def cci_run(seed, nparts, mode, early):
    """`early`: how many decrements may start before finalize (parts finishing while the submitter
    is still looping); the remaining ones start after the last increment."""
    from sched import Scheduler
    from shim import Installed
    sch = Scheduler(seed=seed, mode=mode, max_steps=20000)
    events, fired = [], []
    with Installed(sch, modules=['utils']):
        from s3transfer.utils import CountCallbackInvoker
        cur = {}

        def cb():
            fired.append(sch.me().name)
        cci = CountCallbackInvoker(cb)
        inner = cci._lock

        class LockProxy:
            def acquire(self, *a, **k):
                r = inner.acquire(*a, **k)
                cur[sch.me().name] = sch.tick()
                return r

            def release(self):
                inner.release()

            def __enter__(self):
                self.acquire()
                return self

            def __exit__(self, *a):
                self.release()
        cci._lock = LockProxy()
        started = {'n': 0}

        def do(name, fn):
            me = sch.me().name
            before = len(fired)
            out = 'ok'
            try:
                fn()
                if len([f for f in fired[before:] if f == me]):
                    out = 'fired'
            except RuntimeError:
                out = 'runtime-error'
            events.append((cur[me], 'cci ' + name, out))

        def part(i):
            def run():
                sch.block_until(lambda: started['n'] > i, 'part-submitted')
                sch.point('get-object')
                do('dec', cci.decrement)
            return run

        def main():
            ts = [sch.spawn(part(i), 'p%d' % i) for i in range(nparts)]
            for i in range(nparts):
                do('inc', cci.increment)
                if i < early:
                    started['n'] = i + 1
                sch.point('submitted')
            started['n'] = max(started['n'], early)
            do('fin', cci.finalize)
            started['n'] = nparts
            sch.block_until(lambda: all(t.finished for t in ts), 'join')
        fail = _thread_failure(sch, sch.run(main, timeout=30))
    return sorted(events), fired, fail, sch, cci


def cci_conc_corr(seed, tier):
    res = CorrResult('cci-concurrent')
    rng = rng_for(seed, 'cci-conc')
    cases = []
    for i in range(300 if tier == 'quick' else 6000):
        nparts = rng.randrange(1, 5)
        early = rng.randrange(0, nparts + 1)
        mode = ['uniform', 'sticky', 'pct', 'stall'][i % 4]
        events, fired, fail, sch, cci = cci_run(rng.randrange(1 << 30), nparts, mode, early)
        case = {'parts': nparts, 'may_finish_before_finalize': early, 'mode': mode, 'schedule': sch.choices[:200]}
        ops = [('cci new', 'ok')] + [(lab, out) for _, lab, out in events] + [('cci count', str(cci._count))]
        order = tuple(l.split()[1] for _, l, _ in events)
        res.note_case((nparts, order), 'dec' in order[order.index('fin'):] if 'fin' in order else False, case)
        res.hit('fired-by:%s' % (fired[0][0] if fired else 'nobody'))
        if fail is not None:
            res.mismatches.append({'component': 'cci-concurrent', 'case': case, 'ops': [l for l, _ in ops],
                                   'first_diverging_op': 'run', 'impl': repr(fail), 'model': 'terminates'})
        else:
            cases.append((case, ops))
    compare_with_model(res, cases)
    return res


def cci_conc_oracle(seed, tier):
    res = OracleResult('C04')
    rng = rng_for(seed, 'cci-conc-oracle')
    for i in range(400 if tier == 'quick' else 8000):
        nparts = rng.randrange(1, 5)
        early = rng.randrange(0, nparts + 1)
        mode = ['uniform', 'sticky', 'pct', 'stall'][i % 4]
        events, fired, fail, sch, cci = cci_run(rng.randrange(1 << 30), nparts, mode, early)
        res.evaluations += 1
        if res.enough():
            break
        order = tuple(l.split()[1] for _, l, _ in events)
        res.nontrivial.add((nparts, order))
        wit = {'parts': nparts, 'may_finish_before_finalize': early, 'mode': mode, 'schedule': sch.choices[:200],
               'order_of_lock_acquisitions': list(order)}
        if fail is not None:
            res.violation('cci-hang', wit, repr(fail))
        elif len(fired) != 1:
            res.violation('final-task-handoff-lost' if not fired else 'final-task-handoff-doubled', wit,
                          'CountCallbackInvoker: %d parts all finished and finalize() returned, but the callback that submits '
                          'the final IO task ran %d times (the download would never be announced done)' % (nparts, len(fired)))
    res.samples.append(wit)
    return res



# ---------------------------------------------------------------------------
# TaskSemaphore (the stage queues and the upload-chunk tag) under the scheduler: whatever it is built
# from, at most `count` holders at any instant, every blocking acquirer gets in once slots are given
# back, and afterwards exactly `count` non-blocking acquires succeed.

def tsem_blocking_oracle(seed, tier):
    from sched import Scheduler
    from shim import Installed
    res = OracleResult('C10')
    rng = rng_for(seed, 'tsem-blocking-oracle')
    for i in range(600 if tier == 'quick' else 6000):
        cap = rng.choice([1, 1, 2, 3])
        nthreads = rng.randrange(2, 6)
        rounds = [rng.randrange(1, 4) for _ in range(nthreads)]
        mode = ['uniform', 'sticky', 'pct', 'stall'][i % 4]
        sch = Scheduler(seed=rng.randrange(1 << 30), mode=mode, max_steps=20000)
        state = {'holders': 0, 'worst': 0, 'blocked_seen': False}
        probe = {}
        with Installed(sch, modules=['utils']):
            from s3transfer.utils import NoResourcesAvailable
            from s3transfer.utils import TaskSemaphore
            sem = TaskSemaphore(cap)

            def worker(k):
                def run():
                    for _ in range(rounds[k]):
                        if state['holders'] >= cap:
                            state['blocked_seen'] = True
                        tok = sem.acquire('t%d' % k, blocking=True)
                        state['holders'] += 1
                        state['worst'] = max(state['worst'], state['holders'])
                        sch.point('hold')
                        state['holders'] -= 1
                        sem.release('t%d' % k, tok)
                        sch.point('between')
                return run

            def main():
                ts = [sch.spawn(worker(k), 'w%d' % k) for k in range(nthreads)]
                sch.block_until(lambda: all(t.finished for t in ts), 'join')
                got = 0
                try:
                    for _ in range(cap + 2):
                        sem.acquire('probe', blocking=False)
                        got += 1
                except NoResourcesAvailable:
                    pass
                probe['free'] = got
            fail = _thread_failure(sch, sch.run(main, timeout=60))
        res.evaluations += 1
        if res.enough():
            break
        wit = {'count': cap, 'threads': nthreads, 'acquire_release_rounds_per_thread': rounds, 'mode': mode, 'schedule': sch.choices[:300]}
        if state['worst'] > cap:
            res.violation('tasksemaphore:holders-exceed-count', wit, 'TaskSemaphore(%d): %d holders at once' % (cap, state['worst']))
        if fail is not None:
            res.violation('tasksemaphore:acquirer-blocked-for-ever', dict(wit, blocked=sch.blocked_summary()),
                          'TaskSemaphore(%d): %r although every slot was given back' % (cap, fail))
        elif probe.get('free') != cap:
            res.violation('tasksemaphore:not-restored', dict(wit, free_afterwards=probe.get('free')),
                          'TaskSemaphore(%d): %s non-blocking acquires succeed after everything was released' % (cap, probe.get('free')))
        if state['blocked_seen']:
            res.nontrivial.add(i)
    res.samples.append({'count': cap, 'threads': nthreads, 'rounds': rounds})
    return res
