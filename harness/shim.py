"""Cooperative replacements for threading.Lock/Event/Condition/Semaphore, a ThreadPoolExecutor
with concurrent.futures semantics (FIFO queue, <= max_workers lazily started threads, callbacks run
by the completing thread or immediately by the adder when already done), and a virtual `time`.
`install(sched)` swaps them into the s3transfer modules from outside (no source hooks)."""
import importlib
import types

from sched import SchedAbort

MODULES = ['futures', 'utils', 'manager', 'download', 'bandwidth', 'processpool', 'crt']


class Shims:
    def __init__(self, sched):
        self.sched = sched
        s = sched
        shims = self
        self.lock_waits = []       # (thread, lockname) — for diagnostics
        self.interrupt_plan = {}   # (thread_name, nth_wait) -> exception to raise inside Event.wait
        self.wait_counts = {}
        self.executors = []
        self.yield_on_release = True
        self.exec_observers = []   # observers(executor name, 'submit'|'pick'|'finish', fn)

        class Lock:
            _n = 0

            def __init__(self, name=None):
                Lock._n += 1
                self.name = name or 'lock%d' % Lock._n
                self.owner = None

            def acquire(self, blocking=True, timeout=-1):
                s.point(('lock-acquire', self.name))
                if not blocking:
                    if self.owner is None:
                        self.owner = s.me().name
                        return True
                    return False
                s.block_until(lambda: self.owner is None, ('lock', self.name, self.owner))
                self.owner = s.me().name
                return True

            def release(self):
                if self.owner is None:
                    raise RuntimeError('release unlocked lock')
                self.owner = None
                if shims.yield_on_release:
                    s.point(('lock-release', self.name))

            def locked(self):
                return self.owner is not None

            def __enter__(self):
                self.acquire()
                return True

            def __exit__(self, *a):
                self.release()

        class Event:
            def __init__(self):
                self.flag = False

            def is_set(self):
                return self.flag

            def set(self):
                s.point('event-set')
                self.flag = True

            def clear(self):
                self.flag = False

            def wait(self, timeout=None):
                me = s.me().name
                n = shims.wait_counts.get(me, 0)
                shims.wait_counts[me] = n + 1
                exc = shims.interrupt_plan.pop((me, n), None)
                s.point('event-wait')
                if exc is not None and not self.flag:
                    raise exc
                s.block_until(lambda: self.flag, ('event',))
                return True

        class Condition:
            def __init__(self, lock=None):
                self._lock = lock if lock is not None else Lock()
                self._waiters = []

            def acquire(self, *a, **k):
                return self._lock.acquire(*a, **k)

            def release(self):
                self._lock.release()

            def __enter__(self):
                return self._lock.__enter__()

            def __exit__(self, *a):
                return self._lock.__exit__(*a)

            def wait(self, timeout=None):
                if self._lock.owner != s.me().name:
                    raise RuntimeError('cannot wait on un-acquired lock')
                tok = {'notified': False, 'thread': s.me().name}
                self._waiters.append(tok)
                self._lock.release()
                try:
                    s.block_until(lambda: tok['notified'], ('condition', id(self)))
                finally:
                    if tok in self._waiters:
                        self._waiters.remove(tok)
                    # re-acquire
                    s.block_until(lambda: self._lock.owner is None, ('lock', self._lock.name, self._lock.owner))
                    self._lock.owner = s.me().name
                return True

            def notify(self, n=1):
                if self._lock.owner != s.me().name:
                    raise RuntimeError('cannot notify on un-acquired lock')
                k = 0
                for tok in list(self._waiters):
                    if k >= n:
                        break
                    if not tok['notified']:
                        tok['notified'] = True
                        self._waiters.remove(tok)
                        k += 1

            def notify_all(self):
                self.notify(len(self._waiters))

        class Semaphore:
            def __init__(self, value=1):
                self.value = value
                self.initial = value

            def acquire(self, blocking=True, timeout=None):
                s.point('sem-acquire')
                if not blocking:
                    if self.value > 0:
                        self.value -= 1
                        return True
                    return False
                s.block_until(lambda: self.value > 0, ('semaphore', id(self)))
                self.value -= 1
                return True

            def release(self, n=1):
                self.value += n

            def __enter__(self):
                self.acquire()

            def __exit__(self, *a):
                self.release()

        class CoopFuture:
            def __init__(self):
                self._done = False
                self._result = None
                self._exc = None
                self._cbs = []
                self._cancelled = False
                self._executor = None

            def done(self):
                return self._done

            def cancelled(self):
                return self._cancelled

            def cancel(self):
                # concurrent.futures.Future.cancel: only a work item that no worker has picked up yet
                if self._cancelled:
                    return True
                if self._done or self._executor is None:
                    return False
                for item in self._executor.queue:
                    if item[0] is self:
                        self._executor.queue.remove(item)
                        self._cancel_now()
                        return True
                return False

            def _cancel_now(self):
                import concurrent.futures as _cf
                self._cancelled = True
                self._finish(exc=_cf.CancelledError())

            def result(self, timeout=None):
                s.point('future-result')
                s.block_until(lambda: self._done, ('future',))
                if self._exc is not None:
                    raise self._exc
                return self._result

            def exception(self, timeout=None):
                s.block_until(lambda: self._done, ('future',))
                return self._exc

            def add_done_callback(self, fn):
                if self._done:
                    self._invoke(fn)
                else:
                    self._cbs.append(fn)

            def _invoke(self, fn):
                try:
                    fn(self)
                except SchedAbort:
                    raise
                except Exception:
                    # concurrent.futures logs and swallows callback exceptions
                    shims.callback_errors.append(fn)

            def _finish(self, result=None, exc=None):
                self._result = result
                self._exc = exc
                self._done = True
                cbs, self._cbs = self._cbs, []
                for fn in cbs:
                    self._invoke(fn)

        self.callback_errors = []

        class CoopExecutor:
            """ThreadPoolExecutor semantics on managed threads."""
            _n = 0

            def __init__(self, max_workers=None):
                CoopExecutor._n += 1
                self.name = 'ex%d' % CoopExecutor._n
                self.max_workers = max_workers or 1
                self.queue = []
                self.workers = []
                self.idle = 0
                self.shut = False
                self.running = 0
                self.max_running = 0
                self.max_queued = 0
                self.max_inflight = 0
                shims.executors.append(self)
                if s.current is not None and not s.aborted:
                    s.point(('executor-create', self.name))      # building a thread pool takes time

            def submit(self, fn, *args, **kwargs):
                if self.shut:
                    raise RuntimeError('cannot schedule new futures after shutdown')
                f = CoopFuture()
                f._executor = self
                for _o in shims.exec_observers:
                    _o(self.name, 'submit', fn)
                self.queue.append((f, fn, args, kwargs))
                self.max_queued = max(self.max_queued, len(self.queue))
                self.max_inflight = max(self.max_inflight, len(self.queue) + self.running)
                if self.idle == 0 and len(self.workers) < self.max_workers:
                    w = s.spawn(self._worker, '%s-w%d' % (self.name, len(self.workers)))
                    self.workers.append(w)
                s.point(('executor-submit', self.name))
                return f

            def _worker(self):
                while True:
                    self.idle += 1
                    s.block_until(lambda: bool(self.queue) or self.shut, ('executor-idle', self.name))
                    self.idle -= 1
                    if not self.queue:
                        return
                    f, fn, args, kwargs = self.queue.pop(0)
                    for _o in shims.exec_observers:
                        _o(self.name, 'pick', fn)
                    self.running += 1
                    self.max_running = max(self.max_running, self.running)
                    try:
                        r = fn(*args, **kwargs)
                    except SchedAbort:
                        raise
                    except BaseException as e:   # noqa: like concurrent.futures
                        self.running -= 1
                        # the future completes (waiters are released, done callbacks run) now
                        for _o in shims.exec_observers:
                            _o(self.name, 'finish', fn)
                        f._finish(exc=e)
                        s.point(('task-finished', self.name))
                        continue
                    else:
                        self.running -= 1
                        for _o in shims.exec_observers:
                            _o(self.name, 'finish', fn)
                        f._finish(result=r)
                    s.point(('task-finished', self.name))

            def shutdown(self, wait=True, cancel_futures=False, **kw):
                self.shut = True
                if cancel_futures:
                    # ThreadPoolExecutor.shutdown(cancel_futures=True): every work item still queued is
                    # dropped and its future cancelled (its done callbacks run in this thread)
                    while self.queue:
                        item = self.queue.pop(0)
                        for _o in shims.exec_observers:
                            _o(self.name, 'dropped', item[1])
                        item[0]._cancel_now()
                s.point(('executor-shutdown', self.name))
                if wait:
                    s.block_until(lambda: all(w.finished for w in self.workers), ('executor-join', self.name))

        class VTime:
            def time(self):
                return s.clock

            def sleep(self, d):
                s.sleep(d)

            def monotonic(self):
                return s.clock

        ns = types.SimpleNamespace()
        ns.Lock = Lock
        ns.RLock = Lock
        ns.Event = Event
        ns.Condition = Condition
        ns.Semaphore = Semaphore
        ns.BoundedSemaphore = Semaphore
        import threading as _rt
        ns.current_thread = _rt.current_thread
        ns.Thread = _rt.Thread
        ns.local = _rt.local
        self.threading = ns
        self.time = VTime()
        self.Executor = CoopExecutor
        self.Future = CoopFuture
        self.Lock, self.Event, self.Condition, self.Semaphore = Lock, Event, Condition, Semaphore


class Installed:
    """Context manager: swap the shims into the s3transfer modules, restore on exit."""

    def __init__(self, sched, modules=None):
        self.shims = Shims(sched)
        self.modules = modules or ['futures', 'utils', 'manager', 'download', 'bandwidth']
        self.saved = []

    def __enter__(self):
        for m in self.modules:
            mod = importlib.import_module('s3transfer.' + m)
            if hasattr(mod, 'threading'):
                self.saved.append((mod, 'threading', mod.threading))
                mod.threading = self.shims.threading
            if m == 'bandwidth' and hasattr(mod, 'time'):
                self.saved.append((mod, 'time', mod.time))
                mod.time = self.shims.time
        return self.shims

    def __exit__(self, *a):
        for mod, name, val in self.saved:
            setattr(mod, name, val)
        self.saved = []
