"""Coord component (C17, parts of C07/C08): futures.TransferCoordinator / TransferFuture against
S3V.Model.Coord — sequentially, and under the deterministic scheduler with 2-3 threads, where
the order in which operations take effect is the order in which they acquire the coordinator's
state lock.  Direct oracle: a reference state machine written from the C17 statement."""
import itertools

from common import CorrResult, compare_with_model, rng_for
from oracle import OracleResult

OPS = ['set-result', 'set-exception0', 'set-exception1', 'cancel', 'to-queued', 'to-running',
       'announce', 'add-done', 'add-cleanup', 'future-set-exception']
LOCK_OPS = {'set-result', 'set-exception0', 'set-exception1', 'cancel', 'to-queued', 'to-running'}


class Exc(Exception):
    def __init__(self, n):
        super().__init__('exc-%d' % n)
        self.n = n


def _exc_id(e):
    if e is None:
        return '-'
    return str(getattr(e, 'n', 'other:%s' % type(e).__name__))


class Rig:
    """A real TransferCoordinator + TransferFuture with numbered exceptions / callbacks."""

    def __init__(self):
        from s3transfer.futures import TransferCoordinator, TransferFuture
        self.c = TransferCoordinator(transfer_id=1)
        self.f = TransferFuture(coordinator=self.c)
        self.ran_cleanups = []
        self.ran_done = []
        self.in_factory = None      # threaded runs: a scheduling point inside cancel()'s exc_type(msg) call
        self.after_factory = None   # ... and a stamp when it returns (no scheduling point between that and the stores)

    def _cancel_exc(self, n):
        if self.in_factory is not None:
            self.in_factory()
            if self.after_factory is not None:
                self.after_factory()
        return Exc(n)

    def apply(self, op, arg):
        from s3transfer.exceptions import TransferNotDoneError
        c = self.c
        try:
            if op == 'set-result':
                c.set_result(arg)
            elif op == 'set-exception0':
                c.set_exception(Exc(arg))
            elif op == 'set-exception1':
                c.set_exception(Exc(arg), override=True)
            elif op == 'cancel':
                c.cancel('m%d' % arg, lambda msg, n=arg: self._cancel_exc(n))
            elif op == 'to-queued':
                c.set_status_to_queued()
            elif op == 'to-running':
                c.set_status_to_running()
            elif op == 'announce':
                c.announce_done()
            elif op == 'add-done':
                c.add_done_callback(self.ran_done.append, arg)
            elif op == 'add-cleanup':
                c.add_failure_cleanup(self.ran_cleanups.append, arg)
            elif op == 'future-set-exception':
                self.f.set_exception(Exc(arg))
            else:
                raise AssertionError(op)
            return 'ok'
        except RuntimeError:
            return 'runtime-error'
        except TransferNotDoneError:
            return 'not-done-error'

    def state(self):
        c = self.c
        res = c._result
        return '%s exc=%s res=%s ev=%d cl=%s dn=%s' % (
            c.status, _exc_id(c.exception), '-' if res is None else res,
            1 if c._done_event.is_set() else 0,
            ','.join(map(str, self.ran_cleanups)), ','.join(map(str, self.ran_done)))

    def result_outcome(self):
        c = self.c
        if not c._done_event.is_set():
            return 'blocks'
        try:
            r = c.result()
            return 'returns %s' % ('-' if r is None else r)
        except Exc as e:
            return 'raises %d' % e.n


def line(op, arg):
    if op == 'set-exception0':
        return 'coord set-exception %d 0' % arg
    if op == 'set-exception1':
        return 'coord set-exception %d 1' % arg
    if op in ('to-queued', 'to-running', 'announce'):
        return 'coord %s' % op
    return 'coord %s %d' % (op, arg)


def gen_seq(rng, n):
    seq = []
    for i in range(n):
        r = rng.random()
        if r < 0.25:
            op = rng.choice(['to-queued', 'to-running'])
        elif r < 0.55:
            op = rng.choice(['set-exception0', 'cancel', 'set-exception0', 'cancel', 'set-exception1'])
        elif r < 0.65:
            op = 'set-result'
        elif r < 0.8:
            op = 'announce'
        elif r < 0.9:
            op = rng.choice(['add-done', 'add-cleanup'])
        else:
            op = 'future-set-exception'
        seq.append((op, i + 1))
    return seq


def _seq_case(seq):
    rig = Rig()
    ops = [('coord new', 'ok')]
    for op, arg in seq:
        ops.append((line(op, arg), rig.apply(op, arg)))
        ops.append(('coord state', rig.state()))
        ops.append(('coord result', rig.result_outcome()))
        ops.append(('coord done', '1' if rig.c.done() else '0'))
    return ops


def threaded_case(seed, plans, mode):
    """Run `plans` (one op list per thread) on one coordinator under the scheduler.
    Returns (linearized [(op,arg,out)], final state string, failure)."""
    from sched import Scheduler
    from shim import Installed
    sch = Scheduler(seed=seed, mode=mode, max_steps=5000)
    stamps = []     # (tick, thread, kind)

    with Installed(sch, modules=['futures']) as sh:
        rig = Rig()
        inner = rig.c._lock

        class LoggedLock:
            def acquire(self, *a, **k):
                r = inner.acquire(*a, **k)
                stamps.append((sch.tick(), sch.me().name))
                return r

            def release(self):
                inner.release()

            def __enter__(self):
                self.acquire()

            def __exit__(self, *a):
                self.release()
        rig.c._lock = LoggedLock()
        # building the cancellation error takes time: the other threads may run while cancel() holds the state lock
        rig.in_factory = lambda: sch.point(('exc-type',))
        effect = {}                 # thread -> tick at which its cancel() takes effect (the factory returned)
        rig.after_factory = lambda: effect.__setitem__(sch.me().name, sch.tick())
        results = {}

        def worker(i, plan):
            def run():
                outs = []
                for op, arg in plan:
                    t_inv = sch.tick()
                    sch.point(('op', op))
                    n_before = len([1 for st in stamps if st[1] == sch.me().name])
                    out = rig.apply(op, arg)
                    mine = [st for st in stamps if st[1] == sch.me().name][n_before:]
                    # operation takes effect when it acquires the state lock; operations that
                    # never take it (reads, refused future.set_exception, announce, registrations)
                    # take effect at invocation
                    stamp = mine[0][0] if (mine and op in LOCK_OPS | {'future-set-exception'}) else t_inv
                    if op == 'cancel' and effect.get(sch.me().name, -1) >= t_inv:
                        # cancel() held the lock across a scheduling point: readers that do not take the lock
                        # (done(), a refused future.set_exception) saw the old state until the stores
                        stamp = effect[sch.me().name]
                    outs.append((stamp, op, arg, out))
                results[i] = outs
            return run

        def main():
            ts = [sch.spawn(worker(i, p), 'u%d' % i) for i, p in enumerate(plans)]
            sch.block_until(lambda: all(t.finished for t in ts), 'join')
            final['state'] = rig.state()
            final['result'] = rig.result_outcome()
        final = {}
        fail = sch.run(main, timeout=30)
        if fail is None and sch.thread_errors:
            fail = RuntimeError('thread %s died: %r' % (sch.thread_errors[0][0], sch.thread_errors[0][1]))
        lin = sorted([x for outs in results.values() for x in outs])
        return lin, final.get('state', ''), final.get('result', ''), fail, sch


def corr(seed, tier):
    res = CorrResult('coord')
    rng = rng_for(seed, 'coord')
    cases = []
    seqs = []
    # exhaustive short sequences over the state-changing alphabet
    alpha = [('set-result', 1), ('set-exception0', 2), ('set-exception1', 3), ('cancel', 4),
             ('to-queued', 0), ('to-running', 0), ('announce', 0), ('future-set-exception', 5),
             ('add-done', 6), ('add-cleanup', 7)]
    k = 3 if tier == 'quick' else 4
    for s in itertools.product(alpha, repeat=k):
        seqs.append(list(s))
    for _ in range(300 if tier == 'quick' else 4000):
        seqs.append(gen_seq(rng, rng.randrange(3, 14)))
    for seq in seqs:
        ops = _seq_case(seq)
        res.note_case(tuple(seq), len({o for o, _ in seq}) > 1, {'ops': [line(o, a) for o, a in seq[:8]]})
        for o, _ in seq:
            res.hit(o)
        cases.append(({'sequential': [list(x) for x in seq]}, ops))
    # threaded: 2-3 threads, linearized by state-lock acquisition
    n_thr = 150 if tier == 'quick' else 2500
    for i in range(n_thr):
        nt = rng.choice([2, 2, 3])
        plans = []
        arg = 1
        for t in range(nt):
            p = []
            for _ in range(rng.randrange(1, 4)):
                op = rng.choice(['set-exception0', 'set-exception0', 'cancel', 'set-result', 'to-queued',
                                 'to-running', 'set-exception1', 'future-set-exception', 'announce'])
                p.append((op, arg))
                arg += 1
            plans.append(p)
        mode = ['uniform', 'sticky', 'pct'][i % 3]
        lin, final_state, final_result, fail, sch = threaded_case(rng.randrange(1 << 30), plans, mode)
        if fail is not None:
            res.mismatches.append({'component': 'coord', 'case': {'plans': plans, 'mode': mode},
                                   'ops': [], 'first_diverging_op': 'scheduler', 'impl': repr(fail), 'model': 'terminates'})
            continue
        ops = [('coord new', 'ok')]
        for stamp, op, arg_, out in lin:
            ops.append((line(op, arg_), out))
        ops.append(('coord state', final_state))
        ops.append(('coord result', final_result))
        res.note_case(('thr', i), sch.multi_runnable_points > 0,
                      {'threads': plans, 'linearized': [line(o, a) for _, o, a, _ in lin]} if i < 2 else None)
        res.hit('threaded')
        cases.append(({'threaded': plans, 'mode': mode, 'schedule': sch.choices[:200]}, ops))
    compare_with_model(res, cases)
    return res


# ---------------------------------------------------------------------------
class RefCoord:
    """Reference written from the C17 statement (independent of the Lean model)."""
    FINAL = ('success', 'failed', 'cancelled')

    def __init__(self):
        self.status = 'not-started'
        self.exc = None
        self.result = None

    def apply(self, op, arg):
        done = self.status in self.FINAL
        if op == 'set-result':
            self.status, self.exc, self.result = 'success', None, arg
        elif op == 'set-exception0':
            if not done:
                self.status, self.exc = 'failed', arg
        elif op in ('set-exception1',):
            self.status, self.exc = 'failed', arg
        elif op == 'future-set-exception':
            if done:
                self.status, self.exc = 'failed', arg
        elif op == 'cancel':
            if not done:
                self.status, self.exc = 'cancelled', arg
        elif op in ('to-queued', 'to-running'):
            if not done:
                self.status = op[3:]


def oracle(seed, tier):
    res = OracleResult('C17')
    rng = rng_for(seed, 'coord-oracle')
    # sequential: invariants of the statement judged on the real object after every op
    for i in range(400 if tier == 'quick' else 6000):
        seq = gen_seq(rng, rng.randrange(3, 16))
        rig = Rig()
        ref = RefCoord()
        was_done = False
        res.evaluations += 1
        if res.enough():
            break
        for j, (op, arg) in enumerate(seq):
            rig.apply(op, arg)
            ref.apply(op, arg)
            c = rig.c
            wit = {'ops': [list(x) for x in seq[:j + 1]]}
            if was_done and not c.done():
                res.violation('done-unstable', wit, 'done() went back to False after %s' % op)
            was_done = was_done or c.done()
            if c.status != ref.status or _exc_id(c.exception) != ('-' if ref.exc is None else str(ref.exc)):
                res.violation('state-diverges-from-statement', wit,
                              'after %s: status %s exc %s, statement says %s exc %s'
                              % (op, c.status, _exc_id(c.exception), ref.status, ref.exc))
            has_exc = c.exception is not None
            if has_exc != (c.status in ('failed', 'cancelled')):
                res.violation('exception-status-disagree', wit, 'status %s with exception %s' % (c.status, _exc_id(c.exception)))
            if c._done_event.is_set():
                out = rig.result_outcome()
                if has_exc and out != 'raises %s' % _exc_id(c.exception):
                    res.violation('result-disagrees', wit, 'result() -> %s but stored %s' % (out, _exc_id(c.exception)))
                if not has_exc and not out.startswith('returns'):
                    res.violation('result-disagrees', wit, 'result() -> %s with no exception stored' % out)
            if j == len(seq) - 1 or rng.random() < 0.15:
                # a cancel whose exception cannot be built (exc_type raising in its constructor) must leave
                # the coordinator exactly as it was: "status, stored exception and result agree" at all times
                before = rig.state()

                def bad_type(msg):
                    raise TypeError('cannot build the cancellation error')
                try:
                    rig.c.cancel('m', bad_type)
                    raised = False
                except TypeError:
                    raised = True
                after = rig.state()
                if after != before or (not raised and not rig.c.done()):
                    res.violation('cancel-with-unbuildable-error-changes-state', dict(wit, before=before, after=after),
                                  'cancel(msg, exc_type) with an exc_type that raises changed the state: %s -> %s' % (before, after))
        res.nontrivial.add(tuple(seq))
    # threaded: first recorded failure wins, judged in lock-acquisition order
    for i in range(200 if tier == 'quick' else 4000):
        nt = rng.choice([2, 3])
        plans, arg = [], 1
        for t in range(nt):
            p = []
            for _ in range(rng.randrange(1, 3)):
                p.append((rng.choice(['set-exception0', 'cancel', 'set-exception0', 'set-result', 'to-running']), arg))
                arg += 1
            plans.append(p)
        mode = ['uniform', 'sticky', 'pct'][i % 3]
        lin, final_state, final_result, fail, sch = threaded_case(rng.randrange(1 << 30), plans, mode)
        res.evaluations += 1
        if res.enough():
            break
        if fail is not None:
            res.violation('coordinator-ops-hang', {'plans': plans, 'mode': mode}, repr(fail))
            continue
        ref = RefCoord()
        for _, op, a, _ in lin:
            ref.apply(op, a)
        want = '%s exc=%s' % (ref.status, '-' if ref.exc is None else ref.exc)
        if not final_state.startswith(want + ' '):
            res.violation('first-failure-overwritten-under-interleaving',
                          {'plans': plans, 'mode': mode, 'effect_order': [(o, a) for _, o, a, _ in lin],
                           'schedule': sch.choices[:100]},
                          'threads %s: final "%s", statement (ops in the order they took the state lock) says "%s"'
                          % (plans, final_state.split(' res=')[0], want))
        if sch.multi_runnable_points:
            res.nontrivial.add(('thr', i))
    res.samples.append({'sequential': [line(o, a) for o, a in gen_seq(rng, 6)]})
    res.samples.append({'threaded_plans': plans})
    return res
