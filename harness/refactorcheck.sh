#!/bin/bash
# usage: refactorcheck.sh <patch.diff>   — apply a behaviour-preserving refactoring to /repo, run every quick check, restore.
# Any VIOLATION with a failing input is a false alarm of the machinery; a broken correspondence / proof
# (no-failing-input-found) is the documented sensitivity to rewrites.
cd /verif
test -z "$(git -C /repo status --short)" || { echo "/repo not clean"; exit 2; }
git -C /repo apply "$1" || exit 2
for p in C01 C02 C03 C04 C05 C06 C07 C08 C09 C10 C11 C12 C13 C14 C15 C16 C17 C18 C19 C20; do
  S3V_EVIDENCE_DIR=/tmp/ev-refactor S3V_REPLAY_DIR=/tmp/replay-refactor ./check $p 2>&1 | grep -E "VIOLATION| OK:| FAIL:|Traceback|Error"
done
git -C /repo checkout -- .
(cd harness && /venv/bin/python extract.py >/dev/null)
