"""Shared plumbing for the /verif checks: paths, seeded RNG, the Lean driver pipe,
evidence and replay writers.  Runs under /venv/bin/python with /repo first on sys.path."""
import hashlib
import json
import os
import random
import subprocess
import sys
import time

VERIF = os.path.dirname(os.path.dirname(os.path.abspath(__file__)))
REPO = os.environ.get('S3V_REPO', '/repo')
LEAN_DIR = os.path.join(VERIF, 'lean')
DRIVER = os.path.join(LEAN_DIR, '.lake', 'build', 'bin', 's3vdriver')
EVIDENCE_DIR = os.environ.get('S3V_EVIDENCE_DIR') or os.path.join(VERIF, 'evidence')
REPLAY_DIR_OVERRIDE = os.environ.get('S3V_REPLAY_DIR')
REPLAY_DIR = os.environ.get('S3V_REPLAY_DIR') or os.path.join(VERIF, 'replays')
CORPUS_DIR = os.path.join(VERIF, 'corpus')
ALLOWED_AXIOMS = {'propext', 'Classical.choice', 'Quot.sound'}

if REPO not in sys.path:
    sys.path.insert(0, REPO)


def seed_from_env():
    try:
        return int(os.environ.get('VERIF_SEED', '0'))
    except ValueError:
        return 0


def rng_for(seed, *names):
    """One PRNG state per (seed, component): every random choice derives from VERIF_SEED."""
    h = hashlib.sha256(('%d|' % seed + '|'.join(map(str, names))).encode()).digest()
    return random.Random(int.from_bytes(h[:8], 'big'))


class DriverError(Exception):
    pass


def run_driver(lines, timeout=600):
    """Pipe protocol lines to the compiled Lean driver; returns one output line per input line."""
    if not os.path.exists(DRIVER):
        raise DriverError('driver not built: %s' % DRIVER)
    data = ('\n'.join(lines) + '\n').encode()
    p = subprocess.run([DRIVER], input=data, stdout=subprocess.PIPE,
                       stderr=subprocess.PIPE, timeout=timeout)
    if p.returncode != 0:
        raise DriverError('driver exit %d: %s' % (p.returncode, p.stderr.decode()[-2000:]))
    out = p.stdout.decode().split('\n')
    if out and out[-1] == '':
        out.pop()
    if len(out) != len(lines):
        raise DriverError('driver produced %d lines for %d inputs' % (len(out), len(lines)))
    return out


class CorrResult:
    """Outcome of one correspondence driver (model vs implementation)."""

    def __init__(self, name):
        self.name = name
        self.cases = 0              # cases / op sequences run
        self.ops = 0                # protocol lines compared
        self.nontrivial = set()     # distinct non-trivial case fingerprints
        self.samples = []
        self.mismatches = []        # dicts: {case, line, op, impl, model}
        self.distribution = {}      # histogram of branches / error kinds hit
        self.error = None           # infrastructure problem (driver missing, ...)

    def hit(self, key, n=1):
        self.distribution[key] = self.distribution.get(key, 0) + n

    def note_case(self, fingerprint, nontrivial, sample=None):
        self.cases += 1
        if nontrivial:
            self.nontrivial.add(fingerprint)
        if sample is not None and len(self.samples) < 3:
            self.samples.append(sample)

    def enough(self):
        return len(self.mismatches) >= 25

    def summary(self):
        return {'name': self.name, 'cases': self.cases, 'ops': self.ops,
                'distinct_nontrivial': len(self.nontrivial),
                'mismatches': len(self.mismatches), 'distribution': self.distribution,
                'error': self.error}


def compare_with_model(res, cases):
    """cases: list of (case_descr, [(line, impl_output), ...]).  Sends every line to the Lean
    driver (a `reset` line precedes each case) and records the first diverging op per case."""
    lines = []
    index = []
    for ci, (descr, ops) in enumerate(cases):
        lines.append('reset')
        index.append((ci, None))
        for oi, (line, _impl) in enumerate(ops):
            lines.append(line)
            index.append((ci, oi))
    try:
        outs = run_driver(lines)
    except (DriverError, subprocess.TimeoutExpired) as e:
        res.error = 'driver: %s' % e
        return
    bad_cases = set()
    for (ci, oi), out in zip(index, outs):
        if oi is None:
            continue
        res.ops += 1
        descr, ops = cases[ci]
        line, impl = ops[oi]
        if out != impl and ci not in bad_cases:
            bad_cases.add(ci)
            res.mismatches.append({'component': res.name, 'case': descr,
                                   'ops': [l for l, _ in ops[:oi + 1]],
                                   'first_diverging_op': line, 'impl': impl, 'model': out})


def write_replay(prop, payload):
    os.makedirs(REPLAY_DIR, exist_ok=True)
    blob = json.dumps(payload, sort_keys=True, default=str)
    h = hashlib.sha256(blob.encode()).hexdigest()[:12]
    path = os.path.join(REPLAY_DIR, '%s-%s.json' % (prop, h))
    with open(path, 'w') as f:
        json.dump(payload, f, indent=1, sort_keys=True, default=str)
    return path


def write_evidence(prop, tier, seed, level, coverage, assumptions, wall_s, violations):
    os.makedirs(EVIDENCE_DIR, exist_ok=True)
    doc = {'property_id': prop, 'tier': tier, 'seed': seed, 'level': level,
           'coverage': coverage, 'assumptions': assumptions,
           'wall_s': round(wall_s, 3), 'violations': violations}
    path = os.path.join(EVIDENCE_DIR, '%s.json' % prop)
    tmp = path + '.tmp'
    with open(tmp, 'w') as f:
        json.dump(doc, f, indent=1, default=str)
    os.replace(tmp, path)
    return path


class Timer:
    def __init__(self):
        self.t0 = time.time()

    def elapsed(self):
        return time.time() - self.t0
