"""Observation of the manager's internal events *from outside* (no source hooks):
* `s3transfer.manager.TransferCoordinator` is replaced by a subclass whose methods call the real
  ones through super() and log before/after; its state lock, callbacks lock and done event are
  proxies that stamp the moment of acquisition / setting;
* `Task._execute_main` is wrapped at class level to log that a task decided to run its main;
* the cooperative executor reports submit / pick / finish of every task.
The resulting per-transfer label sequences are what the Lean transfer model (S3V.Model.Xfer) and
stage model (S3V.Model.Exec) are validated against."""
import s3transfer.futures as futures_mod
import s3transfer.manager as manager_mod
import s3transfer.tasks as tasks_mod


class Observer:
    def __init__(self, env, shims):
        self.env = env
        self.sch = env.sch
        self.shims = shims
        self.labels = {}          # ti -> list of (t, label string)
        self.task_ids = {}        # ti -> {id(task): j}
        self.future_ids = {}      # id(ExecutorFuture) -> (ti, j)
        self.thread_task = {}     # thread name -> (ti, 'sub' | j)
        self.exec_events = {}     # executor name -> list of (t, kind, uid)
        self.task_uid = {}
        self.saved = []
        self.main_started = set()   # (ti, j|'sub')
        self.abort_by = {}          # thread -> bool (an abort ran inside the current cleanup phase)
        self.in_cleanup = {}
        self.last_req_ok = {}
        self.announcing = {}
        self.ann_end_emitted = {}

    # -- helpers ------------------------------------------------------
    def emit(self, ti, label, t=None):
        if ti is None:
            return
        if t is None:
            t = self.sch.tick()
        self.labels.setdefault(ti, []).append((t, label))

    def me(self):
        return self.sch.me().name if self.sch.me() else '?'

    def who(self, ti):
        cur = self.thread_task.get(self.me())
        if cur is None or cur[0] != ti:
            return 0
        return 1 if cur[1] == 'sub' else cur[1] + 2

    # -- installation -------------------------------------------------
    def install(self):
        obs = self
        Base = futures_mod.TransferCoordinator

        class StampLock:
            def __init__(self, inner):
                self.inner = inner
                self.last = {}

            def acquire(self, *a, **k):
                r = self.inner.acquire(*a, **k)
                self.last[obs.me()] = obs.sch.tick()
                return r

            def release(self):
                self.inner.release()

            def __enter__(self):
                self.acquire()

            def __exit__(self, *a):
                self.release()

        class ObservedCoordinator(Base):
            def __init__(self, transfer_id=None):
                super().__init__(transfer_id=transfer_id)
                self._lock = StampLock(self._lock)
                inner_event = self._done_event
                coord = self

                class EventProxy:
                    def set(self_inner):
                        me = obs.me()
                        if obs.in_cleanup.pop((coord.transfer_id, me), None) is None and obs.announcing.get((coord.transfer_id, me)):
                            # announce_done skipped the cleanups because the status is success
                            obs.emit(coord.transfer_id, 'cleaned %d' % obs.who(coord.transfer_id))
                        inner_event.set()
                        obs.emit(coord.transfer_id, 'eventSet %d' % obs.who(coord.transfer_id))

                    def wait(self_inner, *a, **k):
                        return inner_event.wait(*a, **k)

                    def is_set(self_inner):
                        return inner_event.is_set()
                self._done_event = EventProxy()
                cb_inner = self._done_callbacks_lock

                class CbLockProxy:
                    def __enter__(s2):
                        cb_inner.acquire()
                        if obs.announcing.get((coord.transfer_id, obs.me())):
                            obs.emit(coord.transfer_id, 'cbLock %d' % obs.who(coord.transfer_id))
                            if coord._done_callbacks:
                                # the registered done callbacks run now, under this lock
                                obs.emit(coord.transfer_id, 'cbDone %d' % obs.who(coord.transfer_id))

                    def __exit__(s2, *a):
                        # the model's annEnd is the release of the callbacks lock: stamp it before
                        # the release (which is a scheduling point) lets the next announcer in
                        key = (coord.transfer_id, obs.me())
                        if obs.announcing.get(key):
                            obs.emit(coord.transfer_id, 'annEnd %d' % obs.who(coord.transfer_id))
                            obs.ann_end_emitted[key] = True
                        cb_inner.release()

                    def acquire(s2, *a, **k):
                        return cb_inner.acquire(*a, **k)

                    def release(s2):
                        cb_inner.release()
                self._done_callbacks_lock = CbLockProxy()

            def _stamp(self):
                return self._lock.last.get(obs.me())

            def set_status_to_queued(self):
                try:
                    super().set_status_to_queued()
                finally:
                    obs.emit(self.transfer_id, 'toQueued', self._stamp())

            def set_status_to_running(self):
                try:
                    super().set_status_to_running()
                finally:
                    obs.emit(self.transfer_id, 'toRunning', self._stamp())

            def set_result(self, result):
                super().set_result(result)
                cur = obs.thread_task.get(obs.me())
                if cur and cur[1] != 'sub':
                    obs.emit(self.transfer_id, 'setResult %d' % cur[1], self._stamp())

            def set_exception(self, exception, override=False):
                super().set_exception(exception, override)
                cur = obs.thread_task.get(obs.me())
                if override:
                    obs.emit(self.transfer_id, 'OVERRIDE', self._stamp())
                elif cur and cur[0] == self.transfer_id:
                    if cur[1] != 'sub' and obs.last_req_ok.get((self.transfer_id, cur[1])):
                        # the request succeeded but the task's main still raised (a progress callback,
                        # closing the body, …)
                        obs.emit(self.transfer_id, 'mainFail %d' % cur[1], self._stamp() - 0.5 if self._stamp() else None)
                    obs.emit(self.transfer_id, 'subFail' if cur[1] == 'sub' else 'record %d' % cur[1], self._stamp())

            def cancel(self, msg='', exc_type=futures_mod.CancelledError):
                # the effect happens under the state lock; stamp it there.  The announcement a
                # not-started transfer gets is logged by announce_done itself.
                marker = {'t': None}
                lock = self._lock
                orig_acquire = lock.acquire

                canceller = obs.me()

                def acquire(*a, **k):
                    r = orig_acquire(*a, **k)
                    if marker['t'] is None and obs.me() == canceller:
                        marker['t'] = lock.last.get(obs.me())
                        obs.emit(self.transfer_id, 'cancel', marker['t'])
                    return r
                lock.acquire = acquire
                try:
                    super().cancel(msg, exc_type)
                finally:
                    lock.acquire = orig_acquire

            def submit(self, executor, task, tag=None):
                ti = self.transfer_id
                ids = obs.task_ids.setdefault(ti, {})
                j = obs._pending_id(ti, task)
                deps = []
                for v in task._pending_main_kwargs.values():
                    for f in (v if isinstance(v, list) else [v]):
                        d = getattr(f, '_s3v_task', None)
                        if d is not None:
                            deps.append(d[1])
                # the submission blocks on the stage semaphore first; the task exists for the model
                # once the executor has it, which is when the real call returns
                fut = super().submit(executor, task, tag)
                fut._s3v_task = (ti, j)
                obs.emit(ti, 'submit %d %d %s' % (j, 1 if task._is_final else 0,
                                                  ','.join(map(str, sorted(set(deps)))) or '-'),
                         getattr(task, '_s3v_submit_t', None))
                return fut

            def add_failure_cleanup(self, function, *args, **kwargs):
                super().add_failure_cleanup(function, *args, **kwargs)
                if getattr(function, '__name__', '') == 'abort_multipart_upload':
                    cur = obs.thread_task.get(obs.me())
                    if cur and cur[1] != 'sub':
                        obs.emit(self.transfer_id, 'registerAbort %d' % cur[1])

            def announce_done(self):
                who = obs.who(self.transfer_id)
                obs.announcing[(self.transfer_id, obs.me())] = True
                if who != 0:
                    obs.emit(self.transfer_id, 'annBegin %d' % who)
                else:
                    obs.emit(self.transfer_id, 'ANN0')     # marker: the cancel label already covers it
                try:
                    super().announce_done()
                finally:
                    obs.announcing.pop((self.transfer_id, obs.me()), None)
                    if not obs.ann_end_emitted.pop((self.transfer_id, obs.me()), False):
                        obs.emit(self.transfer_id, 'annEnd %d' % who)

            def _run_failure_cleanups(self):
                me = obs.me()
                obs.abort_by[me] = False
                obs.in_cleanup[(self.transfer_id, me)] = True
                super()._run_failure_cleanups()
                if not obs.abort_by.get(me):
                    obs.emit(self.transfer_id, 'cleaned %d' % obs.who(self.transfer_id))

        self.saved.append((manager_mod, 'TransferCoordinator', manager_mod.TransferCoordinator))
        manager_mod.TransferCoordinator = ObservedCoordinator
        self.submit_stamp = {}

        orig_exec_main = tasks_mod.Task._execute_main

        def _execute_main(task, kwargs):
            cur = obs.thread_task.get(obs.me())
            if cur:
                ti, j = cur
                obs.main_started.add((ti, j))
                obs.emit(ti, 'subDecide 1' if j == 'sub' else 'decide %d 1' % j)
            return orig_exec_main(task, kwargs)
        self.saved.append((tasks_mod.Task, '_execute_main', orig_exec_main))
        tasks_mod.Task._execute_main = _execute_main

        def on_exec(name, kind, fn):
            ti = getattr(fn, 'transfer_id', None)
            uid = getattr(fn, '_s3v_uid', None)
            if uid is None:
                uid = len(self.task_uid)
                fn._s3v_uid = uid
                self.task_uid[uid] = fn
            self.exec_events.setdefault(name, []).append((self.sch.tick(), kind, uid))
            if ti is None:
                return
            is_sub = isinstance(fn, tasks_mod.SubmissionTask)
            if kind == 'submit':
                if not is_sub:
                    fn._s3v_submit_t = self.sch.tick()
                return
            if kind == 'pick':
                if is_sub:
                    self.thread_task[self.me()] = (ti, 'sub')
                    obs.emit(ti, 'subStart')
                else:
                    j = self._pending_id(ti, fn)
                    self.thread_task[self.me()] = (ti, j)
                    obs.emit(ti, 'taskStart %d' % j)
            elif kind == 'finish':
                cur = self.thread_task.pop(self.me(), None)
                if cur:
                    ti, j = cur
                    if (ti, j) not in self.main_started:
                        obs.emit(ti, 'subDecide 0' if j == 'sub' else 'decide %d 0' % j, t=self._decide_stamp(ti, j))
                        if j == 'sub':
                            return       # the model ends a skipped submission task with subDecide 0
                    obs.emit(ti, 'subEnd' if j == 'sub' else 'taskEnd %d' % j)
        self._on_exec = on_exec
        self.shims.exec_observers.append(on_exec)

    def _pending_id(self, ti, fn):
        ids = self.task_ids.setdefault(ti, {})
        j = getattr(fn, '_s3v_j', None)
        if j is None:
            j = len(ids)
            fn._s3v_j = j
            ids[j] = fn          # keeps the task alive, ids are never reused
        return j

    def _decide_stamp(self, ti, j):
        """a skipped main is noticed when the task ends; the decision itself was taken before the
        task's next own event (its announcement, if it is a final task)"""
        who = 1 if j == 'sub' else j + 2
        for t, lab in self.labels.get(ti, []):
            if lab == 'annBegin %d' % who:
                return t - 0.5
        return None

    def request_event(self, op, phase, ok, key_ti, t):
        """called for every fake-S3 log entry"""
        me = self.me()
        cur = self.thread_task.get(me)
        if op == 'abort_multipart_upload':
            self.abort_by[me] = True
            who = self.who(key_ti)
            self.emit(key_ti, ('abortBegin %d' if phase == 'begin' else 'abortEnd %d') % who, t)
            return
        if cur and cur[0] == key_ti and cur[1] != 'sub':
            if phase == 'begin':
                self.emit(key_ti, 'reqBegin %d' % cur[1], t)
            else:
                self.last_req_ok[(key_ti, cur[1])] = ok
                self.emit(key_ti, 'reqEnd %d %d' % (cur[1], 1 if ok else 0), t)

    def uninstall(self):
        for obj, name, val in self.saved:
            setattr(obj, name, val)
        self.saved = []
        if self._on_exec in self.shims.exec_observers:
            self.shims.exec_observers.remove(self._on_exec)

    def sequence(self, ti):
        return [lab for _, lab in sorted(self.labels.get(ti, []), key=lambda x: x[0])]
