"""CRT glue (C20): the real `s3transfer.crt.CRTTransferManager` against a stub `awscrt`
(fakecrt.py) — sequential op sequences compared line by line with S3V.Model.Crt, runs under the
deterministic scheduler (a blocking submitter, 1-2 'CRT threads' completing requests in any
order, shutdown / cancel / Ctrl-C) validated against the model after linearisation, and the
direct C20 oracle on those runs (permits, release count per path, callback order, temp files,
shutdown barrier)."""
import io
import os
import shutil
import tempfile
import threading as real_threading
import types

from common import CorrResult, compare_with_model, rng_for, run_driver, DriverError
from oracle import OracleResult

KINDS = ['upload', 'dlpath', 'dlstream', 'delete']
_CTX = real_threading.local()
_SERIALIZER = []


class SerializerFault(Exception):
    pass


class RenameFault(OSError):
    pass


def _botocore_serializer():
    """One shared BotocoreCRTRequestSerializer (the real glue that turns call args into a CRT
    HTTP request through a botocore client); creating it costs ~0.3 s."""
    if not _SERIALIZER:
        import botocore.session
        import s3transfer.crt as crt
        sess = botocore.session.Session()
        sess.set_credentials('ak', 'sk')
        _SERIALIZER.append(crt.BotocoreCRTRequestSerializer(sess, {'region_name': 'us-west-2'}))
    return _SERIALIZER[0]


class Rig:
    def __init__(self, cap, future_first, sched_shims=None, use_botocore=False):
        import fakecrt
        fakecrt.install()
        import s3transfer.crt as crt
        from s3transfer.subscribers import BaseSubscriber
        from s3transfer.utils import OSUtils
        self.crt = crt
        self.fakecrt = fakecrt
        self.cap = cap
        self.events = []          # (seq, transfer index or None, kind, detail)
        self.dir = tempfile.mkdtemp(prefix='s3v-crt-')
        self.rename_fail = set()  # final filenames whose rename must fail
        self.kinds = []
        self.finals = {}
        self.futures = {}
        self.req_of = {}          # transfer index -> StubRequest
        self.spec_of = {}         # transfer index -> scenario spec (two submitting threads: indices are in call order)
        self.serializer_fail = set()
        self.queued_fail = set()     # transfers whose on_queued subscriber raises
        self.sh = sched_shims
        rig = self

        class InstrOSUtils(OSUtils):
            def rename_file(self, a, b):
                rig.yield_point('rename')
                rig.log('rename', os.path.basename(b))
                if b in rig.rename_fail:
                    raise RenameFault('injected rename failure')
                return super().rename_file(a, b)

            def remove_file(self, f):
                rig.log('remove', os.path.basename(f))
                return super().remove_file(f)

        class Coord(crt.CRTTransferCoordinator):
            def set_done_callbacks_complete(self):
                rig.log('event', self.transfer_id)
                return super().set_done_callbacks_complete()

        class LogSem:
            def __init__(self, inner):
                self.inner = inner

            def acquire(self, *a, **k):
                r = self.inner.acquire(*a, **k)
                rig.log('acquire', None)
                return r

            def release(self, *a, **k):
                rig.log('release', None)
                return self.inner.release(*a, **k)

            @property
            def value(self):
                return self.inner.value if hasattr(self.inner, 'value') else self.inner._value

        base = sched_shims.threading if sched_shims is not None else real_threading
        ns = types.SimpleNamespace(**{n: getattr(base, n) for n in ('Lock', 'Event', 'Semaphore')})

        def make_sem(v):
            # the manager's `threading.Semaphore(128)`: same class, `cap` permits
            assert v == 128, v
            rig.sem = LogSem(base.Semaphore(cap))
            return rig.sem
        ns.Semaphore = make_sem
        self._saved = [(crt, 'OSUtils', crt.OSUtils), (crt, 'threading', crt.threading),
                       (crt, 'CRTTransferCoordinator', crt.CRTTransferCoordinator)]
        crt.OSUtils, crt.threading, crt.CRTTransferCoordinator = InstrOSUtils, ns, Coord

        class Ser(crt.BaseCRTRequestSerializer):
            def __init__(self):
                self.inner = _botocore_serializer() if use_botocore else None

            def serialize_http_request(self, transfer_type, future):
                if _CTX.cur in rig.serializer_fail:
                    rig.log('serializer-raises', None)
                    raise SerializerFault('injected serializer failure')
                if self.inner is not None:
                    return self.inner.serialize_http_request(transfer_type, future)
                return fakecrt.HttpRequest()

            def translate_crt_exception(self, exception):
                return self.inner.translate_crt_exception(exception) if self.inner is not None else None

        class Sub(BaseSubscriber):
            def __init__(self, idx):
                self.idx = idx

            def on_queued(self, future, **kw):
                rig.log('sub-queued', self.idx)
                if self.idx in rig.queued_fail:
                    raise SerializerFault('injected on_queued failure')

            def on_progress(self, future, bytes_transferred, **kw):
                rig.log('sub-progress', self.idx)

            def on_done(self, future, **kw):
                rig.log('subs', self.idx)
                rig.yield_point('subscriber-on_done')      # user callbacks take time
                if rig.spec_of.get(self.idx, {}).get('chain'):
                    # user code that starts the next transfer from the completion callback of this one
                    saved = getattr(_CTX, 'cur', None)
                    try:
                        rig.submit('delete', None, {'kind': 'delete', 'fail': None, 'err': False, 'rename_fails': False, 'chained_from': self.idx})
                    finally:
                        _CTX.cur = saved
        self.Sub = Sub
        if sched_shims is not None:
            shims = sched_shims

            class Fut:
                """concurrent.futures.Future API on the cooperative future"""
                def __init__(self):
                    self.f = shims.Future()

                def done(self):
                    return self.f.done()

                def set_result(self, r):
                    self.f._finish(result=r)

                def set_exception(self, e):
                    self.f._finish(exc=e)

                def result(self, timeout=None):
                    n = rig.result_calls
                    rig.result_calls += 1
                    if n in rig.ki_plan and not self.f.done():
                        rig.log('keyboard-interrupt', None)
                        raise KeyboardInterrupt()
                    return self.f.result(timeout)
            factory = Fut
        else:
            from concurrent.futures import Future
            factory = Future
        self.result_calls = 0
        self.ki_plan = set()
        class CtxClient(fakecrt.StubS3Client):
            # requests are attributed to the submitting call through the thread-local context, so that
            # several application threads may submit at once
            def make_request(self_c, **kwargs):
                if _CTX.cur in rig.fail_make_request:
                    self_c.calls += 1
                    self_c.log('make_request-raises', _CTX.cur)
                    raise fakecrt.AwsCrtError(1, 'AWS_ERROR_INVALID_ARGUMENT', 'stub construction failure')
                r = super().make_request(**kwargs)
                r.tidx = _CTX.cur
                rig.req_of[_CTX.cur] = r
                return r
        self.fail_make_request = set()
        self.client = CtxClient(factory, future_first=future_first, log=self.log)
        self.mgr = crt.CRTTransferManager(self.client, Ser())
        _CTX.cur = None

    def close(self):
        for mod, name, val in self._saved:
            setattr(mod, name, val)
        shutil.rmtree(self.dir, ignore_errors=True)

    def yield_point(self, label):
        if self.sh is not None:
            self.sh.sched.point(label)

    def log(self, kind, detail=None):
        seq = self.sh.sched.tick() if self.sh is not None else len(self.events)
        self.events.append((seq, getattr(_CTX, 'cur', None), kind, detail))

    # ---- operations ---------------------------------------------------------
    def submit(self, kind, fail_mode, spec=None):
        """fail_mode: None | 'make_request' | 'serializer' | 'nofile' (uploads from a path only)"""
        idx = len(self.kinds)
        self.kinds.append(kind)
        self.spec_of[idx] = spec if spec is not None else {'kind': kind, 'fail': fail_mode, 'err': False, 'rename_fails': False}
        _CTX.cur = idx
        if fail_mode == 'make_request':
            self.fail_make_request.add(idx)
        elif fail_mode == 'serializer':
            self.serializer_fail.add(idx)
        elif fail_mode == 'on_queued':
            self.queued_fail.add(idx)
        subs = [self.Sub(idx)]
        m = self.mgr
        before = self.client.calls
        try:
            if kind == 'upload':
                if fail_mode == 'nofile':
                    src = os.path.join(self.dir, 'missing-%d' % idx)
                elif idx % 2:
                    src = os.path.join(self.dir, 'src-%d' % idx)
                    with open(src, 'wb') as f:
                        f.write(b'x' * 10)
                else:
                    src = io.BytesIO(b'y' * 10)
                fut = m.upload(src, 'bucket', 'key-%d' % idx, subscribers=subs)
            elif kind == 'dlpath':
                final = os.path.join(self.dir, 'dest-%d' % idx)
                self.finals[idx] = final
                fut = m.download('bucket', 'key-%d' % idx, final, subscribers=subs)
            elif kind == 'dlstream':
                fut = m.download('bucket', 'key-%d' % idx, io.BytesIO(), subscribers=subs)
            else:
                fut = m.delete('bucket', 'key-%d' % idx, subscribers=subs)
        finally:
            _CTX.cur = None
        self.futures[idx] = fut
        return idx

    def complete(self, idx, err, rename_fails):
        r = self.req_of[idx]
        if rename_fails and idx in self.finals:
            self.rename_fail.add(self.finals[idx])
        r.used_err = bool(err)
        r.cancelled_before = r.cancel_requested
        _CTX.cur = idx
        try:
            r.complete(self.fakecrt.AwsCrtError(2, 'AWS_ERROR_S3_CANCELED' if r.cancel_requested else 'AWS_ERROR_STUB', 'x')
                       if err else None)
        finally:
            _CTX.cur = None

    # ---- observation ----------------------------------------------------------
    def outstanding(self, idx):
        r = self.req_of.get(idx)
        return r is not None and not r.completed

    def temp_files(self, idx):
        final = os.path.basename(self.finals[idx])
        return [f for f in os.listdir(self.dir) if f.startswith(final + '.')]

    def summary(self, idx, with_result=True):
        ev = [(k, d) for _, c, k, d in self.events if c == idx]
        names = [k for k, _ in ev if k in ('rename', 'remove', 'subs', 'release', 'event')]
        out = self.outstanding(idx)
        if self.kinds[idx] != 'dlpath':
            fs = '-'
        elif out:
            fs = 'temp'
        else:
            final_there = os.path.exists(self.finals[idx])
            temps = self.temp_files(idx)
            if final_there and not temps:
                fs = 'renamed'
            elif not final_there and not temps:
                fs = 'removed' if 'remove' in names else '-'
            else:
                fs = 'bad:final=%d,temps=%d' % (final_there, len(temps))
        failed = 0
        if not out and with_result:
            if self.sh is not None:
                # outside the scheduler a cooperative future cannot be waited on: read what
                # coordinator.result() would raise
                c = self.futures[idx]._coordinator
                failed = int(c._exception is not None or (c._crt_future is not None and c._crt_future.f._exc is not None))
            else:
                try:
                    self.futures[idx].result()
                except Exception:
                    failed = 1
        return 'out=%d rel=%d log=%s fs=%s failed=%d' % (out, names.count('release'), ','.join(names), fs, failed)

    def free(self):
        return self.sem.value


# ---------------------------------------------------------------------------
# sequential correspondence

def _seq_case(rng, use_botocore):
    cap = rng.choice([1, 2, 2, 3, 4])
    ff = rng.random() < 0.7
    rig = Rig(cap, ff, use_botocore=use_botocore)
    ops = [('crt init %d %d' % (cap, ff), 'ok')]
    fp = []
    try:
        for _ in range(rng.randrange(3, 18)):
            outs = [i for i in range(len(rig.kinds)) if rig.outstanding(i)]
            r = rng.random()
            if outs and (r < 0.45 or rig.free() == 0 and r < 0.9):
                i = rng.choice(outs)
                err = rng.random() < 0.35
                rf = rig.kinds[i] == 'dlpath' and rng.random() < 0.3
                rig.complete(i, err, rf)
                ops.append(('crt complete %d %d %d' % (i, err, rf), 'free=%d %s' % (rig.free(), rig.summary(i))))
                fp.append(('c', rig.kinds[i], err, rf))
            elif r < 0.93:
                kind = rng.choice(KINDS)
                fail = None
                if rng.random() < 0.25:
                    fail = rng.choice(['make_request', 'serializer', 'on_queued'] + (['nofile'] if kind == 'upload' else []))
                if rig.free() == 0:
                    ops.append(('crt submit %s %d' % (kind, fail is not None), 'blocked'))
                    fp.append(('blocked',))
                    continue
                if fail == 'nofile' and len(rig.kinds) % 2 == 0:
                    fail = 'make_request'
                i = rig.submit(kind, fail)
                ops.append(('crt submit %s %d' % (kind, fail is not None), 'free=%d %s' % (rig.free(), rig.summary(i))))
                fp.append(('s', kind, fail))
            else:
                # would shutdown() return now?  (only ask the implementation when it would not block)
                alldone = all(not rig.outstanding(i) for i in range(len(rig.kinds)))
                if alldone:
                    rig.mgr.shutdown()
                    ops.append(('crt shutdown', 'returned'))
                else:
                    ops.append(('crt shutdown', 'waits'))
                fp.append(('shutdown', alldone))
        ops.append(('crt free', 'free=%d outstanding=%d n=%d' % (
            rig.free(), sum(rig.outstanding(i) for i in range(len(rig.kinds))), len(rig.kinds))))
    finally:
        rig.close()
    return (cap, ff), ops, tuple(fp)


def corr(seed, tier):
    res = CorrResult('crt')
    rng = rng_for(seed, 'crt')
    cases = []
    n = 150 if tier == 'quick' else 2500
    for ci in range(n):
        head, ops, fp = _seq_case(rng, use_botocore=(ci % 5 == 0))
        descr = {'cap': head[0], 'future_first': head[1], 'ops': [l for l, _ in ops]}
        cases.append((descr, ops))
        nontrivial = any(x[0] == 'c' for x in fp) and any(x[0] == 's' for x in fp)
        res.note_case((head, fp), nontrivial, descr)
        for x in fp:
            res.hit('op:' + ':'.join(str(y) for y in x[:2]))
    compare_with_model(res, cases)
    return res


# ---------------------------------------------------------------------------
# runs under the scheduler

def _gen_scenario(rng, tier):
    big = rng.random() < (0.04 if tier == 'quick' else 0.08)
    cap = 128 if big else rng.choice([1, 1, 2, 2, 3])
    n = cap + rng.randrange(1, 6)
    transfers = []
    for _ in range(n):
        kind = rng.choice(KINDS)
        fail = None
        if rng.random() < 0.2:
            fail = rng.choice(['make_request', 'serializer', 'on_queued'] + (['nofile'] if kind == 'upload' else []))
        transfers.append({'kind': kind, 'fail': fail, 'err': rng.random() < 0.3,
                          'rename_fails': kind == 'dlpath' and rng.random() < 0.25})
    chain = False
    if (big or cap >= 2) and rng.random() < (0.8 if big else 0.25):
        # a subscriber that submits the next transfer from on_done.  It needs a permit while its own transfer
        # still holds one: one such subscriber, two client threads (the other one keeps completing requests)
        ok = [t for t in transfers if not t['fail']]
        if ok:
            rng.choice(ok)['chain'] = True
            chain = True
    end = rng.choice(['exit', 'exit', 'shutdown-cancel', 'exception-in-block', 'ctrl-c'])
    submitters = rng.choice([1, 1, 2])
    if submitters == 2 and end == 'exception-in-block':
        end = 'exit'        # leaving the block while another thread still submits is the application's error
    return {'cap': cap, 'future_first': rng.random() < 0.7, 'transfers': transfers, 'end': end,
            'crt_threads': 2 if chain else rng.choice([1, 2]), 'raise_after': rng.randrange(1, n + 1),
            'ki_at': rng.randrange(0, 3), 'sched_seed': rng.randrange(1 << 30), 'submitters': submitters,
            'mode': rng.choice(['uniform', 'sticky', 'pct', 'stall'])}


class UserError(Exception):
    pass


def run_scenario(sc, schedule=None):
    from sched import Scheduler
    import shim
    import fakecrt
    fakecrt.install()
    import s3transfer.crt  # noqa: F401
    s = Scheduler(seed=sc['sched_seed'], mode=sc['mode'], schedule=schedule, max_steps=400000)
    out = {'errors': [], 'shutdown_returned': None}
    with shim.Installed(s, modules=['utils', 'futures']) as sh:
        rig = Rig(sc['cap'], sc['future_first'], sched_shims=sh)
        if sc['end'] == 'ctrl-c':
            rig.ki_plan.add(sc['ki_at'])
        state = {'stop': False, 'claimed': set()}

        def crt_thread():
            while True:
                def ready():
                    return state['stop'] or any(rig.outstanding(i) and i not in state['claimed'] for i in rig.req_of)
                s.block_until(ready, ('crt-idle',))
                cands = sorted(i for i in rig.req_of if rig.outstanding(i) and i not in state['claimed'])
                if not cands:
                    if state['stop']:
                        return
                    continue
                i = s.rng.choice(cands)
                state['claimed'].add(i)
                s.point('crt-picked')
                t = rig.spec_of[i]
                err = t['err'] or rig.req_of[i].cancel_requested
                rig.complete(i, err, t['rename_fails'])

        def main():
            for k in range(sc['crt_threads']):
                s.spawn(crt_thread, 'crt%d' % k)
            try:
                try:
                    with rig.mgr:
                        mine = sc['transfers']
                        helper = None
                        if sc.get('submitters', 1) == 2 and len(mine) >= 4:
                            # a second application thread submits through the same manager
                            half = len(mine) // 2
                            theirs, mine = mine[half:], mine[:half]

                            def second():
                                for t2 in theirs:
                                    rig.submit(t2['kind'], t2['fail'], t2)
                            helper = s.spawn(second, 'submitter2')
                        for k, t in enumerate(mine):
                            if sc['end'] == 'exception-in-block' and k == sc['raise_after']:
                                raise UserError()
                            rig.submit(t['kind'], t['fail'], t)
                            out['submitted'] = k + 1
                        if helper is not None:
                            s.block_until(lambda: helper.finished, ('join', 'submitter2'))
                        if sc['end'] == 'shutdown-cancel':
                            rig.mgr.shutdown(cancel=True)
                except UserError:
                    pass
                except KeyboardInterrupt:
                    out['errors'].append('KeyboardInterrupt escaped shutdown')
                rig.log('shutdown-returned', None)
                out['shutdown_returned'] = True
            finally:
                state['stop'] = True

        failure = s.run(main, timeout=120)
        out['failure'] = failure
        out['thread_errors'] = [repr(e) for e in s.thread_errors]
        out['rig'] = rig
        out['choices'] = list(s.choices)
        out['multi'] = s.multi_runnable_points
        try:
            out['summaries'] = [rig.summary(i) for i in range(len(rig.kinds))] if failure is None else []
            out['free'] = rig.free()
        finally:
            rig.close()
    return out


def _path_of(sc, rig, i):
    t = rig.spec_of[i]
    if t['fail']:
        return 'construct-fail'
    r = rig.req_of.get(i)
    if r is not None and getattr(r, 'cancelled_before', False):
        return 'cancel'
    return 'error' if t['err'] else 'success'


def judge(sc, out):
    """The C20 statement, clause by clause, on one scheduled run.  Returns [(signature, what)]."""
    v = []
    rig = out['rig']
    if out['failure'] is not None:
        v.append(('hang:%s' % type(out['failure']).__name__, 'the run did not finish: %s' % out['failure']))
        return v
    for e in out['thread_errors'] + out['errors']:
        v.append(('thread-error', e))
    cap = sc['cap']
    if rig.client.max_outstanding > cap:
        v.append(('permits-exceeded', '%d requests outstanding at the CRT client with %d permits' % (rig.client.max_outstanding, cap)))
    if out['free'] != cap:
        v.append(('permits-not-restored:%s' % ('low' if out['free'] < cap else 'high'),
                  'semaphore at %d of %d after every transfer finished' % (out['free'], cap)))
    shut = [seq for seq, _, k, _ in rig.events if k == 'shutdown-returned']
    for i in range(len(rig.kinds)):
        ev = [(seq, k) for seq, c, k, _ in rig.events if c == i]
        path = _path_of(sc, rig, i)
        rel = [seq for seq, k in ev if k == 'release']
        if len(rel) != 1:
            v.append(('release-count:%d:%s' % (len(rel), path), 'transfer %d (%s, %s) released its permit %d times' % (i, rig.kinds[i], path, len(rel))))
        subs = [seq for seq, k in ev if k == 'subs']
        evs = [seq for seq, k in ev if k == 'event']
        if len(subs) != 1 or len(evs) != 1 or not subs[0] < evs[0]:
            v.append(('done-order:%s' % path, 'transfer %d: subscriber on_done at %s, callbacks-complete event at %s' % (i, subs, evs)))
        if shut and evs and not evs[-1] < shut[0]:
            v.append(('shutdown-before-callbacks', 'shutdown returned at %d, transfer %d finished its callbacks at %d' % (shut[0], i, evs[-1])))
        if shut and not evs:
            v.append(('shutdown-before-callbacks', 'shutdown returned, transfer %d never finished its callbacks' % i))
        if rig.kinds[i] == 'dlpath' and path != 'construct-fail':
            summ = out['summaries'][i]
            fs = summ.split('fs=')[1].split()[0]
            t = rig.spec_of[i]
            if path == 'success' and not t['rename_fails']:
                if fs != 'renamed':
                    v.append(('not-published', 'successful download %d: destination state %s' % (i, fs)))
            elif fs != 'removed':
                v.append(('temp-left:%s' % path, 'failed download %d (%s): destination state %s' % (i, path, fs)))
    return v


def _model_lines(sc, out):
    """Linearise the run: submissions at the moment the request was created / failed, completions
    at the moment the client called on_done."""
    rig = out['rig']
    lines = ['crt init %d %d' % (sc['cap'], sc['future_first'])]
    for seq, c, k, _ in sorted(rig.events):
        if k in ('make_request', 'make_request-raises', 'serializer-raises', 'nofile'):
            lines.append('crt submit %s %d' % (rig.kinds[c], k != 'make_request'))
        elif k == 'on_done-begin':
            t = rig.spec_of[c]
            err = rig.req_of[c].used_err
            lines.append('crt complete %d %d %d' % (c, err, t['rename_fails'] and rig.kinds[c] == 'dlpath'))
    return lines


def sched_corr(seed, tier):
    res = CorrResult('crt-sched')
    rng = rng_for(seed, 'crt-sched')
    n = 300 if tier == 'quick' else 5000
    batch = []
    for _ in range(n):
        sc = _gen_scenario(rng, tier)
        out = run_scenario(sc)
        if out['failure'] is not None:
            res.hit('hang')
            res.mismatches.append({'component': 'crt-sched', 'case': sc, 'ops': [], 'first_diverging_op': 'run',
                                   'impl': 'did not finish: %s' % out['failure'], 'model': 'every run finishes'})
            continue
        rig = out['rig']
        # 'nofile' construction failures are raised by os.path.getsize before any stub is reached
        # (no event): add the submit line at the position of the transfer's release
        lines = _model_lines_with_nofile(sc, out)
        order = [i for i in range(len(rig.kinds)) if i in out['midx']]
        lines += ['crt show %d' % out['midx'][i] for i in order] + ['crt free']
        expect = [None] * (len(lines) - len(order) - 1) + [out['summaries'][i] for i in order] + [
            'free=%d outstanding=0 n=%d' % (out['free'], len(rig.kinds))]
        batch.append((sc, lines, expect))
        res.note_case((sc['cap'], tuple((t['kind'], t['fail'], t['err']) for t in sc['transfers']), sc['end'], tuple(out['choices'][:40])),
                      out['multi'] > 3, {k: sc[k] for k in ('cap', 'end', 'future_first')} if len(res.samples) < 2 else None)
        res.hit('end:' + sc['end'])
        res.hit('cap128' if sc['cap'] == 128 else 'cap-small')
    all_lines = []
    for sc, lines, expect in batch:
        all_lines.append('reset')
        all_lines.extend(lines)
    try:
        model = run_driver(all_lines)
    except DriverError as e:
        res.error = 'driver: %s' % e
        return res
    pos = 0
    for sc, lines, expect in batch:
        pos += 1
        for j, (line, exp) in enumerate(zip(lines, expect)):
            m = model[pos + j]
            res.ops += 1
            bad = None
            if exp is None:
                if m in ('blocked', 'not-enabled', 'bad-op'):
                    bad = ('accepted by the implementation', m)
            else:
                mm = m.split(' ', 1)[1] if line.startswith('crt show') else m
                if mm != exp:
                    bad = (exp, mm)
            if bad:
                res.mismatches.append({'component': 'crt-sched', 'case': sc, 'ops': lines[:j + 1],
                                       'first_diverging_op': line, 'impl': bad[0], 'model': bad[1]})
                break
        pos += len(lines)
    return res


def _model_lines_with_nofile(sc, out):
    """Linearise the run: submissions at the moment the request was created / failed, completions at
    the moment the client called on_done.  With two submitting threads the model numbers transfers in
    the order of these submission events; `out['midx']` maps the rig's index to the model's."""
    rig = out['rig']
    lines = ['crt init %d %d' % (sc['cap'], sc['future_first'])]
    midx = {}
    for seq, c, k, _ in sorted(rig.events, key=lambda e: e[0]):
        if c is None:
            continue
        if k in ('make_request', 'make_request-raises', 'serializer-raises'):
            midx[c] = len(midx)
            lines.append('crt submit %s %d' % (rig.kinds[c], k != 'make_request'))
        elif k == 'subs' and c not in midx:
            # construction failed before the serializer / client was reached (missing upload file)
            midx[c] = len(midx)
            lines.append('crt submit %s 1' % rig.kinds[c])
        elif k == 'on_done-begin':
            t = rig.spec_of[c]
            err = rig.req_of[c].used_err
            lines.append('crt complete %d %d %d' % (midx[c], err, t['rename_fails'] and rig.kinds[c] == 'dlpath'))
    out['midx'] = midx
    return lines


def oracle(seed, tier):
    res = OracleResult('C20')
    rng = rng_for(seed, 'crt-oracle')
    n = 1200 if tier == 'quick' else 20000
    for _ in range(n):
        sc = _gen_scenario(rng, tier)
        out = run_scenario(sc)
        res.evaluations += 1
        if res.enough():
            break
        rig = out['rig']
        paths = tuple(sorted({_path_of(sc, rig, i) for i in range(len(rig.kinds))}))
        res.nontrivial.add((sc['cap'], paths, sc['end'], len(rig.kinds) > sc['cap']))
        res.hit('end:' + sc['end'])
        for p in paths:
            res.hit('path:' + p)
        if len(res.samples) < 2:
            res.samples.append({'cap': sc['cap'], 'transfers': len(sc['transfers']), 'end': sc['end'], 'paths': paths})
        for sig, what in judge(sc, out):
            res.violation(sig, {'scenario': sc, 'schedule': out['choices']}, what)
    return res
