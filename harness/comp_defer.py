"""Defer component (C16, part of C02): download.DeferQueue against S3V.Model.Defer, and the
direct C16 oracle on the real class (written from the statement: in order, once, prompt)."""
import itertools

from common import CorrResult, compare_with_model, rng_for
from oracle import OracleResult


def obj_bytes(n):
    return bytes((i * 7 + 1) % 256 for i in range(n))


def gen_history(rng, max_parts=4, max_part=7):
    """A delivery history the download loop can produce: disjoint parts; each part has 1-3
    attempts delivering consecutive chunks from the part's first byte with their own cut
    points; all but the last attempt may stop anywhere; attempts of different parts interleave
    arbitrarily (attempts of one part are sequential)."""
    nparts = rng.randrange(1, max_parts + 1)
    psize = rng.randrange(1, max_part + 1)
    last = rng.randrange(1, psize + 1)
    sizes = [psize] * (nparts - 1) + [last]
    n = sum(sizes)
    obj = obj_bytes(n)
    streams = []
    start = 0
    for sz in sizes:
        deliveries = []
        nat = rng.choice([1, 1, 2, 2, 3])
        for a in range(nat):
            upto = sz if a == nat - 1 else rng.randrange(0, sz + 1)
            pos = 0
            while pos < upto:
                step = rng.randrange(1, min(4, upto - pos) + 1)
                deliveries.append((start + pos, obj[start + pos:start + pos + step]))
                pos += step
        streams.append(deliveries)
        start += sz
    # interleave
    hist = []
    idx = [0] * len(streams)
    live = [i for i, s in enumerate(streams) if s]
    while live:
        i = rng.choice(live)
        hist.append(streams[i][idx[i]])
        idx[i] += 1
        if idx[i] == len(streams[i]):
            live.remove(i)
    return obj, hist


def exhaustive_histories(n, length):
    """every sequence of `length` chunks (off, len) inside an object of n bytes"""
    obj = obj_bytes(n)
    chunks = [(o, l) for o in range(n) for l in range(1, n - o + 1)]
    for seq in itertools.product(chunks, repeat=length):
        yield obj, [(o, obj[o:o + l]) for o, l in seq]


def _real():
    from s3transfer.download import DeferQueue
    return DeferQueue()


def _fmt(writes):
    return ';'.join('%d:%s' % (w['offset'], ','.join(str(b) for b in w['data'])) for w in writes)


def _all_histories(seed, tier, tag):
    rng = rng_for(seed, tag)
    hs = []
    # corpus: D2 witnesses first
    o = obj_bytes(8)
    hs.append((o, [(0, o[0:3]), (0, o[0:5]), (5, o[5:8])]))
    hs.append((o, [(3, o[3:4]), (4, o[4:6]), (3, o[3:5]), (0, o[0:3]), (6, o[6:8])]))
    hs.append((b'', [(0, b'')]))
    for _ in range(500 if tier == 'quick' else 8000):
        hs.append(gen_history(rng))
    for obj, h in exhaustive_histories(3, 3 if tier == 'quick' else 4):
        hs.append((obj, h))
    if tier != 'quick':
        for obj, h in exhaustive_histories(4, 3):
            hs.append((obj, h))
    return hs


def corr(seed, tier):
    res = CorrResult('defer')
    cases = []
    for obj, h in _all_histories(seed, tier, 'defer'):
        q = _real()
        ops = [('defer new', 'ok')]
        overlap = False
        seen_upto = 0
        for off, data in h:
            w = q.request_writes(off, data)
            ops.append(('defer req %d %s' % (off, ','.join(str(b) for b in data) or '-'), _fmt(w)))
            if off < seen_upto:
                overlap = True
            seen_upto = max(seen_upto, off + len(data))
        res.hit('overlapping' if overlap else 'disjoint')
        res.note_case((obj, tuple(h)), overlap or len(h) > 2,
                      {'object_len': len(obj), 'history': [(o, len(d)) for o, d in h[:10]]})
        cases.append(({'object_len': len(obj), 'history': [(o, list(d)) for o, d in h]}, ops))
    compare_with_model(res, cases)
    return res


def oracle(seed, tier):
    res = OracleResult('C16')
    for obj, h in _all_histories(seed, tier, 'defer-oracle'):
        q = _real()
        res.evaluations += 1
        if res.enough():
            break
        written = 0
        delivered = set()
        bad = None
        for i, (off, data) in enumerate(h):
            for w in q.request_writes(off, data):
                if w['offset'] != written:
                    bad = ('order', 'write at offset %d, expected %d' % (w['offset'], written))
                elif bytes(w['data']) != obj[written:written + len(w['data'])]:
                    bad = ('bytes', 'write at %d carries wrong bytes' % written)
                written += len(w['data'])
            delivered.update(range(off, off + len(data)))
            m = 0
            while m in delivered:
                m += 1
            if bad is None and written != m:
                bad = ('withheld' if written < m else 'overrun',
                       'after %d deliveries bytes [0,%d) were delivered but %d written' % (i + 1, m, written))
            if bad:
                shape = 'rechunked-redelivery'
                res.violation('deferqueue-' + bad[0],
                              {'object_len': len(obj), 'history': [(o, list(d)) for o, d in h[:i + 1]],
                               'shape': shape},
                              'DeferQueue: ' + bad[1])
                break
        if len(h) > 2:
            res.nontrivial.add((obj, tuple(h)))
    res.samples.append({'object_len': 8, 'history': [[0, 3], [0, 5], [5, 3]]})
    return res


# ---------------------------------------------------------------------------
# The output manager around the defer queue, with several request threads: chunks released in
# offset order must also reach the io executor, and the stream, in that order (C16, C02, C10's
# "in the order they were queued").  Real DownloadNonSeekableOutputManager, TransferCoordinator
# and BoundedExecutor (one io worker, small queue) under the deterministic scheduler.

def manager_run(seed, nthreads, chunks, io_queue, mode):
    from sched import Scheduler
    from shim import Installed
    sch = Scheduler(seed=seed, mode=mode, max_steps=50000)
    out = {'written': [], 'errors': []}
    with Installed(sch, modules=['utils', 'futures', 'download']) as sh:
        from s3transfer.download import DownloadNonSeekableOutputManager
        from s3transfer.futures import BoundedExecutor, TransferCoordinator
        from s3transfer.utils import OSUtils

        class Sink:
            def write(self, b):
                sch.point('sink-write')
                out['written'].append(bytes(b))
        coord = TransferCoordinator(transfer_id=1)
        io = BoundedExecutor(io_queue, 1, executor_cls=sh.Executor)
        mgr = DownloadNonSeekableOutputManager(OSUtils(), coord, io)
        sink = Sink()
        per = [chunks[i::nthreads] for i in range(nthreads)]

        def worker(mine):
            def run():
                for off, data in mine:
                    sch.point('got-chunk')
                    mgr.queue_file_io_task(sink, data, off)
            return run

        def main():
            ts = [sch.spawn(worker(m), 'r%d' % i) for i, m in enumerate(per)]
            sch.block_until(lambda: all(t.finished for t in ts), 'join')
            io.shutdown()
        out['failure'] = sch.run(main, timeout=30)
        out['choices'] = list(sch.choices)
    return out


def manager_oracle(seed, tier, prop='C16'):
    res = OracleResult(prop)
    rng = rng_for(seed, 'defer-manager')
    for i in range(300 if tier == 'quick' else 6000):
        n = rng.randrange(2, 7)
        data = obj_bytes(rng.randrange(n, 4 * n))
        cuts = sorted(rng.sample(range(1, len(data)), n - 1)) if len(data) > n else list(range(1, n))
        bounds = [0] + cuts + [len(data)]
        chunks = [(bounds[k], data[bounds[k]:bounds[k + 1]]) for k in range(len(bounds) - 1) if bounds[k] < bounds[k + 1]]
        order = chunks[:]
        if rng.random() < 0.7:
            rng.shuffle(order)
        nthreads = rng.randrange(2, 4)
        io_queue = rng.choice([1, 1, 2, 3])
        mode = ['uniform', 'sticky', 'pct', 'stall'][i % 4]
        out = manager_run(rng.randrange(1 << 30), nthreads, order, io_queue, mode)
        res.evaluations += 1
        if res.enough():
            break
        wit = {'object_len': len(data), 'chunks_in_arrival_order': [(o, len(d)) for o, d in order], 'request_threads': nthreads,
               'max_io_queue_size': io_queue, 'mode': mode, 'schedule': out['choices'][:300]}
        res.nontrivial.add((len(chunks), nthreads, io_queue, tuple(o for o, _ in order) != tuple(sorted(o for o, _ in order))))
        if out['failure'] is not None:
            res.violation('manager-hang', wit, repr(out['failure']))
            continue
        got = b''.join(out['written'])
        if got != data:
            res.violation('stream-writes-out-of-order' if sorted(got) == sorted(data) and len(got) == len(data) else 'stream-bytes-wrong',
                          dict(wit, written=[len(w) for w in out['written']]),
                          'non-seekable output manager with %d request threads: the stream received %d bytes, %s'
                          % (nthreads, len(got), 'in the wrong order' if len(got) == len(data) else 'expected %d' % len(data)))
    res.samples.append(wit)
    return res


def manager_oracle_c02(seed, tier):
    return manager_oracle(seed, tier, 'C02')


def manager_oracle_c10(seed, tier):
    return manager_oracle(seed, tier, 'C10')
