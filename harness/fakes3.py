"""A fake S3 service + client used by every end-to-end driver.

It implements the object table, the multipart table, ranged GET, ETags / part checksums and
botocore's use of an upload body (signal_not_transferring, optional signing reads and seek(0),
signal_transferring, sending reads, optional rewinds on client-level retry).  Every request
logs begin and end (end is logged in a `finally`), so oracles can judge ordering.

Faults are injected by a FaultPlan: (op, nth occurrence, 'before'|'after', exception factory).
A fault 'after' is delivered after the service applied the call.
Yield points for the deterministic scheduler are the `hook` callbacks (no-ops by default).
"""
import hashlib
import threading as _real_threading

from botocore.exceptions import IncompleteReadError, ReadTimeoutError


class InjectedFault(Exception):
    """A non-retryable injected failure."""

    def __init__(self, tag):
        super().__init__('injected:%s' % (tag,))
        self.tag = tag


class InjectedInterrupt(KeyboardInterrupt):
    """A Ctrl-C (not an `Exception`) landing inside a request, read, write or callback — what a manager
    whose tasks run in the caller's thread (NonThreadedExecutor, boto3's use_threads=False) is exposed to."""

    def __init__(self, tag):
        super().__init__('injected-interrupt:%s' % (tag,))
        self.tag = tag


class InjectedBase(BaseException):
    """A BaseException that is neither an Exception nor an interrupt (what `sys.exit()` in a callback or a
    framework's own control-flow exception is), raised inside a task of a worker thread."""

    def __init__(self, tag):
        super().__init__('injected-base:%s' % (tag,))
        self.tag = tag


def retryable_error(kind, tag):
    if kind == 'incomplete':
        e = IncompleteReadError(actual_bytes=0, expected_bytes=1)
    elif kind == 'timeout':
        e = ReadTimeoutError(endpoint_url='http://fake/%s' % (tag,))
    else:
        e = ConnectionError('injected-conn:%s' % (tag,))
    e.tag = tag
    return e


_SHAPES = {}
_PY2OP = {'head_object': 'HeadObject', 'get_object': 'GetObject', 'put_object': 'PutObject',
          'create_multipart_upload': 'CreateMultipartUpload', 'upload_part': 'UploadPart',
          'upload_part_copy': 'UploadPartCopy', 'complete_multipart_upload': 'CompleteMultipartUpload',
          'abort_multipart_upload': 'AbortMultipartUpload', 'copy_object': 'CopyObject', 'delete_object': 'DeleteObject'}


def unknown_params(op, kwargs):
    """kwargs names that the installed botocore S3 model does not have for this operation"""
    if not _SHAPES:
        import botocore.session
        model = botocore.session.get_session().get_service_model('s3')
        for py, name in _PY2OP.items():
            _SHAPES[py] = set(model.operation_model(name).input_shape.members)
    members = _SHAPES.get(op)
    if members is None:
        return []
    return [k for k in kwargs if k not in members]


class FaultPlan:
    """faults: list of dicts {op, nth (0-based among calls of that op), when, exc (callable)}"""

    def __init__(self, faults=None):
        self.faults = list(faults or [])
        self.exempt_keys = set()
        self.counts = {}
        self.fired = []

    def check(self, op, when, seq, key=None):
        if key is not None and key in self.exempt_keys:
            return None
        for f in self.faults:
            if f['op'] == op and f['when'] == when and f['nth'] == seq and not f.get('done'):
                f['done'] = True
                exc = f['exc']()
                self.fired.append({'op': op, 'nth': seq, 'when': when, 'exc': exc})
                return exc
        return None

    def next_seq(self, op):
        n = self.counts.get(op, 0)
        self.counts[op] = n + 1
        return n


class FakeBody:
    """Streaming body of a GET. `script` is a list of read sizes (short reads) optionally ending
    with ('fault', exc_factory); when the script is exhausted reads return what was asked."""

    def __init__(self, svc, data, script=None, tag=None, key=None):
        self._key = key
        self._svc = svc
        self._data = data
        self._pos = 0
        self._script = list(script or [])
        self._tag = tag
        self.reads = []

    def _note(self, what):
        svc = self._svc
        svc.body_log.append({'t': svc.clock() if svc.clock else 0, 'tag': self._tag, 'what': what})

    def read(self, amt=None):
        self._svc.hook('body-read', self._tag)
        if self._script:
            s = self._script.pop(0)
            if isinstance(s, tuple) and s[0] == 'fault':
                exc = s[1]()
                self._svc.fired.append({'op': 'body-read', 'tag': self._tag, 'exc': exc,
                                        'after_bytes': self._pos, 'key': self._key})
                self._note('fault')
                raise exc
            n = s if amt is None else min(s, amt)
        else:
            n = len(self._data) - self._pos if amt is None else amt
        chunk = self._data[self._pos:self._pos + n]
        self._pos += len(chunk)
        self.reads.append(len(chunk))
        if not chunk:
            self._note('eof')
        return chunk

    def close(self):
        pass


class FakeEvents:
    def __init__(self):
        self.registered = []

    def register_first(self, name, handler, unique_id=None, **kw):
        self.registered.append(('first', name, unique_id))

    def register_last(self, name, handler, unique_id=None, **kw):
        self.registered.append(('last', name, unique_id))

    def register(self, name, handler, unique_id=None, **kw):
        self.registered.append(('reg', name, unique_id))

    def unregister(self, *a, **kw):
        pass


class _Cfg:
    def __init__(self, rcc):
        self.request_checksum_calculation = rcc
        self.user_agent_extra = None


class _Meta:
    def __init__(self, rcc):
        self.events = FakeEvents()
        self.config = _Cfg(rcc)
        self.region_name = 'us-west-2'


class FakeS3:
    def __init__(self, fault_plan=None, hook=None, body_protocol=None,
                 request_checksum_calculation='when_required'):
        self.objects = {}
        self.uploads = {}
        self.log = []            # dicts: seq, op, phase, kwargs(summary), outcome, thread
        self.fired = []
        self.faults = fault_plan or FaultPlan()
        self._hook = hook
        self._mu = _real_threading.Lock()
        self._next_upload = 0
        self._evseq = 0
        self.inflight = {}
        self.max_inflight = {}
        self.get_scripts = {}    # (op_seq of get_object) -> script ; or callable(kwargs, nth)
        self.get_script_fn = None
        # how botocore uses an upload body: dict(sign_reads=bool, rewinds=int, read_size=int)
        self.body_protocol = body_protocol or {'sign_reads': False, 'rewinds': 0, 'read_size': None}
        self.meta = _Meta(request_checksum_calculation)
        self.bodies_seen = []
        self.body_log = []
        self.min_part_size = 0    # EntityTooSmall check at CompleteMultipartUpload (5 MiB at real scale)
        self.clock = None        # optional callable giving a global event stamp
        self.on_event = None     # optional observer(entry)

    # -- plumbing -------------------------------------------------------
    def __getattribute__(self, name):
        if name in _PY2OP:
            h = object.__getattribute__(self, '_hook')
            if h is not None:
                h('client-attr', name)
        return object.__getattribute__(self, name)

    def hook(self, what, info=None):
        if self._hook is not None:
            self._hook(what, info)

    def _ev(self, op, phase, summary, outcome=None, seq=None):
        with self._mu:
            self._evseq += 1
            e = {'n': self._evseq, 't': self.clock() if self.clock else self._evseq,
                 'op': op, 'phase': phase, 'args': summary,
                 'outcome': outcome, 'seq': seq,
                 'thread': _real_threading.current_thread().name}
            self.log.append(e)
        if self.on_event is not None:
            self.on_event(e)
        return e

    def _call(self, op, kwargs, effect, summary=None, group='transfer'):
        seq = self.faults.next_seq(op)
        summary = summary if summary is not None else self._summ(kwargs)
        self.hook('req-begin', (op, seq))
        self._ev(op, 'begin', summary, seq=seq)
        unknown = unknown_params(op, kwargs)
        if unknown:
            # what a botocore client does before it builds a request: parameters the operation does not
            # have are a ParamValidationError, and nothing is sent
            from botocore.exceptions import ParamValidationError
            self._ev(op, 'end', summary, outcome='raise:ParamValidationError', seq=seq)
            raise ParamValidationError(report='Unknown parameter in input: "%s"' % unknown[0])
        with self._mu:
            self.inflight[group] = self.inflight.get(group, 0) + 1
            self.max_inflight[group] = max(self.max_inflight.get(group, 0), self.inflight[group])
        outcome = 'ok'
        try:
            exc = self.faults.check(op, 'before', seq, kwargs.get('Key'))
            if exc is not None:
                self.fired.append({'op': op, 'nth': seq, 'when': 'before', 'exc': exc})
                raise exc
            resp = effect()
            exc = self.faults.check(op, 'after', seq, kwargs.get('Key'))
            if exc is not None:
                self.fired.append({'op': op, 'nth': seq, 'when': 'after', 'exc': exc})
                raise exc
            self.hook('req-end', (op, seq))
            return resp
        except BaseException as e:
            outcome = 'raise:%s' % type(e).__name__
            raise
        finally:
            with self._mu:
                self.inflight[group] -= 1
            self._ev(op, 'end', summary, outcome=outcome, seq=seq)

    @staticmethod
    def _summ(kwargs):
        out = {}
        for k, v in kwargs.items():
            if k == 'Body':
                out[k] = '<body>'
            elif k == 'MultipartUpload':
                out[k] = v
            else:
                out[k] = v
        return out

    # -- body protocol ----------------------------------------------------
    def _consume_body(self, body):
        """What botocore + the HTTP layer do with an upload body."""
        proto = self.body_protocol
        rs = proto.get('read_size')
        record = {'reads': [], 'seeks': 0}
        self.bodies_seen.append(record)

        def read_all():
            buf = []
            while True:
                self.hook('upload-body-read', None)
                chunk = body.read(rs) if rs else body.read()
                record['reads'].append(len(chunk))
                if not chunk:
                    break
                buf.append(chunk)
                if not rs:
                    # a read() with no amount returns everything; one more read sees EOF
                    continue
            return b''.join(buf)

        if isinstance(body, (bytes, bytearray)):
            return bytes(body)
        if hasattr(body, 'signal_not_transferring'):
            body.signal_not_transferring()
        if proto.get('sign_reads'):
            read_all()
            body.seek(0)
            record['seeks'] += 1
        if hasattr(body, 'signal_transferring'):
            body.signal_transferring()
        data = read_all()
        for _ in range(proto.get('rewinds', 0)):
            body.seek(0)
            record['seeks'] += 1
            data = read_all()
        return data

    # -- operations -------------------------------------------------------
    def head_object(self, **kw):
        def eff():
            k = (kw['Bucket'], kw['Key'])
            if k not in self.objects:
                raise InjectedFault('NoSuchKey')
            return {'ContentLength': len(self.objects[k]),
                    'ETag': self._etag(self.objects[k])}
        return self._call('head_object', kw, eff, group='head')

    def get_object(self, **kw):
        nth_box = []

        def eff():
            k = (kw['Bucket'], kw['Key'])
            if k not in self.objects:
                raise InjectedFault('NoSuchKey')
            data = self.objects[k]
            rng = kw.get('Range')
            start = 0
            if rng:
                assert rng.startswith('bytes=')
                a, b = rng[6:].split('-')
                start = int(a)
                end = int(b) if b != '' else len(data) - 1
                data = data[start:end + 1]
            script = None
            if self.get_script_fn is not None:
                script = self.get_script_fn(kw, start)
            return {'Body': FakeBody(self, data, script, tag=(kw['Key'], rng, start), key=kw['Key']),
                    'ContentLength': len(data)}
        return self._call('get_object', kw, eff)

    def put_object(self, **kw):
        def eff():
            data = self._consume_body(kw['Body'])
            self.objects[(kw['Bucket'], kw['Key'])] = data
            return {'ETag': self._etag(data)}
        return self._call('put_object', kw, eff)

    def create_multipart_upload(self, **kw):
        def eff():
            with self._mu:
                uid = 'upload-%d' % self._next_upload
                self._next_upload += 1
                self.uploads[uid] = {'bucket': kw['Bucket'], 'key': kw['Key'], 'parts': {},
                                     'state': 'open', 'create_args': self._summ(kw),
                                     'completes': 0, 'aborts': 0, 'returned': False}
            return {'UploadId': uid}
        resp = self._call('create_multipart_upload', kw, eff)
        self.uploads[resp['UploadId']]['returned'] = True
        return resp

    def upload_part(self, **kw):
        def eff():
            data = self._consume_body(kw['Body'])
            return self._store_part(kw, data)
        return self._call('upload_part', kw, eff)

    def _store_part(self, kw, data, copy=False):
        up = self.uploads.get(kw['UploadId'])
        if up is None:
            raise InjectedFault('NoSuchUpload')
        etag = self._etag(data)
        resp = {'ETag': etag}
        alg = kw.get('ChecksumAlgorithm') or up['create_args'].get('ChecksumAlgorithm')
        if alg:
            resp['Checksum%s' % alg.upper()] = 'ck-%s-%s' % (alg.upper(), etag[:8])
        with self._mu:
            up.setdefault('part_events', []).append((kw['PartNumber'], up['state']))
            up['parts'][kw['PartNumber']] = (resp, data)
        return resp

    def upload_part_copy(self, **kw):
        def eff():
            src = kw['CopySource']
            data = self.objects[(src['Bucket'], src['Key'])]
            rng = kw.get('CopySourceRange')
            if rng:
                a, b = rng[6:].split('-')
                data = data[int(a):int(b) + 1]
            resp = self._store_part(kw, data, copy=True)
            return {'CopyPartResult': resp}
        return self._call('upload_part_copy', kw, eff)

    def complete_multipart_upload(self, **kw):
        def eff():
            up = self.uploads.get(kw['UploadId'])
            if up is None:
                raise InjectedFault('NoSuchUpload')
            parts = kw['MultipartUpload']['Parts']
            with self._mu:
                up['completes'] += 1
                up['complete_parts'] = parts
                up['state_at_complete'] = up['state']
                problems = []
                nums = [p.get('PartNumber') for p in parts]
                if nums != list(range(1, len(nums) + 1)):
                    problems.append('part numbers %r not 1..n ascending' % (nums,))
                blob = []
                for p in parts:
                    stored = up['parts'].get(p.get('PartNumber'))
                    if stored is None:
                        problems.append('part %r never uploaded' % (p.get('PartNumber'),))
                        continue
                    resp, data = stored
                    for k, v in resp.items():
                        if p.get(k) != v:
                            problems.append('part %r: %s %r != returned %r' % (p.get('PartNumber'), k, p.get(k), v))
                    blob.append(data)
                if set(up['parts']) - set(nums):
                    problems.append('uploaded parts %r not listed' % sorted(set(up['parts']) - set(nums)))
                # the service refuses a part other than the last below its minimum part size (EntityTooSmall)
                if self.min_part_size:
                    for p in parts[:-1]:
                        stored = up['parts'].get(p.get('PartNumber'))
                        if stored is not None and len(stored[1]) < self.min_part_size:
                            problems.append('part %r has %d bytes, below the minimum part size %d (EntityTooSmall)'
                                            % (p.get('PartNumber'), len(stored[1]), self.min_part_size))
                            break
                up['complete_problems'] = problems
                up['state'] = 'completed'
                self.objects[(up['bucket'], up['key'])] = b''.join(blob)
            return {}
        return self._call('complete_multipart_upload', kw, eff)

    def abort_multipart_upload(self, **kw):
        def eff():
            up = self.uploads.get(kw['UploadId'])
            if up is not None:
                with self._mu:
                    up['aborts'] += 1
                    if up['state'] == 'open':
                        up['state'] = 'aborted'
            return {}
        # an abort that is itself faulted still counts as "abort issued" (it is in the log)
        return self._call('abort_multipart_upload', kw, eff, group='cleanup')

    def copy_object(self, **kw):
        def eff():
            src = kw['CopySource']
            self.objects[(kw['Bucket'], kw['Key'])] = self.objects[(src['Bucket'], src['Key'])]
            return {}
        return self._call('copy_object', kw, eff)

    def delete_object(self, **kw):
        def eff():
            self.objects.pop((kw['Bucket'], kw['Key']), None)
            return {}
        return self._call('delete_object', kw, eff)

    @staticmethod
    def _etag(data):
        return hashlib.md5(data).hexdigest()

    # -- views ------------------------------------------------------------
    def requests(self, op=None):
        return [e for e in self.log if e['phase'] == 'begin' and (op is None or e['op'] == op)]
