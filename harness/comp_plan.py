"""Plan component (C14, parts of C01/C02): correspondence of S3V.Model.Plan with the real
planning code, and the direct C14 oracle on the real code (independent of the model)."""
import io
import math
import os
import tempfile
from fractions import Fraction

from common import CorrResult, compare_with_model, rng_for
from oracle import OracleResult

MiB = 1024 * 1024
GiB = 1024 * MiB
TiB = 1024 * GiB


def _impl_ceil(a, b):
    from s3transfer.utils import calculate_num_parts
    try:
        return str(calculate_num_parts(a, b))
    except ZeroDivisionError:
        return 'zero-div'


def _parse_range(s):
    assert s.startswith('bytes='), s
    return s[len('bytes='):]


def _impl_range(ps, i, n, tot):
    from s3transfer.utils import calculate_range_parameter
    return _parse_range(calculate_range_parameter(ps, i, n, tot))


def _impl_adjust(c, size):
    from s3transfer.utils import ChunksizeAdjuster
    try:
        return str(ChunksizeAdjuster().adjust_chunksize(c, size))
    except ZeroDivisionError:
        return 'zero-div'


class _Meta:
    def __init__(self, size, fileobj):
        self.size = size

        class CA:
            pass
        self.call_args = CA()
        self.call_args.fileobj = fileobj
        self.call_args.subscribers = []


class _Fut:
    def __init__(self, size, fileobj):
        self.meta = _Meta(size, fileobj)


def _impl_upload_parts(size, c, tmpdir):
    """Real UploadFilenameInputManager.yield_upload_part_bodies over a real file."""
    from s3transfer.futures import TransferCoordinator
    from s3transfer.upload import UploadFilenameInputManager
    from s3transfer.utils import OSUtils
    if c == 0:
        return 'zero-div'
    path = os.path.join(tmpdir, 'src-%d' % size)
    if not os.path.exists(path):
        with open(path, 'wb') as f:
            f.write(bytes((i * 7 + 3) % 251 for i in range(size)))
    mgr = UploadFilenameInputManager(OSUtils(), TransferCoordinator())
    out = []
    for num, body in mgr.yield_upload_part_bodies(_Fut(size, path), c):
        start = body._fileobj.tell()
        out.append('%d:%d:%d' % (num, start, len(body)))
        body._fileobj.close()
    return ','.join(out)


def boundary_values(rng, real_scale):
    """sizes / chunk sizes on every boundary the property names."""
    vals = set()
    if real_scale:
        lims = [1, 5 * MiB, 8 * MiB, 5 * GiB, 5 * TiB, 2 ** 31, 2 ** 32, 2 ** 40, 2 ** 52 - 1, 2 ** 51,
                10000 * 5 * MiB, 10000 * 8 * MiB, 10000 * 5 * GiB]
        for v in lims:
            for d in (-1, 0, 1):
                if v + d >= 0:
                    vals.add(v + d)
        for _ in range(12):
            vals.add(rng.randrange(0, 6 * TiB))
            vals.add(rng.randrange(0, 64 * MiB))
    else:
        for v in range(0, 40):
            vals.add(v)
    return sorted(vals)


def gen_cases(seed, tier):
    rng = rng_for(seed, 'plan')
    cases = []
    quick = tier == 'quick'
    # 1. exhaustive small domain
    top = 26 if quick else 60
    for size in range(0, top):
        for c in range(0, 9 if quick else 14):
            cases.append(('small', size, c))
    # 2. real scale boundaries: k*c-1/+0/+1
    chunks = [1, 2, 3, 5 * MiB - 1, 5 * MiB, 5 * MiB + 1, 8 * MiB, 64 * MiB, 5 * GiB - 1, 5 * GiB,
              5 * GiB + 1, 2 ** 33, rng.randrange(1, 6 * GiB), rng.randrange(1, 16 * MiB)]
    for c in chunks:
        ks = [1, 2, 3, 9999, 10000, 10001, 20000, 20001, rng.randrange(1, 30000)]
        for k in ks:
            for d in (-1, 0, 1):
                s = k * c + d
                if 0 <= s:
                    cases.append(('real', s, c))
    for s in boundary_values(rng, True):
        for c in (chunks if not quick else chunks[::3]):
            cases.append(('real', s, c))
    n_rand = 300 if quick else 5000
    for _ in range(n_rand):
        c = rng.choice([rng.randrange(1, 64), rng.randrange(1, 10 * GiB), rng.choice(chunks)])
        s = rng.choice([rng.randrange(0, 5 * TiB + 2), rng.randrange(0, 100 * MiB), c * rng.randrange(0, 12000) + rng.randrange(-1, 2)])
        if s >= 0:
            cases.append(('real', s, c))
    # the model's ceiling is exact; the code's float ceiling is claimed (and compared) below 2**52
    # (S3's object limit is 5 TiB < 2**43)
    # float-directed cases: operands of every magnitude below 2**53, quotients next to integers and to
    # rounding ties (the model's fdiv is compared with CPython's quotient bit for bit)
    n_float = 250 if quick else 4000
    for _ in range(n_float):
        ka, kb = rng.randrange(1, 54), rng.randrange(1, 54)
        a = rng.randrange(2 ** (ka - 1), 2 ** ka)
        b = rng.randrange(2 ** (kb - 1), 2 ** kb)
        cases.append(('float', a, b))
        q = rng.randrange(1, 2 ** rng.randrange(1, 30))
        if q * b + 1 < 2 ** 53:
            cases.append(('float', q * b + rng.choice((-1, 0, 1)), b))
    for a, b in ((2 ** 53 - 1, 1), (2 ** 53 - 1, 2), (2 ** 53 - 1, 3), (2 ** 53 - 1, 2 ** 53 - 1), (1, 2 ** 53 - 1),
                 (2 ** 53 - 2, 2 ** 53 - 1), (2 ** 52 + 1, 2), (2 ** 52 + 3, 4), (3 * 2 ** 51 + 1, 2 ** 52 - 1)):
        cases.append(('float', a, b))
    # the model's ceiling is exact; the code's float ceiling is proved equal to it (C14.float_ceil_exact)
    # and compared below 2**53 (S3's object limit is 5 TiB < 2**43)
    return [(k, s, c) for (k, s, c) in cases if 0 <= s < 2 ** 53 and c < 2 ** 53]


def corr(seed, tier):
    res = CorrResult('plan')
    cases_out = []
    tmpdir = tempfile.mkdtemp(prefix='s3v-plan-')
    try:
        for kind, size, c in gen_cases(seed, tier):
            ops = []
            ops.append(('plan ceil %d %d' % (size, c), _impl_ceil(size, c)))
            if c > 0:
                # the float quotient the code forms, exactly, and its ceiling
                fq = Fraction(size / float(c))
                ops.append(('plan fdiv %d %d' % (size, c), '%d/%d' % (fq.numerator, fq.denominator)))
                ops.append(('plan fceil %d %d' % (size, c), _impl_ceil(size, c)))
                res.hit('fdiv:' + ('exact' if fq == Fraction(size, c) else 'rounded'))
            if kind == 'float':
                res.note_case((size, c), fq != Fraction(size, c), {'size': size, 'chunk': c, 'ops': [o for o, _ in ops]})
                res.hit('kind:float')
                cases_out.append(({'kind': kind, 'size': size, 'chunk': c}, ops))
                continue
            if c > 0:
                n = int(math.ceil(size / float(c)))
            else:
                n = 0
            ops.append(('plan adjust %d %d' % (c, size), _impl_adjust(c, size)))
            ops.append(('plan adjust %d -' % c, _impl_adjust(c, None)))
            from s3transfer.manager import TransferConfig  # noqa: F401 (import check)
            ops.append(('plan multipart %d %d' % (size, c), '1' if size >= c else '0'))
            if c > 0:
                # ranges for first, second, middle, last parts (all parts at small scale)
                idxs = range(n) if kind == 'small' else sorted({0, 1, n // 2, max(n - 2, 0), max(n - 1, 0), n})
                for i in idxs:
                    for tot in (None, size):
                        ops.append(('plan range %d %d %d %s' % (c, i, n, '-' if tot is None else tot),
                                    _impl_range(c, i, n, tot)))
            if kind == 'small':
                ops.append(('plan up %d %d' % (size, c), _impl_upload_parts(size, c, tmpdir)))
                ops.append(('plan down %d %d' % (size, c), _impl_down(size, c)))
                ops.append(('plan copy %d %d' % (size, c), _impl_copy(size, c)))
            nontrivial = c > 0 and size > c
            res.note_case((size, c), nontrivial,
                          {'size': size, 'chunk': c, 'ops': [o for o, _ in ops[:3]]})
            res.hit('kind:' + kind)
            res.hit('parts:' + ('0' if n == 0 else '1' if n == 1 else '2..10000' if n <= 10000 else '>10000'))
            cases_out.append(({'kind': kind, 'size': size, 'chunk': c}, ops))
    finally:
        for f in os.listdir(tmpdir):
            os.unlink(os.path.join(tmpdir, f))
        os.rmdir(tmpdir)
    compare_with_model(res, cases_out)
    return res


def _impl_down(size, c):
    """Ranged download plan exactly as DownloadSubmissionTask._submit_ranged_download_request
    and GetObjectSubmitter._submit_ranged_get_object_jobs compute it."""
    from s3transfer.utils import calculate_num_parts, calculate_range_parameter
    if c == 0:
        return 'zero-div'
    n = calculate_num_parts(size, c)
    return ','.join('%s@%d' % (_parse_range(calculate_range_parameter(c, i, n)), i * c)
                    for i in range(n))


def _impl_copy(size, c):
    from s3transfer.copies import CopySubmissionTask
    from s3transfer.futures import TransferCoordinator
    from s3transfer.utils import calculate_range_parameter
    if c == 0:
        return 'zero-div'
    n = int(math.ceil(size / float(c)))
    t = CopySubmissionTask(TransferCoordinator())
    return ','.join('%d:%s:%d' % (i + 1, _parse_range(calculate_range_parameter(c, i, n, size)),
                                  t._get_transfer_size(c, i, n, size)) for i in range(n))


# ---------------------------------------------------------------------------
# direct oracle for C14 (judges the real code against the statement)

def _exact_ceil(a, b):
    return -((-a) // b)


def oracle(seed, tier):
    """C14 on the real code: end-to-end request logs of a real TransferManager
    (NonThreadedExecutor, fake S3) + function-level limits at real scale."""
    from s3transfer.utils import ChunksizeAdjuster, calculate_num_parts, calculate_range_parameter
    res = OracleResult('C14')
    rng = rng_for(seed, 'plan-oracle')
    adj = ChunksizeAdjuster()
    for kind, size, c in gen_cases(seed, tier):
        if c == 0:
            continue
        res.evaluations += 1
        if res.enough():
            break
        # exact ceiling (float path) while size is below 2**52
        if size < 2 ** 52 and c < 2 ** 52:
            n = calculate_num_parts(size, c)
            if n != _exact_ceil(size, c):
                res.violation('num-parts', {'size': size, 'chunk': c, 'got': n, 'want': _exact_ceil(size, c)},
                              'calculate_num_parts(%d,%d)=%d is not the ceiling' % (size, c, n))
        if size <= 5 * TiB:
            eff = adj.adjust_chunksize(c, size)
            n = _exact_ceil(size, eff)
            if not (5 * MiB <= eff <= 5 * GiB):
                res.violation('adjust-limits', {'size': size, 'chunk': c, 'eff': eff},
                              'effective part size %d outside [5MiB,5GiB]' % eff)
            if n > 10000:
                res.violation('adjust-parts', {'size': size, 'chunk': c, 'eff': eff, 'n': n},
                              '%d parts for size %d' % (n, size))
            ok_as_is = 5 * MiB <= c <= 5 * GiB and _exact_ceil(size, c) <= 10000
            if ok_as_is and eff != c:
                res.violation('adjust-minimal', {'size': size, 'chunk': c, 'eff': eff},
                              'chunk size changed from %d to %d although no limit required it' % (c, eff))
            if size > 0 and eff > 0:
                res.nontrivial.add(('adj', size, c))
        # ranges tile [0,size) for downloads (open last) and copies (closed last)
        if size > 0 and size < 2 ** 52:
            n = calculate_num_parts(size, c)
            idxs = range(n) if n <= 64 else sorted({0, 1, n // 2, n - 2, n - 1})
            prev_end = None
            for i in idxs:
                for tot in (None, size):
                    r = calculate_range_parameter(c, i, n, tot)
                    a, b = r[6:].split('-')
                    a = int(a)
                    if a != i * c:
                        res.violation('range-start', {'size': size, 'chunk': c, 'i': i, 'range': r}, 'start != i*c')
                    if i == n - 1:
                        want = '' if tot is None else str(size - 1)
                        if b != want or not (a < size):
                            res.violation('range-last', {'size': size, 'chunk': c, 'i': i, 'range': r}, 'last range wrong')
                    else:
                        if b == '' or int(b) != (i + 1) * c - 1 or int(b) >= size:
                            res.violation('range-mid', {'size': size, 'chunk': c, 'i': i, 'range': r}, 'inner range wrong')
            res.nontrivial.add(('rng', size, c))
    res.samples.append({'function-level': 'sizes x chunks on boundaries', 'n': res.evaluations})
    _oracle_e2e(res, rng, tier)
    # D13: unknown-size stream can exceed 10 000 parts (planned with the 5 MiB minimum)
    eff = adj.adjust_chunksize(1, None)
    if _exact_ceil(10000 * 5 * MiB + 1, eff) > 10000:
        res.violation('unknown-size-parts', {'stream_len': 10000 * 5 * MiB + 1, 'eff_chunk': eff},
                      'non-seekable upload of unknown size: 10000*5MiB+1 bytes -> part 10001')
    return res


def _tm(fake, **cfg):
    from s3transfer.futures import NonThreadedExecutor
    from s3transfer.manager import TransferConfig, TransferManager
    return TransferManager(fake, TransferConfig(**cfg), executor_cls=NonThreadedExecutor)


def _oracle_e2e(res, rng, tier):
    """Request logs of real transfers: multipart iff size >= threshold; ranges tile; part
    numbers 1..n; bodies are consecutive slices."""
    from fakes3 import FakeS3
    combos = []
    for thr in (1, 4, 7):
        for chunk in (1, 3, 4):
            for size in sorted({0, 1, thr - 1, thr, thr + 1, chunk * 2 - 1, chunk * 2, chunk * 2 + 1, 13}):
                if size >= 0:
                    combos.append((size, thr, chunk))
    if tier == 'quick':
        rng.shuffle(combos)
        combos = combos[:40]
    for size, thr, chunk in combos:
        data = bytes((i * 13 + 5) % 256 for i in range(size))
        # download to a seekable stream
        fake = FakeS3()
        fake.objects[('b', 'k')] = data
        with _tm(fake, multipart_threshold=thr, multipart_chunksize=chunk, io_chunksize=2) as tm:
            out = io.BytesIO()
            tm.download('b', 'k', out).result()
        gets = fake.requests('get_object')
        res.evaluations += 1
        if res.enough():
            break
        multipart = any('Range' in g['args'] for g in gets)
        if multipart != (size >= thr):
            res.violation('multipart-iff', {'mode': 'download', 'size': size, 'thr': thr, 'chunk': chunk},
                          'ranged=%s but size>=threshold is %s' % (multipart, size >= thr))
        if multipart:
            _judge_ranges(res, [g['args']['Range'] for g in gets], size, False,
                          {'mode': 'download', 'size': size, 'thr': thr, 'chunk': chunk})
        if out.getvalue() != data:
            res.violation('download-bytes', {'size': size, 'thr': thr, 'chunk': chunk}, 'bytes differ')
        res.nontrivial.add(('dl', size, thr, chunk))
        # copy (adjusted chunk is >= 5 MiB, so small copies are one part: checks the decision)
        fake = FakeS3()
        fake.objects[('sb', 'sk')] = data
        with _tm(fake, multipart_threshold=thr, multipart_chunksize=chunk) as tm:
            tm.copy({'Bucket': 'sb', 'Key': 'sk'}, 'b', 'k').result()
        res.evaluations += 1
        if res.enough():
            break
        mp = bool(fake.requests('create_multipart_upload'))
        if mp != (size >= thr):
            res.violation('multipart-iff', {'mode': 'copy', 'size': size, 'thr': thr},
                          'multipart=%s but size>=threshold is %s' % (mp, size >= thr))
        if mp:
            parts = fake.requests('upload_part_copy')
            _judge_ranges(res, [p['args']['CopySourceRange'] for p in parts], size, True,
                          {'mode': 'copy', 'size': size, 'thr': thr})
            if [p['args']['PartNumber'] for p in parts] != list(range(1, len(parts) + 1)):
                res.violation('part-numbers', {'mode': 'copy', 'size': size}, 'not 1..n')
        if fake.objects.get(('b', 'k')) != data:
            res.violation('copy-bytes', {'size': size, 'thr': thr}, 'bytes differ')
        # upload from bytes stream (seekable) and non-seekable
        for src in ('seekable', 'nonseekable'):
            fake = FakeS3()
            with _tm(fake, multipart_threshold=thr, multipart_chunksize=chunk) as tm:
                stream = io.BytesIO(data) if src == 'seekable' else _NonSeekable(data)
                tm.upload(stream, 'b', 'k').result()
            res.evaluations += 1
            if res.enough():
                break
            mp = bool(fake.requests('create_multipart_upload'))
            if mp != (size >= thr):
                res.violation('multipart-iff', {'mode': 'upload-' + src, 'size': size, 'thr': thr},
                              'multipart=%s but size>=threshold is %s' % (mp, size >= thr))
            if mp:
                nums = [p['args']['PartNumber'] for p in fake.requests('upload_part')]
                if nums != list(range(1, len(nums) + 1)):
                    res.violation('part-numbers', {'mode': 'upload-' + src, 'size': size}, 'not 1..n')
            if fake.objects.get(('b', 'k')) != data:
                res.violation('upload-bytes', {'mode': src, 'size': size, 'thr': thr}, 'bytes differ')
    res.samples.append({'e2e': 'download/copy/upload request logs', 'combos': len(combos),
                        'example': {'size': combos[0][0], 'threshold': combos[0][1], 'chunk': combos[0][2]}})
    # one real-scale multipart upload+copy: 11 MiB with the 5 MiB minimum -> 3 parts
    if tier != 'quick' or True:
        size = 11 * MiB + 3
        data = (bytes(range(256)) * (size // 256 + 1))[:size]
        fake = FakeS3()
        fake.objects[('sb', 'sk')] = data
        with _tm(fake, multipart_threshold=6 * MiB, multipart_chunksize=1 * MiB) as tm:
            tm.copy({'Bucket': 'sb', 'Key': 'sk'}, 'b', 'k').result()
            tm.upload(io.BytesIO(data), 'b', 'k2').result()
        res.evaluations += 2
        parts = fake.requests('upload_part_copy')
        _judge_ranges(res, [p['args']['CopySourceRange'] for p in parts], size, True,
                      {'mode': 'copy', 'size': size, 'real-scale': True})
        if len(parts) != 3 or len(fake.requests('upload_part')) != 3:
            res.violation('real-scale-parts', {'size': size}, 'expected 3 parts of >=5MiB')
        if fake.objects.get(('b', 'k')) != data or fake.objects.get(('b', 'k2')) != data:
            res.violation('real-scale-bytes', {'size': size}, 'bytes differ')
        res.nontrivial.add(('real-scale', size))


def _judge_ranges(res, ranges, size, closed_last, ctx):
    pos = 0
    for i, r in enumerate(ranges):
        a, b = r[6:].split('-')
        if int(a) != pos:
            res.violation('range-tile', dict(ctx, ranges=ranges[:8]), 'range %d starts at %s, expected %d' % (i, a, pos))
            return
        if i == len(ranges) - 1:
            if closed_last:
                if b == '' or int(b) != size - 1:
                    res.violation('range-tile', dict(ctx, ranges=ranges[-3:]), 'last range must end at size-1')
            elif b != '':
                if int(b) != size - 1:
                    res.violation('range-tile', dict(ctx, ranges=ranges[-3:]), 'last range end wrong')
            pos = size
        else:
            if b == '':
                res.violation('range-tile', dict(ctx, ranges=ranges[:8]), 'inner range open-ended')
                return
            pos = int(b) + 1
    if pos != size:
        res.violation('range-tile', dict(ctx, ranges=ranges[-3:]), 'ranges end at %d, size %d' % (pos, size))


class _NonSeekable:
    def __init__(self, data):
        self._b = io.BytesIO(data)

    def read(self, n=-1):
        return self._b.read(n)

    def readable(self):
        return True
