"""Known-findings matching (known_findings.json is committed and never written at run time)."""
import json
import os

from common import VERIF


def load():
    with open(os.path.join(VERIF, 'known_findings.json')) as f:
        return json.load(f)


def match(prop, violation, doc=None):
    """Return the finding entry that lists this violation, or None."""
    doc = doc or load()
    for f in doc.get('findings', []):
        if f['property'] != prop or f['signature'] != violation['signature']:
            continue
        wm = f.get('witness_match') or {}
        w = violation.get('witness') or {}
        if all(w.get(k) == v for k, v in wm.items()):
            return f
    return None
