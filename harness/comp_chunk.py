"""Chunk component (C09, C01): utils.ReadFileChunk / upload.AggregatedProgressCallback against
S3V.Model.Chunk, and the direct C09 oracle for request bodies (botocore's body protocol with
signing reads and client-level rewinds, judged from the statement)."""
import io

from common import CorrResult, compare_with_model, rng_for
from oracle import OracleResult


def make_chunk(file_bytes, start, chunk_size, enabled, log, flush_log):
    from s3transfer.utils import ReadFileChunk
    f = io.BytesIO(file_bytes)
    f.seek(start)
    return ReadFileChunk(f, chunk_size, len(file_bytes), callbacks=[lambda bytes_transferred: log.append(bytes_transferred)],
                         enable_callbacks=enabled, close_callbacks=[lambda: flush_log.append(1)])


def gen_ops(rng, size, n):
    ops = []
    for _ in range(n):
        r = rng.random()
        if r < 0.45:
            ops.append(('read', rng.choice([None, 0, 1, 2, 3, size, size + 2, rng.randrange(0, size + 3)])))
        elif r < 0.7:
            wh = rng.choice([0, 0, 0, 1, 2])
            w = rng.choice([0, 0, 1, size, size + 3, -1, -size - 1, rng.randrange(-size - 2, size + 4)])
            ops.append(('seek', w, wh))
        elif r < 0.8:
            ops.append(('enable',))
        elif r < 0.9:
            ops.append(('disable',))
        elif r < 0.93:
            ops.append(('seek', 0, 5))
        else:
            ops.append(('tell',))
    return ops


def apply_real(chunk, op, log, flush_log):
    n0 = len(log)
    if op[0] == 'read':
        data = chunk.read(op[1])
        prog = log[n0] if len(log) > n0 else '-'
        return 'data=%s prog=%s' % (','.join(str(b) for b in data), prog)
    if op[0] == 'seek':
        try:
            chunk.seek(op[1], op[2])
        except ValueError:
            return 'value-error'
        return 'prog=%s' % (log[n0] if len(log) > n0 else '-')
    if op[0] == 'enable':
        chunk.enable_callback()
        return 'ok'
    if op[0] == 'disable':
        chunk.disable_callback()
        return 'ok'
    if op[0] == 'tell':
        return str(chunk.tell())
    if op[0] == 'close':
        f0 = len(flush_log)
        chunk.close()
        return 'flushed=%d' % (1 if len(flush_log) > f0 else 0)
    raise AssertionError(op)


def line(op):
    if op[0] == 'read':
        return 'chunk read %s' % ('-' if op[1] is None else op[1])
    if op[0] == 'seek':
        return 'chunk seek %d %d' % (op[1], op[2])
    return 'chunk %s' % op[0]


def corr(seed, tier):
    res = CorrResult('chunk')
    rng = rng_for(seed, 'chunk')
    cases = []
    for i in range(500 if tier == 'quick' else 8000):
        flen = rng.randrange(0, 14)
        file_bytes = bytes((j * 5 + 2) % 256 for j in range(flen))
        start = rng.randrange(0, flen + 1)
        csize = rng.randrange(0, flen - start + 3)
        window = file_bytes[start:start + csize]
        enabled = rng.random() < 0.6
        log, flush_log = [], []
        ch = make_chunk(file_bytes, start, csize, enabled, log, flush_log)
        ops = [('chunk new %s %d' % (','.join(str(b) for b in window) or '-', 1 if enabled else 0), 'ok'),
               ('chunk len', str(len(ch)))]
        seq = gen_ops(rng, len(window), rng.randrange(2, 16)) + [('close',)]
        for op in seq:
            ops.append((line(op), apply_real(ch, op, log, flush_log)))
            res.hit(op[0])
        res.note_case((file_bytes, start, csize, tuple(seq)), any(o[0] == 'seek' for o in seq),
                      {'window_len': len(window), 'ops': [line(o) for o in seq[:8]]})
        cases.append(({'file_len': flen, 'start': start, 'chunk_size': csize, 'ops': [list(map(str, o)) for o in seq]}, ops))
    # aggregator
    from s3transfer.upload import AggregatedProgressCallback
    for i in range(300 if tier == 'quick' else 5000):
        thr = rng.choice([1, 2, 4, 8, 16])
        got = []
        agg = AggregatedProgressCallback([lambda bytes_transferred: got.append(bytes_transferred)], threshold=thr)
        ops = [('agg new %d' % thr, 'ok')]
        for _ in range(rng.randrange(1, 20)):
            if rng.random() < 0.1:
                n0 = len(got)
                agg.flush()
                ops.append(('agg flush', str(got[n0]) if len(got) > n0 else '-'))
            else:
                v = rng.choice([1, 2, 3, thr, thr + 1, 3 * thr, -1, -thr, -2 * thr - 1, rng.randrange(-20, 40)])
                n0 = len(got)
                agg(v)
                ops.append(('agg call %d' % v, str(got[n0]) if len(got) > n0 else '-'))
        res.note_case(('agg', i), True, None)
        res.hit('agg')
        cases.append(({'aggregator': thr, 'i': i}, ops))
    compare_with_model(res, cases)
    return res


# ---------------------------------------------------------------------------
def body_protocol_run(size, thr, proto, read_size, use_agg=True):
    """Drive a real body (ReadFileChunk + AggregatedProgressCallback as the upload managers build
    it) through botocore's protocol: not-transferring, optional signing reads + seek(0),
    transferring, send; `rewinds` client-level retries each re-sending after `fail_after` bytes."""
    from s3transfer.upload import AggregatedProgressCallback
    from s3transfer.utils import ReadFileChunk
    delivered = []
    cbs = [AggregatedProgressCallback([lambda bytes_transferred: delivered.append(bytes_transferred)], threshold=thr)] if use_agg \
        else [lambda bytes_transferred: delivered.append(bytes_transferred)]
    data = bytes(i % 256 for i in range(size))
    body = ReadFileChunk(io.BytesIO(data), size, size, callbacks=cbs, enable_callbacks=False,
                         close_callbacks=[cb.flush for cb in cbs] if use_agg else None)
    sent = None
    for attempt, fail_after in enumerate(proto['attempts']):
        body.signal_not_transferring()
        if proto['sign']:
            while body.read(read_size):
                pass
            body.seek(0)
        body.signal_transferring()
        if attempt > 0 and not proto['sign']:
            pass
        buf = b''
        while True:
            if fail_after is not None and len(buf) >= fail_after:
                break
            chunk = body.read(read_size)
            if not chunk:
                break
            buf += chunk
        if fail_after is None:
            sent = buf
        else:
            body.seek(0)      # botocore's reset_stream before the retry
    body.close()
    return data, sent, delivered


def oracle(seed, tier):
    res = OracleResult('C09')
    rng = rng_for(seed, 'chunk-oracle')
    for i in range(400 if tier == 'quick' else 6000):
        size = rng.choice([0, 1, 5, 16, 33, rng.randrange(0, 80)])
        thr = rng.choice([1, 4, 8, 16, 64])
        nfail = rng.choice([0, 0, 1, 1, 2, 3])
        attempts = [rng.randrange(0, size + 1) for _ in range(nfail)] + [None]
        proto = {'sign': rng.random() < 0.5, 'attempts': attempts}
        read_size = rng.choice([1, 3, 8, 16, 64, 100])
        use_agg = rng.random() < 0.8
        data, sent, delivered = body_protocol_run(size, thr, proto, read_size, use_agg)
        res.evaluations += 1
        if res.enough():
            break
        wit = {'size': size, 'threshold': thr, 'sign_reads': proto['sign'], 'attempts_fail_after': attempts,
               'read_size': read_size, 'aggregated': use_agg, 'delivered': delivered[:20]}
        if sent != data:
            res.violation('body-resend-bytes', wit, 'bytes sent on the final attempt differ from the source')
        run = 0
        for v in delivered:
            run += v
            if run < 0 or run > size:
                res.violation('progress-out-of-range' + (':aggregated' if use_agg else ':raw'), wit,
                              'running progress sum %d outside [0,%d]' % (run, size))
                break
        if sum(delivered) != size:
            res.violation('progress-total' + (':aggregated' if use_agg else ':raw'), wit,
                          'progress values sum to %d, size is %d' % (sum(delivered), size))
        if nfail:
            res.nontrivial.add((size, thr, tuple(attempts), proto['sign'], read_size, use_agg))
        res.hit('rewinds:%d' % nfail)
    res.samples.append(wit)
    return res
