"""Oracle entry points over the end-to-end explorer, one per property; scenario generation is
biased towards what the property quantifies over.  Runs scenarios on all cores in the thorough tier."""
import concurrent.futures
import json
import os

from common import rng_for
from oracle import OracleResult

BUDGET = {'quick': 400, 'thorough': 24000}
# share of scenarios run on a serial manager (NonThreadedExecutor), with Ctrl-C among the faults
SERIAL_SHARE = {'C02': 0.2, 'C03': 0.25, 'C05': 0.2, 'C06': 0.2, 'C07': 0.2, 'C08': 0.15, 'C04': 0.15}


def focus_for(prop):
    def multipart(sc, rng):
        # multipart uploads / copies with faults and cancels
        for t in sc['transfers']:
            if rng.random() < 0.8:
                t['kind'] = rng.choice(['upload', 'copy'])
                t.pop('dest', None)
                if t['kind'] == 'upload':
                    t.setdefault('source', rng.choice(['path', 'seekable', 'nonseekable']))
                    t.setdefault('rewinds', 0)
                    t.setdefault('sign_reads', False)
                t['size'] = rng.choice([5, 8, 11, 13, 17])
        sc['cfg']['multipart_threshold'] = rng.choice([1, 4, 6])
        if not sc['faults'] and rng.random() < 0.7:
            sc['faults'].append({'site': 'req', 'op': rng.choice(['create_multipart_upload', 'upload_part', 'upload_part_copy',
                                                                   'complete_multipart_upload', 'head_object']),
                                 'nth': rng.choice([0, 0, 1, 2]), 'when': rng.choice(['before', 'after']),
                                 'exc_kind': rng.choice(['plain', 'plain', 'conn'])})

    def downloads(sc, rng):
        for t in sc['transfers']:
            if rng.random() < 0.8:
                t['kind'] = 'download'
                t['dest'] = rng.choice(['path', 'path', 'path', 'seekable', 'seekable', 'nonseekable', 'nonseekable', 'special'])
                t.pop('source', None)
                if t['dest'] == 'path':
                    t['previous'] = rng.choice([None, 5])
        if rng.random() < 0.4:
            # a slow disk: one file-system call (or a write to the destination stream) takes very long
            # while requests, cancels and failures go on
            sc['mode'] = 'stall'
            sc['stall'] = {'class': rng.choice(['fs', 'fs', 'dest-write']), 'nth': rng.choice([0, 0, 1, 2, 3]),
                           'len': rng.choice([40, 100, 400])}
            if rng.random() < 0.7:
                for t in sc['transfers']:
                    if t['kind'] == 'download' and rng.random() < 0.7:
                        t['size'] = max(t['size'], rng.choice([8, 11, 13]))
                sc['cfg']['multipart_threshold'] = rng.choice([1, 4, 6])
            if sc['cancel'] is None and not sc['faults'] and rng.random() < 0.8:
                sc['cancel'] = {'kind': 'future', 'transfer': rng.randrange(len(sc['transfers'])),
                                'after_steps': rng.choice([5, 10, 20, 30, 40, 60, 80, 120])}

    def slots(sc, rng):
        # downloads to streams through a one-slot window, then one more transfer on the same manager
        if rng.random() < 0.5:
            return reentrant(sc, rng)
        for t in sc['transfers']:
            t['kind'] = 'download'
            t['dest'] = 'nonseekable'
            t.pop('source', None)
            t['size'] = rng.choice([1, 3, 5, 8])
        sc['cfg']['max_in_memory_download_chunks'] = 1
        sc['cfg']['multipart_threshold'] = rng.choice([4, 50])
        sc['faults'] = []
        sc['cancel'] = None
        sc.pop('early_shutdown', None)
        sc['fresh_after'] = True
        sc['fresh_nonseekable'] = True

    def reentrant(sc, rng):
        for t in sc['transfers']:
            if rng.random() < 0.6:
                t['subscribers'] = [{'id': 0, 'reentrant': rng.sample(['done', 'meta', 'result', 'cancel', 'set_exception'],
                                                                         rng.randrange(1, 4))}]
        if rng.random() < 0.5:
            sc['cfg']['max_submission_concurrency'] = 1
        if sc['cancel'] is None and rng.random() < 0.6:
            sc['cancel'] = {'kind': 'future', 'transfer': rng.randrange(len(sc['transfers'])),
                            'after_steps': rng.choice([0, 0, 1, 2, 5, 20])}

    def cancels(sc, rng):
        if sc['cancel'] is None:
            r = rng.random()
            nt = len(sc['transfers'])
            if r < 0.45:
                sc['cancel'] = {'kind': 'future', 'transfer': rng.randrange(nt), 'after_steps': rng.choice([0, 1, 3, 8, 15, 30, 60, 120])}
            elif r < 0.65:
                sc['cancel'] = {'kind': 'shutdown', 'msg': rng.choice(['', 'bye']), 'after_steps': rng.choice([0, 2, 10, 40])}
            elif r < 0.85:
                sc['cancel'] = {'kind': 'exit-exc', 'exc': rng.choice(['value', 'interrupt', 'empty-msg']), 'after_steps': rng.choice([0, 2, 10, 40])}
            elif r < 0.93:
                sc['cancel'] = {'kind': 'interrupt-result', 'nth_wait': rng.choice([0, 0, 1])}
            else:
                sc['cancel'] = {'kind': 'interrupt-exit', 'how': rng.choice(['with', 'with', 'shutdown']), 'nth_wait': rng.choice([0, 0, 1])}
        if rng.random() < 0.3:
            # a slow file-system call / stream write / request while the cancel arrives
            sc['mode'] = 'stall'
            sc['stall'] = {'class': rng.choice(['fs', 'fs', 'dest-write', 'req-end', 'body-read', 'src-read']),
                           'nth': rng.choice([0, 0, 1, 2, 3]), 'len': rng.choice([40, 100, 400])}
            if rng.random() < 0.6:
                for t in sc['transfers']:
                    if t['kind'] == 'download':
                        t['size'] = max(t['size'], rng.choice([8, 11, 13]))
                        if rng.random() < 0.6:
                            t['dest'] = 'path'
                            t.setdefault('previous', None)
                sc['cfg']['multipart_threshold'] = rng.choice([1, 4, 6])

    def streams(sc, rng):
        for t in sc['transfers']:
            r = rng.random()
            if r < 0.45:
                t['kind'] = 'upload'
                t['source'] = rng.choice(['seekable', 'nonseekable'])
                t.pop('dest', None)
                t.setdefault('rewinds', 0)
                t.setdefault('sign_reads', False)
                t['size'] = rng.choice([8, 11, 13, 17, 19])
            elif r < 0.9:
                t['kind'] = 'download'
                t['dest'] = 'nonseekable'
                t.pop('source', None)
                t['size'] = rng.choice([8, 11, 13, 17, 19])
        sc['cfg']['multipart_threshold'] = rng.choice([1, 4, 6])
        r0 = rng.random()
        if r0 < 0.5:
            sc['faults'] = []
            sc['cancel'] = None
        elif r0 < 0.75:
            # a long stream upload that fails or is cancelled early, with tight limits: what is still held afterwards
            sc['cfg'].update(multipart_chunksize=2, max_in_memory_upload_chunks=1, max_submission_concurrency=1,
                             max_request_concurrency=1)
            for t in sc['transfers']:
                if t['kind'] == 'upload':
                    t['size'] = rng.choice([17, 19])
            if rng.random() < 0.6:
                sc['faults'] = [{'site': 'req', 'op': 'upload_part', 'nth': rng.choice([0, 1, 2]), 'when': rng.choice(['before', 'after']),
                                 'exc_kind': 'plain'}]
                sc['cancel'] = None
            else:
                sc['faults'] = []
                sc['cancel'] = {'kind': 'future', 'transfer': 0, 'after_steps': rng.choice([10, 20, 30, 40])}
        if rng.random() < 0.3:
            # many small stream uploads (single PutObject each) sharing one manager while the request stage is slow
            thr = rng.choice([6, 9, 50])
            sc['cfg'].update(multipart_threshold=thr, max_in_memory_upload_chunks=1, max_submission_concurrency=rng.choice([1, 1, 2]),
                             max_request_concurrency=1, max_request_queue_size=3, max_submission_queue_size=3)
            sc['transfers'] = [{'kind': 'upload', 'size': rng.randrange(1, min(thr, 6)), 'source': 'nonseekable', 'rewinds': 0,
                                'sign_reads': False, 'subscribers': []} for _ in range(rng.randrange(3, 6))]
            sc['faults'] = []
            sc['cancel'] = None
            sc.pop('early_shutdown', None)
            sc['mode'] = 'stall'
            sc['stall'] = {'class': rng.choice(['req-begin', 'upload-body-read', 'req-end']), 'nth': 0, 'len': 400}

    def stream_downloads(sc, rng):
        # downloads to destinations that cannot seek, small and large relative to io_chunksize, retried stream faults
        for t in sc['transfers']:
            t['kind'] = 'download'
            t['dest'] = rng.choice(['nonseekable', 'nonseekable', 'special'])
            t.pop('source', None)
            t['size'] = rng.choice([1, 2, 3, 5, 8, 11, 13])
        sc['cfg']['io_chunksize'] = rng.choice([1, 2, 3, 8, 16])
        sc['cfg']['num_download_attempts'] = rng.choice([2, 3])
        sc['cfg']['multipart_threshold'] = rng.choice([4, 6, 50])
        if rng.random() < 0.8:
            sc['faults'] = [{'site': 'body', 'nth_get': rng.choice([0, 0, 1, 2]), 'after': rng.randrange(0, 9), 'kind': 'retryable'}]
            sc['cancel'] = None

    def callbacks(sc, rng):
        # several requests of one transfer in flight when it fails or is cancelled, a subscriber watching
        multipart(sc, rng)
        for t in sc['transfers']:
            if not t['subscribers']:
                t['subscribers'] = [{'id': 0}]
        sc['cfg']['max_request_concurrency'] = rng.choice([2, 2, 3])
        sc['cfg']['max_request_queue_size'] = rng.choice([1, 2, 3])
        sc['faults'] = [f for f in sc['faults'] if f.get('site') == 'req']
        if rng.random() < 0.8:
            sc['faults'].append({'site': 'req', 'op': rng.choice(['upload_part', 'upload_part_copy']),
                                 'nth': rng.choice([0, 1, 1, 2]), 'when': rng.choice(['before', 'after'])})

    def progress(sc, rng):
        # several parts of one successful transfer reporting progress at the same time
        multipart(sc, rng)
        for t in sc['transfers']:
            if not t['subscribers'] or any(s.get('raise_in') for s in t['subscribers']):
                t['subscribers'] = [{'id': 0}]
        sc['cfg']['max_request_concurrency'] = rng.choice([2, 3])
        sc['cfg']['max_request_queue_size'] = rng.choice([2, 3])
        if rng.random() < 0.8:
            sc['faults'] = []
            sc['cancel'] = None
        if rng.random() < 0.4:
            sc['mode'] = 'stall'
            sc['stall'] = {'class': 'cb', 'nth': rng.choice([0, 0, 1, 2]), 'len': rng.choice([15, 40, 100])}
        if rng.random() < 0.35:
            # bandwidth-limited downloads whose bodies hand out short reads and break once (retried)
            for t in sc['transfers']:
                t['kind'] = 'download'
                t['dest'] = rng.choice(['path', 'seekable', 'nonseekable'])
                t.pop('source', None)
                t['size'] = rng.choice([5, 8, 11, 13, 17])
                if t['dest'] == 'path':
                    t.setdefault('previous', None)
            sc['cfg']['max_bandwidth'] = 10 ** 9
            sc['cfg']['io_chunksize'] = rng.choice([3, 8])
            sc['cfg']['num_download_attempts'] = rng.choice([2, 3])
            sc['cfg']['multipart_threshold'] = rng.choice([4, 6, 50])
            sc['faults'] = [{'site': 'body', 'nth_get': rng.choice([0, 0, 1]), 'after': rng.randrange(1, 9), 'kind': 'retryable'}]
            sc['cancel'] = None
        elif rng.random() < 0.3:
            # a destination that fails once with an error that is also a TimeoutError / ConnectionError
            for t in sc['transfers']:
                t['kind'] = 'download'
                t['dest'] = rng.choice(['path', 'seekable'])
                t.pop('source', None)
                t['size'] = rng.choice([3, 5, 8])
                if t['dest'] == 'path':
                    t.setdefault('previous', None)
            sc['cfg']['num_download_attempts'] = rng.choice([2, 3])
            sc['cfg']['multipart_threshold'] = rng.choice([9, 50])
            sc['cfg']['io_chunksize'] = rng.choice([2, 3])
            sc['faults'] = [rng.choice([{'site': 'dest-write', 'transfer': 0, 'nth': rng.randrange(0, 3), 'exc_kind': rng.choice(['timeout', 'brokenpipe'])},
                                        {'site': 'fs', 'op': 'write', 'nth': rng.randrange(0, 3), 'exc_kind': rng.choice(['timeout', 'brokenpipe'])}])]
            sc['cancel'] = None

    def barrier(sc, rng):
        # shutdown() without cancel entered while several transfers are in flight, some failing
        if rng.random() < 0.3:
            # a multipart copy / upload with parts in flight next to a transfer that fails or is cancelled first:
            # wait() gives up at the first failure, the executor joins are the barrier
            victim = {'kind': rng.choice(['copy', 'copy', 'upload']), 'size': rng.choice([8, 11, 13]), 'subscribers': [{'id': 0}]}
            if victim['kind'] == 'upload':
                victim.update(source=rng.choice(['path', 'seekable', 'nonseekable']), rewinds=0, sign_reads=False)
            other = {'kind': rng.choice(['delete', 'upload', 'copy']), 'size': rng.choice([1, 3]), 'subscribers': []}
            if other['kind'] == 'upload':
                other.update(source='path', rewinds=0, sign_reads=False)
            sc['transfers'] = [other, victim] if rng.random() < 0.5 else [victim, other]
            sc['cfg']['multipart_threshold'] = rng.choice([4, 6])
            sc['cfg']['multipart_chunksize'] = rng.choice([2, 3])
            sc['cfg']['max_request_concurrency'] = rng.choice([1, 2, 3])
            op = {'delete': 'delete_object', 'upload': 'put_object', 'copy': 'copy_object'}[other['kind']]
            how = rng.random()
            if how < 0.5:
                sc['faults'] = [{'site': 'req', 'op': op, 'nth': 0, 'when': rng.choice(['before', 'after']), 'exc_kind': 'plain'}]
                sc['cancel'] = None
                sc['early_shutdown'] = rng.choice([0, 1, 2, 5, 10, 20])
            elif how < 0.75:
                sc['faults'] = []
                sc['cancel'] = {'kind': 'exit-exc', 'exc': rng.choice(['value', 'interrupt']), 'after_steps': rng.choice([0, 2, 10, 20])}
                sc.pop('early_shutdown', None)
            else:
                sc['faults'] = []
                sc['cancel'] = {'kind': 'shutdown', 'msg': '', 'after_steps': rng.choice([0, 2, 10, 20])}
                sc.pop('early_shutdown', None)
            sc['fresh_after'] = False
            sc['mode'] = rng.choice(['uniform', 'pct', 'stall'])
            return
        if rng.random() < 0.5:
            multipart(sc, rng)          # multipart uploads / copies with a fault among them
            if len(sc['transfers']) < 2:
                sc['transfers'].append(dict(sc['transfers'][0]))
        if sc['cancel'] is None or rng.random() < 0.5:
            sc['cancel'] = None
            sc['early_shutdown'] = rng.choice([0, 0, 1, 2, 5, 10, 25])
            sc['fresh_after'] = False

    return {'C03': None, 'C04': slots, 'C05': multipart, 'C06': downloads, 'C07': cancels, 'C08': callbacks,
            'C09': progress, 'C10': streams, 'C11': streams, 'C12': None, 'C18': barrier, 'C01': multipart, 'C02': downloads,
            'C16': stream_downloads}.get(prop)


def _in_cleanup(f):
    """fault sites that the failure cleanups of a transfer reach (abort of the multipart upload, closing the
    destination file): a non-Exception raised there escapes announce_done itself"""
    return f.get('op') == 'abort_multipart_upload' or (f.get('site') == 'fs' and f.get('op') == 'close')


def fixed_scenarios(prop, rng):
    """Scenario classes whose detection must not rest on the luck of the random generator: they run first in
    every exploration (the schedule seeds still vary with VERIF_SEED)."""
    if prop not in ('C04', 'C05', 'C07', 'C08', 'C18'):
        return []
    out = []

    def base(transfers, **cfg):
        c = {'multipart_threshold': 4, 'multipart_chunksize': 3, 'max_request_concurrency': 1,
             'max_submission_concurrency': 1, 'max_request_queue_size': 4, 'max_submission_queue_size': 3,
             'max_io_queue_size': 2, 'io_chunksize': 4, 'num_download_attempts': 2,
             'max_in_memory_upload_chunks': 3, 'max_in_memory_download_chunks': 2}
        c.update(cfg)
        return {'cfg': c, 'transfers': transfers, 'faults': [], 'cancel': None, 'mode': 'sticky',
                'sched_seed': rng.randrange(1 << 30), 'fresh_after': False, 'fresh_nonseekable': False,
                'mark_failed_after_done': False}

    def up(size):
        return {'kind': 'upload', 'size': size, 'source': 'seekable', 'rewinds': 0, 'sign_reads': False,
                'subscribers': [{'id': 0, 'reentrant': []}]}

    def down(size, dest):
        return {'kind': 'download', 'size': size, 'dest': dest, 'subscribers': [{'id': 0, 'reentrant': []}]}

    # Ctrl-C while shutdown() / the with-block exit waits, with work still queued behind a single request thread
    for how in ('shutdown', 'with'):
        for nth in (0, 1):
            for mode in ('sticky', 'uniform', 'stall'):
                for transfers in ([up(13)], [down(11, 'path'), up(10)], [down(13, 'nonseekable')]):
                    sc = base([dict(t) for t in transfers])
                    sc['cancel'] = {'kind': 'interrupt-exit', 'how': how, 'nth_wait': nth}
                    sc['mode'] = mode
                    if mode == 'stall':
                        sc['stall'] = {'class': 'req-end', 'nth': rng.choice([0, 1, 2]), 'len': rng.choice([40, 100])}
                    out.append(sc)
    # a part dies with a BaseException that is not an Exception (SystemExit / KeyboardInterrupt inside a worker)
    # while another part of the same upload is still on the wire: the pool keeps it on the part's future
    for op, kind in (('upload_part', 'upload'), ('upload_part_copy', 'copy')):
        for nth in (0, 1):
            for when in ('before', 'after'):
                for mode in ('stall', 'uniform', 'sticky'):
                    t = up(8) if kind == 'upload' else {'kind': 'copy', 'size': 13, 'subscribers': [{'id': 0, 'reentrant': []}]}
                    sc = base([t], max_request_concurrency=2)
                    sc['faults'] = [{'site': 'req', 'op': op, 'nth': nth, 'when': when, 'exc_kind': 'base'}]
                    sc['mode'] = mode
                    if mode == 'stall':
                        # the end of the first part request (req-end 0 is the create call's) is slow: that part is
                        # still on the wire when the faulted one dies and the rest of the queue drains
                        # (req-end 0 is the create call's; a copy asks for the source's size first)
                        sc['stall'] = {'class': 'req-end', 'nth': 1 if kind == 'upload' else 2, 'len': 400}
                    out.append(sc)
        # the variant that needs the dying part to come *before* the one on the wire in the list of parts the
        # complete task resolves: part 0 dies after its request took effect while part 1 is held at its end
        for rep in range(8):
            t = up(8) if kind == 'upload' else {'kind': 'copy', 'size': 13, 'subscribers': [{'id': 0, 'reentrant': []}]}
            sc = base([t], max_request_concurrency=2 + rep % 2)
            sc['faults'] = [{'site': 'req', 'op': op, 'nth': 0, 'when': 'after', 'exc_kind': 'base'}]
            sc['mode'] = 'stall'
            sc['stall'] = {'class': 'req-end', 'nth': 1 if kind == 'upload' else 2, 'len': 400}
            out.append(sc)
    return out


def _worker(args):
    prop, seed, start, count = args
    import explore
    import explore_judge
    rng = rng_for(seed, 'explore', prop, start)
    focus = focus_for(prop)
    out = {'evaluations': 0, 'nontrivial': 0, 'violations': [], 'dist': {}, 'sample': None}
    fixed = fixed_scenarios(prop, rng) if start == 0 else []
    for i in range(count):
        if i < len(fixed):
            sc = fixed[i]
            out['dist']['fixed-scenario'] = out['dist'].get('fixed-scenario', 0) + 1
        else:
            sc = explore.gen_scenario(rng, focus if (focus and rng.random() < 0.7) else None)
        if i < len(fixed):
            pass
        elif rng.random() < SERIAL_SHARE.get(prop, 0.12):
            explore.make_serial(sc, rng)
        elif [f for f in sc['faults'] if not _in_cleanup(f)] and rng.random() < 0.08:
            # a BaseException that is not an Exception (SystemExit from a callback, an interrupt re-raised by a
            # wrapper) inside a task of a worker thread: the pool keeps it on the task's future
            # (not inside a failure cleanup: a non-Exception raised by the abort call itself escapes announce_done
            #  before the done event is set — outside what the properties quantify over, noted in DESIGN.md)
            # the same holds for closing the destination file, which is what a download's failure cleanup does
            f = rng.choice([f for f in sc['faults'] if not _in_cleanup(f)])
            if f['site'] == 'body':
                f['kind'] = 'base'
            else:
                f['exc_kind'] = 'base'
            out['dist']['threaded:base-exception-inside-a-task'] = out['dist'].get('threaded:base-exception-inside-a-task', 0) + 1
        run = explore.run_scenario(sc)
        res = explore_judge.judge_all(run, [prop])
        out['evaluations'] += 1
        interesting = run.sch.multi_runnable_points > 0 and (
            bool(sc['faults']) or sc['cancel'] is not None or
            any(t['size'] >= sc['cfg']['multipart_threshold'] for t in sc['transfers']))
        if interesting:
            out['nontrivial'] += 1
        for ti, oc in run.outcomes.items():
            k = 'outcome:' + oc[0] + (':' + type(oc[1]).__name__ if oc[0] == 'raise' else '')
            out['dist'][k] = out['dist'].get(k, 0) + 1
        for t in sc['transfers']:
            k = 'transfer:%s' % t['kind']
            out['dist'][k] = out['dist'].get(k, 0) + 1
        if sc.get('serial'):
            out['dist']['serial-manager'] = out['dist'].get('serial-manager', 0) + 1
            if any(f.get('exc_kind') == 'interrupt' or f.get('kind') == 'interrupt' for f in sc['faults']):
                out['dist']['serial-manager:ctrl-c-inside-a-task'] = out['dist'].get('serial-manager:ctrl-c-inside-a-task', 0) + 1
        if sc['cancel']:
            k = 'cancel:' + sc['cancel']['kind']
            out['dist'][k] = out['dist'].get(k, 0) + 1
        for sig, wit, what in res.get(prop, []):
            wit = json.loads(json.dumps(wit, default=str))
            wit['scenario_index'] = start + i
            wit['schedule'] = run.sch.choices[:600]
            out['violations'].append((sig, wit, what))
        if len(out['violations']) >= 40:
            break           # a failing check does bounded work
        if out['sample'] is None and interesting:
            out['sample'] = {'scenario': json.loads(json.dumps(sc, default=str)), 'steps': run.sch.steps,
                             'outcomes': {str(k): v[0] for k, v in run.outcomes.items()}}
    return out


def explore_oracle(prop, seed, tier, budget=None):
    res = OracleResult(prop)
    n = budget or BUDGET[tier]
    if tier == 'quick':
        parts = [_worker((prop, seed, 0, n))]
    else:
        per = 500
        jobs = [(prop, seed, s, min(per, n - s)) for s in range(0, n, per)]
        with concurrent.futures.ProcessPoolExecutor(max_workers=min(14, os.cpu_count() or 4)) as ex:
            parts = list(ex.map(_worker, jobs))
    nt = 0
    for p in parts:
        res.evaluations += p['evaluations']
        nt += p['nontrivial']
        for k, c in p['dist'].items():
            res.hit(k, c)
        for sig, wit, what in p['violations']:
            res.violation(sig, wit, what)
        if p['sample'] and len(res.samples) < 2:
            res.samples.append(p['sample'])
    res.nontrivial = set(range(nt))
    return res


def make(prop):
    def oracle(seed, tier):
        return explore_oracle(prop, seed, tier)
    oracle.__name__ = 'explore_%s' % prop
    return oracle


for _p in ['C01', 'C02', 'C03', 'C04', 'C05', 'C06', 'C07', 'C08', 'C09', 'C10', 'C11', 'C12', 'C16', 'C18']:
    globals()['oracle_' + _p] = make(_p)



def submission_base_exception_oracle(prop):
    """A non-Exception BaseException (sys.exit() in a callback, a greenlet kill, …) raised in the submission thread —
    by a read of the source stream — while parts of the same upload are in flight: the parts' bodies re-raise the
    recorded exception in their own threads (InterruptReader), and the transfer must still be announced."""
    def oracle(seed, tier):
        import explore
        import explore_judge
        res = OracleResult(prop)
        rng = rng_for(seed, 'submission-base', prop)
        for i in range(40 if tier == 'quick' else 1500):
            sc = explore.gen_scenario(rng, None)
            explore.strip_chains(sc)
            sc['transfers'] = [{'kind': 'upload', 'size': rng.choice([8, 11, 13, 17]), 'source': rng.choice(['seekable', 'nonseekable']),
                                'rewinds': 0, 'sign_reads': False, 'subscribers': [{'id': 0}]}]
            sc['cfg'].update(multipart_threshold=4, multipart_chunksize=rng.choice([2, 3]), max_in_memory_upload_chunks=rng.choice([1, 2, 3]),
                             max_request_concurrency=rng.choice([1, 2]), max_request_queue_size=rng.choice([2, 3]))
            sc['cfg'].pop('max_bandwidth', None)
            sc['faults'] = [{'site': 'src-read', 'transfer': 0, 'nth': rng.choice([1, 2, 3]), 'exc_kind': 'base'}]
            sc['cancel'] = None
            sc.pop('early_shutdown', None)
            sc['fresh_after'] = False
            sc['mode'] = rng.choice(['uniform', 'sticky', 'pct'])
            sc.pop('stall', None)
            run = explore.run_scenario(sc)
            res.evaluations += 1
            res.hit('submission-thread-base-exception')
            if run.sch.multi_runnable_points > 0:
                res.nontrivial.add(i)
            for sig, wit, what in explore_judge.judge_all(run, [prop]).get(prop, []):
                wit = json.loads(json.dumps(wit, default=str))
                wit['schedule'] = run.sch.choices[:600]
                res.violation(sig, wit, what)
            if res.enough():
                break
        res.samples.append({'scenario': json.loads(json.dumps(sc, default=str))})
        return res
    oracle.__name__ = 'submission_base_exception_%s' % prop
    return oracle


oracle_base_C04 = submission_base_exception_oracle('C04')
oracle_base_C08 = submission_base_exception_oracle('C08')
