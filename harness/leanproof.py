"""Lean side of a check: regenerate Gen from the source, build the property module and the
driver, scan for forbidden constructs, audit the axioms of every theorem of the property."""
import json
import os
import re
import subprocess

from common import ALLOWED_AXIOMS, LEAN_DIR
import extract

FORBIDDEN = re.compile(r'\bsorry\b|\badmit\b|^\s*axiom\s|native_decide|bv_decide|implemented_by|\bunsafe\s|maxHeartbeats\s+0\b')


class ProofStatus:
    def __init__(self):
        self.extract = None          # dict or error string
        self.extract_ok = False
        self.build_ok = False
        self.build_log = ''
        self.forbidden = []          # (file, line, text)
        self.theorems = {}           # name -> [axioms]
        self.audit_ok = False
        self.audit_log = ''

    @property
    def obligations(self):
        return len(self.theorems)

    @property
    def discharged(self):
        if not self.build_ok or not self.audit_ok or self.forbidden:
            return 0
        return sum(1 for ax in self.theorems.values() if set(ax) <= ALLOWED_AXIOMS)

    @property
    def ok(self):
        return (self.extract_ok and self.build_ok and self.audit_ok and not self.forbidden
                and self.obligations > 0 and self.discharged == self.obligations)

    def failure(self):
        if not self.extract_ok:
            return 'translator: %s' % self.extract
        if not self.build_ok:
            m = re.search(r'error: (S3V/[^\n]*)', self.build_log)
            return 'lake build failed: %s' % (m.group(1) if m else self.build_log[-400:])
        if self.forbidden:
            return 'forbidden construct: %r' % (self.forbidden[0],)
        if not self.audit_ok:
            return 'axiom audit failed: %s' % self.audit_log[-300:]
        bad = {n: a for n, a in self.theorems.items() if not set(a) <= ALLOWED_AXIOMS}
        if bad:
            return 'theorems with axioms outside the allowed set: %r' % bad
        if self.obligations == 0:
            return 'no theorems found'
        return None


def _strip_comments(text):
    text = re.sub(r'/-.*?-/', lambda m: '\n' * m.group(0).count('\n'), text, flags=re.S)
    return re.sub(r'--[^\n]*', '', text)


def scan_forbidden():
    hits = []
    for root, _dirs, files in os.walk(os.path.join(LEAN_DIR, 'S3V')):
        for fn in files:
            if not fn.endswith('.lean'):
                continue
            path = os.path.join(root, fn)
            with open(path) as f:
                text = _strip_comments(f.read())
            for i, line in enumerate(text.split('\n'), 1):
                if FORBIDDEN.search(line):
                    hits.append((os.path.relpath(path, LEAN_DIR), i, line.strip()[:100]))
    main = os.path.join(LEAN_DIR, 'Main.lean')
    with open(main) as f:
        for i, line in enumerate(_strip_comments(f.read()).split('\n'), 1):
            if FORBIDDEN.search(line):
                hits.append(('Main.lean', i, line.strip()[:100]))
    return hits


AUDIT_TEMPLATE = '''import Lean
import S3V.Props.%(prop)s
open Lean Elab Command
run_cmd do
  let env ← getEnv
  let pfx : Name := `S3V.%(prop)s
  let mut lines : Array String := #[]
  for (n, ci) in env.constants.toList do
    if pfx.isPrefixOf n && !n.isInternalDetail then
      match ci with
      | .thmInfo _ =>
        let ax ← Lean.collectAxioms n
        lines := lines.push s!"THM {n} {ax.toList}"
      | _ => pure ()
  for l in lines do
    IO.println l
'''


def lake(args, timeout=1500):
    env = dict(os.environ)
    p = subprocess.run(['lake'] + args, cwd=LEAN_DIR, stdout=subprocess.PIPE,
                       stderr=subprocess.STDOUT, timeout=timeout, env=env)
    return p.returncode, p.stdout.decode(errors='replace')


def prove(prop, build_driver=True):
    st = ProofStatus()
    try:
        st.extract = extract.extract_all()
        st.extract_ok = True
    except extract.ExtractError as e:
        st.extract = str(e)
    targets = ['S3V.Props.%s' % prop]
    rc, log = lake(['build'] + targets)
    st.build_ok = rc == 0
    st.build_log = log
    if build_driver:
        rc2, log2 = lake(['build', 's3vdriver'])
        st.driver_ok = rc2 == 0
        st.driver_log = log2
    st.forbidden = scan_forbidden()
    if st.build_ok:
        adir = os.path.join(LEAN_DIR, '.audit')
        os.makedirs(adir, exist_ok=True)
        apath = os.path.join(adir, 'Audit%s.lean' % prop)
        with open(apath, 'w') as f:
            f.write(AUDIT_TEMPLATE % {'prop': prop})
        rc, out = lake(['env', 'lean', apath])
        st.audit_log = out
        if rc == 0:
            for line in out.split('\n'):
                m = re.match(r'THM (\S+) \[(.*)\]$', line.strip())
                if m:
                    ax = [a.strip() for a in m.group(2).split(',') if a.strip()]
                    st.theorems[m.group(1)] = ax
            st.audit_ok = True
    return st


def leanchecker(prop, timeout=1500):
    rc, out = lake(['env', 'leanchecker', 'S3V.Props.%s' % prop], timeout=timeout)
    return rc == 0, out[-500:]
