"""File-system protocol of downloads to a path (C06): the real manager's runs in the explorer are
turned into label sequences of S3V.Model.Fs2 — write tasks created / testing done() / opening the
temporary file / ending, the transfer failing or being cancelled, the final io task being submitted
/ testing done() / renaming, the failure cleanups — and replayed on the model (trace validation).
Observation is from outside: class-level wrappers around download.DownloadOutputManager.
get_io_write_task, IOWriteTask, IORenameFileTask and TransferCoordinator.set_exception / cancel,
the executor observers, and the instrumented OSUtils of the explorer."""
import os

from common import CorrResult, compare_with_model, rng_for


wrapper_errors = []


def make_installer(trace):
    """trace: dict ti -> list of (t, label).  Returns an `extra_install(env, sh, run)` for
    explore.run_scenario."""
    def install(env, sh, run):
        import s3transfer.download as dl
        import s3transfer.futures as fut
        sch = env.sch
        saved = []

        def emit(ti, label, t=None):
            trace.setdefault(ti, []).append((sch.tick() if t is None else t, label))

        def patch(cls, name, fn):
            saved.append((cls, name, cls.__dict__[name]))
            setattr(cls, name, fn)

        def stamp(coord):
            last = getattr(coord._lock, 'last', None)
            me = sch.me().name if sch.me() else '?'
            return last.get(me) if last else None

        orig_set_exc = fut.TransferCoordinator.set_exception
        orig_cancel = fut.TransferCoordinator.cancel

        def set_exception(self, exception, override=False):
            orig_set_exc(self, exception, override)
            if self.status in ('failed', 'cancelled'):
                emit(self.transfer_id, 'fail', stamp(self))

        def cancel(self, msg='', exc_type=fut.CancelledError):
            orig_cancel(self, msg, exc_type)
            if self.status == 'cancelled':
                emit(self.transfer_id, 'fail', stamp(self))
        patch(fut.TransferCoordinator, 'set_exception', set_exception)
        patch(fut.TransferCoordinator, 'cancel', cancel)

        orig_get = dl.DownloadOutputManager.get_io_write_task

        def get_io_write_task(self, fileobj, data, offset):
            emit(self._transfer_coordinator.transfer_id, 'queueWrite')
            return orig_get(self, fileobj, data, offset)
        patch(dl.DownloadOutputManager, 'get_io_write_task', get_io_write_task)

        def wrap_task(cls, pick_label, end_label):
            orig_main = cls._main
            orig_call = cls.__call__ if '__call__' in cls.__dict__ else None

            def _main(self, *a, **k):
                ti = self._transfer_coordinator.transfer_id
                self._s3v_main_entered = True
                emit(ti, pick_label + ' 0')
                n_before = len(env.events)
                try:
                    r = orig_main(self, *a, **k)
                except BaseException:
                    if end_label == 'writeEnd':
                        emit(ti, 'writeEnd 0')
                    else:
                        # the final task failed: unless the rename itself was reached (logged by the
                        # instrumented OSUtils as a fault), closing the temporary file failed
                        if not any(e['k'] == 'fs-fault' and e.get('op') == 'rename' for e in env.events[n_before:]):
                            emit(ti, 'rename 0')
                    raise
                if end_label == 'writeEnd':
                    emit(ti, 'writeEnd 1')
                return r
            patch(cls, '_main', _main)
            base_call = dl.Task.__call__

            def __call__(self, *a, **k):
                self._s3v_main_entered = False
                ti0 = self._transfer_coordinator.transfer_id
                if pick_label == 'pickFinal' and not any(l == 'getsDone' for _, l in trace.get(ti0, [])):
                    # single-request downloads run the final task as the GET task's done-callback
                    # (not through the io executor): that call is the moment every GET task has ended
                    emit(ti0, 'getsDone')
                try:
                    return base_call(self, *a, **k)
                except Exception:
                    import traceback
                    wrapper_errors.append(traceback.format_exc())
                    raise
                finally:
                    if not self._s3v_main_entered:
                        emit(self._transfer_coordinator.transfer_id, pick_label + ' 1')
            if orig_call is not None:
                patch(cls, '__call__', __call__)
            else:
                cls.__call__ = __call__
                saved.append((cls, '__call__', None))
        wrap_task(dl.IOWriteTask, 'pickWrite', 'writeEnd')
        wrap_task(dl.IORenameFileTask, 'pickFinal', 'rename')

        def on_exec(name, kind, fn):
            if kind == 'submit' and isinstance(fn, dl.IORenameFileTask):
                emit(fn._transfer_coordinator.transfer_id, 'getsDone')
        sh.exec_observers.append(on_exec)

        def uninstall():
            for cls, name, val in reversed(saved):
                if val is None:
                    delattr(cls, name)
                else:
                    setattr(cls, name, val)
        return uninstall
    return install


def fs_labels(run, trace, ti):
    """merge the wrappers' labels with the file-system events of transfer ti, by time"""
    out = list(trace.get(ti, []))
    prefix = 'dst%d.' % ti
    for e in run.env.events:
        k = e['k']
        if k == 'fs-open' and str(e.get('name', '')).startswith(prefix):
            out.append((e['t'], 'openTemp'))
        elif k == 'fs-rename' and str(e.get('src', '')).startswith(prefix):
            out.append((e['t'], 'rename 1'))
        elif k == 'fs-fault' and e.get('op') == 'rename' and str(e.get('name', '')).startswith(prefix):
            out.append((e['t'], 'rename 0'))
        elif k == 'fs-remove' and str(e.get('name', '')).startswith(prefix):
            out.append((e['t'], 'cleanup'))
    out.sort(key=lambda x: (x[0] is None, x[0]))
    return [l for _, l in out]


def corr(seed, tier):
    import comp_explore
    import explore
    res = CorrResult('fs-trace')
    rng = rng_for(seed, 'fs-trace')
    focus = comp_explore.focus_for('C06')
    cases = []
    for i in range(300 if tier == 'quick' else 6000):
        sc = explore.gen_scenario(rng, focus)
        explore.strip_chains(sc)      # the trace models know the scenario's own transfers only
        if sc.get('cancel') and sc['cancel']['kind'] in ('interrupt-result', 'interrupt-exit'):
            sc['cancel'] = None
        trace = {}
        run = explore.run_scenario(sc, observe=True, extra_install=make_installer(trace))
        if run.failure is not None or run.main_error is not None:
            continue
        for ti, t in enumerate(sc['transfers']):
            if t['kind'] != 'download' or t.get('dest') != 'path':
                continue
            labels = fs_labels(run, trace, ti)
            if not labels:
                continue
            ops = [('fs2 new', 'ok')] + [('fs2 ' + l, 'ok') for l in labels]
            final = run.final_files.get('dst%d' % ti)
            obj = run.specs[ti]['data']
            prev = run.specs[ti].get('previous')
            temps = [n for n in (run.leftover or []) if n.startswith('dst%d.' % ti)]
            state = 'final=%s temp=%s' % ('complete' if final == obj and final != prev else ('previous' if final == prev else 'other'),
                                          'present' if temps else 'absent')
            if obj == prev:
                state = None      # indistinguishable contents
            if state is not None:
                ops.append(('fs2 state', state))
            nontrivial = any(l.startswith(('fail', 'pickWrite 1', 'rename 0')) for l in labels)
            res.note_case((i, ti, tuple(labels)), nontrivial, {'labels': labels[:40]} if nontrivial else None)
            for l in set(x.split()[0] + (' ' + x.split()[1] if len(x.split()) > 1 else '') for x in labels):
                res.hit('label:' + l)
            cases.append(({'scenario': sc, 'transfer': ti, 'schedule_len': len(run.sch.choices)}, ops))
    compare_with_model(res, cases)
    return res
