"""Deterministic scheduler: real OS threads used as coroutines (exactly one holds the baton).

Every yield point hands control to the scheduling decision, which picks the next runnable
thread from (i) an explicit schedule (replay), (ii) a seeded random / priority (PCT-style) /
sticky strategy.  The scheduler knows which thread is blocked on what, so "unfinished threads,
none runnable" is a deadlock, and a step budget catches livelock.  Virtual time: sleepers are
woken by advancing the clock when nothing else can run.
"""
import random
import threading as _rt
import traceback


STALL_CLASSES = ['fs', 'fs', 'dest-write', 'src-read', 'lock-acquire', 'lock-release', 'event-set', 'sem-acquire',
                 'req-begin', 'req-end', 'body-read', 'cb', 'executor-submit', 'task-finished', 'monitor', 'queue-put',
                 'queue-get', 'client', 'client-attr', 'subscriber-on_done', 'rename', 'got-chunk', 'sink-write']


def label_class(label):
    if isinstance(label, tuple) and label:
        return label[0] if label[0] != 'blocked' else None
    return label


class SchedAbort(BaseException):
    """Raised inside managed threads to unwind them when a run is abandoned."""


class Deadlock(Exception):
    pass


class Livelock(Exception):
    pass


class MThread:
    def __init__(self, sched, fn, name):
        self.sched = sched
        self.fn = fn
        self.name = name
        self.go = _rt.Semaphore(0)
        self.finished = False
        self.started = False
        self.pred = None          # blocked while pred is not None and not pred()
        self.blocked_on = None
        self.wake_time = None     # virtual-time sleeper
        self.priority = 0.0
        self.exc = None
        self.thread = _rt.Thread(target=self._run, name=name, daemon=True)

    def _run(self):
        self.go.acquire()
        try:
            if not self.sched.aborted:
                self.fn()
        except SchedAbort:
            pass
        except BaseException as e:   # noqa
            self.exc = e
            self.sched.thread_errors.append((self.name, e, traceback.format_exc()))
        finally:
            self.finished = True
            self.sched._thread_finished(self)

    def runnable(self):
        if self.finished:
            return False
        if self.wake_time is not None:
            return self.sched.clock >= self.wake_time
        if self.pred is None:
            return True
        return bool(self.pred())


class Scheduler:
    def __init__(self, seed=0, mode='uniform', schedule=None, max_steps=200000, switch_prob=0.35, stall=None,
                 stall_preempts=False):
        self.rng = random.Random(seed)
        self.mode = mode
        self.replay = list(schedule) if schedule is not None else None
        self.replay_pos = 0
        self.threads = []
        self.current = None
        self.steps = 0
        self.max_steps = max_steps
        self.aborted = False
        self.failure = None           # Deadlock / Livelock instance
        self.choices = []             # indices chosen (for replay)
        self.trace = []               # (step, thread, label)
        self.thread_errors = []
        self.done = _rt.Semaphore(0)
        self.clock = 0.0
        self.switch_prob = switch_prob
        self.multi_runnable_points = 0
        self.seq = 0                  # global event counter for logs
        self.keep_trace = False
        self.on_point = None          # optional observer(thread_name, label), called at yield points
        # 'stall': one operation is slow — the first thread that reaches the k-th scheduling point of a
        # randomly chosen class (a file-system call, a lock release, an event set, a request, ...)
        # is not scheduled for a long stretch while everything else runs (unless nothing else can).
        self.stall_class = None
        self.stall_nth = 0
        self.stall_len = 0
        self._stall_seen = 0
        self._stalled = {}            # thread -> step until which it is held back
        # a held-back thread is *descheduled*: virtual time passes (sleepers wake) rather than letting it run early
        self.stall_preempts = stall_preempts
        if mode == 'stall':
            self.stall_class = self.rng.choice(STALL_CLASSES)
            self.stall_nth = self.rng.choice([0, 0, 0, 1, 1, 2, 3, 5])
            self.stall_len = self.rng.choice([15, 40, 100, 400])
            if stall:
                self.stall_class = stall.get('class', self.stall_class)
                self.stall_nth = stall.get('nth', self.stall_nth)
                self.stall_len = stall.get('len', self.stall_len)
        self._pct_changes = set()
        if mode == 'pct':
            self._pct_changes = {self.rng.randrange(1, 400) for _ in range(self.rng.randrange(1, 4))}

    # ---- public API used by shims ------------------------------------------
    def tick(self):
        self.seq += 1
        return self.seq

    def me(self):
        return self.current

    def spawn(self, fn, name):
        t = MThread(self, fn, '%s' % name)
        t.priority = self.rng.random()
        self.threads.append(t)
        t.thread.start()
        t.started = True
        return t

    def point(self, label=None):
        """A yield point: any other runnable thread may run before the caller continues."""
        self._switch(label)

    def block_until(self, pred, what):
        """Block the calling thread until pred() holds (re-tested after every reschedule)."""
        me = self.current
        while True:
            if self.aborted:
                raise SchedAbort()
            if pred():
                me.pred = None
                me.blocked_on = None
                return
            me.pred = pred
            me.blocked_on = what
            self._switch(('blocked', what))

    def sleep(self, duration):
        me = self.current
        me.wake_time = self.clock + max(duration, 0)
        me.blocked_on = ('sleep', me.wake_time)
        self._switch(('sleep', duration))
        me.wake_time = None
        me.blocked_on = None

    # ---- driver -------------------------------------------------------------
    def run(self, main_fn, timeout=120):
        """Run main_fn as managed thread 'main' until every managed thread finished."""
        main = self.spawn(main_fn, 'main')
        self.current = main
        main.go.release()
        if not self.done.acquire(timeout=timeout):
            self.failure = Livelock('wall-clock timeout after %ss at step %d' % (timeout, self.steps))
            self._abort()
        # let threads unwind
        for t in self.threads:
            t.thread.join(timeout=5)
        return self.failure

    # ---- internals ------------------------------------------------------------
    def _pick(self, me_label):
        """Choose the next thread to run (may be the current one)."""
        while True:
            cands = [t for t in self.threads if t.runnable()]
            if cands and self.stall_preempts and self._stalled and self.replay is None:
                if not [t for t in cands if self._stalled.get(t, 0) <= self.steps]:
                    later = [t for t in self.threads if not t.finished and t.wake_time is not None and t.wake_time > self.clock]
                    if later:
                        self.clock = min(t.wake_time for t in later)
                        continue
            if cands:
                break
            sleepers = [t for t in self.threads if not t.finished and t.wake_time is not None]
            if sleepers:
                self.clock = min(t.wake_time for t in sleepers)
                continue
            return None
        if len(cands) > 1:
            self.multi_runnable_points += 1
        if self.replay is not None:
            if self.replay_pos < len(self.replay):
                want = self.replay[self.replay_pos]
                self.replay_pos += 1
                for t in cands:
                    if t.name == want:
                        return t
            return cands[0]
        cur = self.current
        if self._stalled:
            free = [t for t in cands if self._stalled.get(t, 0) <= self.steps]
            if free:
                cands = free
        if self.mode in ('uniform', 'stall'):
            return self.rng.choice(cands)
        if self.mode == 'sticky':
            if cur in cands and self.rng.random() > self.switch_prob:
                return cur
            return self.rng.choice(cands)
        if self.mode == 'pct':
            if self.steps in self._pct_changes and cur is not None:
                cur.priority = -self.rng.random()
            return max(cands, key=lambda t: t.priority)
        return cands[0]

    def _switch(self, label):
        me = self.current
        if self.aborted:
            raise SchedAbort()
        self.steps += 1
        if self.on_point is not None and not (isinstance(label, tuple) and label and label[0] == 'blocked'):
            self.on_point(me.name, label)
        if self.stall_class is not None and label_class(label) == self.stall_class:
            if self._stall_seen == self.stall_nth:
                self._stalled[me] = self.steps + self.stall_len
            self._stall_seen += 1
        if self.keep_trace:
            self.trace.append((self.steps, me.name, label))
        if self.steps > self.max_steps:
            self.failure = Livelock('step budget %d exceeded' % self.max_steps)
            self._abort()
            raise SchedAbort()
        nxt = self._pick(label)
        if nxt is None:
            self.failure = Deadlock(self._describe_blocked())
            self._abort()
            raise SchedAbort()
        self.choices.append(nxt.name)
        if nxt is me:
            return
        self.current = nxt
        nxt.go.release()
        me.go.acquire()
        if self.aborted:
            raise SchedAbort()

    def _thread_finished(self, me):
        if self.aborted:
            if all(t.finished for t in self.threads):
                self.done.release()
            return
        if all(t.finished for t in self.threads):
            self.done.release()
            return
        nxt = self._pick(('finished', me.name))
        if nxt is None:
            self.failure = Deadlock(self._describe_blocked())
            self._abort()
            return
        self.choices.append(nxt.name)
        self.current = nxt
        nxt.go.release()

    def _describe_blocked(self):
        return '; '.join('%s blocked on %r' % (t.name, t.blocked_on)
                         for t in self.threads if not t.finished)

    def _abort(self):
        self.aborted = True
        for t in self.threads:
            if not t.finished:
                t.go.release()
        self.done.release()

    def blocked_summary(self):
        return [(t.name, t.blocked_on) for t in self.threads if not t.finished]
