"""Which Lean module, correspondence drivers and direct oracles decide each property."""
import importlib


def _f(mod, fn):
    def call(seed, tier):
        return getattr(importlib.import_module(mod), fn)(seed, tier)
    call.__name__ = '%s.%s' % (mod, fn)
    return call


def _x(prop):
    return _f('comp_explore', 'oracle_' + prop)


PROPS = {
    'C13': {
        'lean': 'C13',
        'corr': [_f('comp_bandwidth', 'corr')],
        'oracles': [_f('comp_bandwidth', 'oracle')],
        'modelled': ['bandwidth.LeakyBucket / ConsumptionScheduler / BandwidthRateTracker (exact rationals)',
                     'bandwidth.BandwidthLimitedStream wait loop', 'IEEE-754 float arithmetic of the real classes: compared, not modelled'],
    },
    'C03': {
        'lean': 'C03',
        'corr': [_f('comp_xfer', 'corr'), _f('comp_download', 'corr')],
        'oracles': [_x('C03')],
        'modelled': ['tasks.Task.__call__ / SubmissionTask._main / futures.TransferCoordinator (Xfer model: uploads, copies, deletes)',
                     'download retry loop (Download model)', 'downloads through the manager, callback and file-system faults: explorer only'],
    },
    'C04': {
        'lean': 'C04',
        'corr': [_f('comp_xfer', 'exec_corr'), _f('comp_sema', 'blocking_corr'), _f('comp_sema', 'cci_conc_corr')],
        'oracles': [_x('C04'), _f('comp_sema', 'cci_conc_oracle')],
        'modelled': ['futures.BoundedExecutor + ThreadPoolExecutor (stage model)', 'utils.SlidingWindowSemaphore (blocking model)',
                     'utils.CountCallbackInvoker (hand-off of the final IO task; operations linearised by lock acquisition)',
                     'three-stage composition with nested submission: explorer only'],
    },
    'C05': {
        'lean': 'C05',
        'corr': [_f('comp_xfer', 'corr')],
        'oracles': [_x('C05')],
        'modelled': ['Xfer model of upload / copy transfers (create, parts, complete, abort cleanup, announce_done)',
                     'legacy MultipartUploader: not modelled (D8)'],
    },
    'C06': {
        'lean': 'C06',
        'corr': [_f('comp_fs', 'corr'), _f('comp_download', 'corr')],
        'oracles': [_x('C06'), _f('comp_download', 'oracle')],
        'modelled': ['download.DownloadFilenameOutputManager / IOWriteTask / IORenameFileTask / failure cleanups (Fs2 model: write tasks test done(), '
                     'open the temporary file, write; final task; cleanups) — the real manager\'s runs are replayed on it',
                     'the real directory is inspected at every scheduling point by the explorer',
                     'legacy S3Transfer.download_file and the process pool: judged end to end (C19 for the process pool)'],
    },
    'C07': {
        'lean': 'C07',
        'corr': [_f('comp_xfer', 'corr'), _f('comp_coord', 'corr'), _f('comp_fs', 'corr')],
        'oracles': [_x('C07')],
        'modelled': ['futures.TransferCoordinator.cancel (Coord model)', 'Xfer model (cancel at any point)',
                     'cancelled downloads to a path: file-system trace validation (Fs2 model)', 'the four entry points in manager.py: explorer only'],
    },
    'C08': {
        'lean': 'C08',
        'corr': [_f('comp_xfer', 'corr')],
        'oracles': [_x('C08'), _f('comp_args', 'provided_size_oracle')],
        'modelled': ['announce_done / done callbacks / on_queued ordering (Xfer model)', 'downloads: explorer only'],
    },
    'C10': {
        'lean': 'C10',
        'corr': [_f('comp_xfer', 'exec_corr'), _f('comp_sema', 'blocking_corr')],
        'oracles': [_x('C10'), _f('comp_defer', 'manager_oracle_c10'), _f('comp_sema', 'tsem_blocking_oracle'),
                    _f('comp_sema', 'blocking_oracle_c10')],
        'modelled': ['futures.BoundedExecutor (stage model)', 'wiring of TransferManager.__init__ (translator)'],
    },
    'C11': {
        'lean': 'C11',
        'corr': [_f('comp_xfer', 'exec_corr'), _f('comp_sema', 'corr'), _f('comp_sema', 'blocking_corr')],
        'oracles': [_x('C11'), _f('comp_upload', 'oracle_c11_realscale'), _f('comp_sema', 'blocking_oracle_c11')],
        'modelled': ['permit accounting of the upload-chunk semaphore, the sliding window, the io queue'],
    },
    'C19': {
        'lean': 'C19',
        'corr': [_f('comp_procpool', 'corr')],
        'oracles': [_f('comp_procpool', 'oracle')],
        'modelled': ['processpool.TransferMonitor / TransferState, GetObjectSubmitter._do_run, GetObjectWorker._do_run, '
                     'ProcessPoolDownloader.download_file / shutdown / __exit__, ProcessPoolTransferFuture (ProcPool model: one label per '
                     'monitor call, queue operation and file-system operation)',
                     'real OS processes, multiprocessing.Queue and the BaseManager proxy: replaced by scheduler threads, cooperative FIFO '
                     'queues and a yielding proxy of the real TransferMonitor (the classes are constructed, never started)',
                     'the retry loop inside one GetObject job: executed (retryable / fatal / mid-body faults), abstracted to wWrite | wFail'],
    },
    'C20': {
        'lean': 'C20',
        'corr': [_f('comp_crt', 'corr'), _f('comp_crt', 'sched_corr')],
        'oracles': [_f('comp_crt', 'oracle')],
        'modelled': ['crt.CRTTransferManager._submit_transfer / _shutdown / _release_semaphore, crt.S3ClientArgsCreator.get_crt_callback '
                     'composition, crt.RenameTempFileHandler, crt.AfterDoneHandler, crt.CRTTransferCoordinator (Crt model)',
                     'the native awscrt S3 client: replaced by a stub with the contract "on_done exactly once per created request"; '
                     'both orders of completing finished_future and calling on_done are exercised',
                     'crt.BotocoreCRTRequestSerializer: executed for a fifth of the sequences, not modelled'],
    },
    'C18': {
        'lean': 'C18',
        'corr': [_f('comp_xfer', 'exec_corr')],
        'oracles': [_x('C18'), _f('comp_download', 'legacy_history_oracle')],
        'modelled': ['executor shutdown(wait=True) as a stage with shut/join', 'isolation: permits are the only shared state (structural argument + explorer)'],
    },
    'C01': {
        'lean': 'C01',
        'explore': True,
        'corr': [_f('comp_upload', 'corr'), _f('comp_chunk', 'corr'), _f('comp_plan', 'corr'), _f('comp_xfer', 'corr')],
        'oracles': [_f('comp_upload', 'oracle')],
        'modelled': ['upload.UploadFilenameInputManager / UploadSeekableInputManager / UploadNonSeekableInputManager (slicing, _read)',
                     'utils.ReadFileChunk', 'copies: CopySourceRange plan',
                     'ordering of create/parts/complete across threads: checked end to end, modelled in M2'],
    },
    'C02': {
        'lean': 'C02',
        'explore': True,
        'corr': [_f('comp_download', 'corr'), _f('comp_defer', 'corr')],
        'oracles': [_f('comp_download', 'oracle'), _f('comp_defer', 'manager_oracle_c02'), _f('comp_download', 'legacy_history_oracle_c02')],
        'modelled': ['download.GetObjectTask._main / ImmediatelyWriteIOGetObjectTask', 'download.DownloadChunkIterator',
                     'utils.StreamReaderProgress', 'download.DeferQueue',
                     'legacy and process-pool loops: judged end to end only'],
    },
    'C09': {
        'lean': 'C09',
        'explore': True,
        'corr': [_f('comp_chunk', 'corr'), _f('comp_download', 'corr')],
        'oracles': [_f('comp_chunk', 'oracle'), _f('comp_download', 'progress_oracle')],
        'modelled': ['utils.ReadFileChunk', 'upload.AggregatedProgressCallback', 'utils.StreamReaderProgress',
                     "botocore's use of a request body (not-transferring / signing reads / seek(0) / transferring / rewinds)"],
    },
    'C15': {
        'lean': 'C15',
        'corr': [_f('comp_args', 'corr')],
        'oracles': [_f('comp_args', 'oracle'), _f('comp_args', 'history_oracle'), _f('comp_args', 'caller_dict_oracle')],
        'modelled': ['which table filters the kwargs of which client call (upload/copies/download/delete/__init__/processpool)',
                     'utils.get_filtered_dict', 'utils.set_default_checksum_algorithm', 'manager._validate_all_known_args'],
    },
    'C17': {
        'lean': 'C17',
        'corr': [_f('comp_coord', 'corr')],
        'oracles': [_f('comp_coord', 'oracle')],
        'modelled': ['futures.TransferCoordinator', 'futures.TransferFuture.set_exception',
                     'atomicity of each coordinator operation (checked by the scheduled correspondence)'],
    },
    'C16': {
        'lean': 'C16',
        'explore': True,
        'corr': [_f('comp_defer', 'corr'), _f('comp_download', 'corr')],
        'oracles': [_f('comp_defer', 'oracle'), _f('comp_defer', 'manager_oracle')],
        'modelled': ['download.DownloadNonSeekableOutputManager.queue_file_io_task with 2-3 request threads: oracle under the scheduler', 'download.DeferQueue (heap modelled as a list sorted by (offset, length))'],
    },
    'C12': {
        'lean': 'C12',
        'explore': True,
        'corr': [_f('comp_sema', 'corr'), _f('comp_sema', 'blocking_corr')],
        'oracles': [_f('comp_sema', 'oracle'), _f('comp_sema', 'blocking_oracle')],
        'modelled': ['utils.SlidingWindowSemaphore', 'utils.TaskSemaphore', 'utils.CountCallbackInvoker',
                     'threading.Condition wait/notify (blocking model: FIFO notify of one waiter)'],
    },
    'C14': {
        'lean': 'C14',
        'corr': [_f('comp_plan', 'corr'), _f('comp_upload', 'corr')],
        'oracles': [_f('comp_plan', 'oracle'), _f('comp_upload', 'oracle')],
        'modelled': ['utils.calculate_num_parts', 'utils.calculate_range_parameter',
                     'utils.ChunksizeAdjuster', 'upload.*InputManager.yield_upload_part_bodies (offsets)',
                     'copies._get_transfer_size', 'download ranged plan', 'processpool ranged plan'],
    },
}


for _p, _spec in PROPS.items():
    if _spec.get('explore'):
        _spec['oracles'] = list(_spec['oracles']) + [_x(_p)]

# the serial manager (executor_cls=NonThreadedExecutor): model correspondence on random plans
for _p in ('C03', 'C04', 'C05', 'C06', 'C12'):
    PROPS[_p]['corr'] = list(PROPS[_p]['corr']) + [_f('comp_serial', 'corr')]

# the serial manager (executor_cls=NonThreadedExecutor): every fault position, ordinary exception and Ctrl-C
for _p in ('C02', 'C03', 'C04', 'C05', 'C06', 'C08', 'C09', 'C12', 'C16'):
    PROPS[_p]['oracles'] = list(PROPS[_p]['oracles']) + [_f('comp_serial', 'oracle_' + _p)]

# a non-Exception raised in the submission thread while parts are in flight (found D20)
for _p in ('C04', 'C08'):
    PROPS[_p]['oracles'] = list(PROPS[_p]['oracles']) + [_f('comp_explore', 'oracle_base_' + _p)]

# the process-pool downloader under the download properties as well
for _p in ('C02', 'C06'):
    PROPS[_p]['corr'] = list(PROPS[_p]['corr']) + [_f('comp_procpool', 'corr_' + _p)]
    PROPS[_p]['oracles'] = list(PROPS[_p]['oracles']) + [_f('comp_procpool', 'oracle_' + _p)]

PROPS['C06']['oracles'] = list(PROPS['C06']['oracles']) + [_f('comp_download', 'legacy_overlap_oracle')]
