"""Which Lean module, correspondence drivers and direct oracles decide each property."""
import importlib


def _f(mod, fn):
    def call(seed, tier):
        return getattr(importlib.import_module(mod), fn)(seed, tier)
    call.__name__ = '%s.%s' % (mod, fn)
    return call


PROPS = {
    'C01': {
        'lean': 'C01',
        'corr': [_f('comp_upload', 'corr'), _f('comp_chunk', 'corr'), _f('comp_plan', 'corr')],
        'oracles': [_f('comp_upload', 'oracle')],
        'modelled': ['upload.UploadFilenameInputManager / UploadSeekableInputManager / UploadNonSeekableInputManager (slicing, _read)',
                     'utils.ReadFileChunk', 'copies: CopySourceRange plan',
                     'ordering of create/parts/complete across threads: checked end to end, modelled in M2'],
    },
    'C02': {
        'lean': 'C02',
        'corr': [_f('comp_download', 'corr'), _f('comp_defer', 'corr')],
        'oracles': [_f('comp_download', 'oracle')],
        'modelled': ['download.GetObjectTask._main / ImmediatelyWriteIOGetObjectTask', 'download.DownloadChunkIterator',
                     'utils.StreamReaderProgress', 'download.DeferQueue',
                     'legacy and process-pool loops: judged end to end only'],
    },
    'C09': {
        'lean': 'C09',
        'corr': [_f('comp_chunk', 'corr'), _f('comp_download', 'corr')],
        'oracles': [_f('comp_chunk', 'oracle')],
        'modelled': ['utils.ReadFileChunk', 'upload.AggregatedProgressCallback', 'utils.StreamReaderProgress',
                     "botocore's use of a request body (not-transferring / signing reads / seek(0) / transferring / rewinds)"],
    },
    'C15': {
        'lean': 'C15',
        'corr': [_f('comp_args', 'corr')],
        'oracles': [_f('comp_args', 'oracle')],
        'modelled': ['which table filters the kwargs of which client call (upload/copies/download/delete/__init__/processpool)',
                     'utils.get_filtered_dict', 'utils.set_default_checksum_algorithm', 'manager._validate_all_known_args'],
    },
    'C17': {
        'lean': 'C17',
        'corr': [_f('comp_coord', 'corr')],
        'oracles': [_f('comp_coord', 'oracle')],
        'modelled': ['futures.TransferCoordinator', 'futures.TransferFuture.set_exception',
                     'atomicity of each coordinator operation (checked by the scheduled correspondence)'],
    },
    'C16': {
        'lean': 'C16',
        'corr': [_f('comp_defer', 'corr')],
        'oracles': [_f('comp_defer', 'oracle')],
        'modelled': ['download.DeferQueue (heap modelled as a list sorted by (offset, length))'],
    },
    'C12': {
        'lean': 'C12',
        'corr': [_f('comp_sema', 'corr'), _f('comp_sema', 'blocking_corr')],
        'oracles': [_f('comp_sema', 'oracle'), _f('comp_sema', 'blocking_oracle')],
        'modelled': ['utils.SlidingWindowSemaphore', 'utils.TaskSemaphore', 'utils.CountCallbackInvoker',
                     'threading.Condition wait/notify (blocking model: FIFO notify of one waiter)'],
    },
    'C14': {
        'lean': 'C14',
        'corr': [_f('comp_plan', 'corr')],
        'oracles': [_f('comp_plan', 'oracle')],
        'modelled': ['utils.calculate_num_parts', 'utils.calculate_range_parameter',
                     'utils.ChunksizeAdjuster', 'upload.*InputManager.yield_upload_part_bodies (offsets)',
                     'copies._get_transfer_size', 'download ranged plan', 'processpool ranged plan'],
    },
}
