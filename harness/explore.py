"""End-to-end explorer: the unmodified TransferManager under the deterministic scheduler, with a
fake S3 service, instrumented file system, user streams and subscribers.  Scenarios (transfers,
small configuration, fault plan, cancel/shutdown plan, subscribers) and schedules are generated
from one PRNG state; every run yields an event log that the direct oracles judge against the
property statements (C03-C11, C18, and end-to-end re-checks of C01/C02/C09/C12).

Scale-down: multipart uploads/copies of a few bytes need parts below S3's 5 MiB minimum, so the
explorer substitutes `ChunksizeAdjuster(min_size=1)` in upload.py / copies.py from outside.
"""
import io
import json
import os
import shutil
import tempfile
import weakref

from botocore.exceptions import IncompleteReadError, ReadTimeoutError

from common import rng_for
from fakes3 import FakeS3, FaultPlan, InjectedBase, InjectedFault, InjectedInterrupt, retryable_error
from sched import Deadlock, Livelock, SchedAbort, Scheduler
from shim import Installed


class UserExc(Exception):
    def __init__(self, tag):
        super().__init__('user-exc:%s' % (tag,))
        self.tag = tag


# --------------------------------------------------------------------------- streams / fs
class SrcStream:
    """Upload source. kind: seekable | nonseekable (short reads allowed for the latter)."""

    def __init__(self, env, ti, data, seekable, caps, fault_at):
        self.env, self.ti, self.data, self.pos = env, ti, data, 0
        self._seekable, self.caps, self.fault_at = seekable, list(caps), fault_at
        self.nreads = 0

    def readable(self):
        return True

    def seekable(self):
        return self._seekable

    def read(self, n=-1):
        self.env.point(('src-read', self.ti))
        k = self.nreads
        self.nreads += 1
        if self.fault_at is not None and k == self.fault_at:
            exc = {'interrupt': InjectedInterrupt, 'base': InjectedBase}.get(getattr(self, 'fault_kind', 'plain'), InjectedFault)('src-read-%d' % self.ti)
            self.env.fired(self.ti, 'src-read', exc)
            raise exc
        rem = len(self.data) - self.pos
        if n is None or n < 0:
            m = rem
        elif self.caps and not self._seekable:
            m = min(n, max(self.caps.pop(0), 1), rem)
        else:
            m = min(n, rem)
        out = self.data[self.pos:self.pos + m]
        self.pos += m
        self.env.log('src-read', ti=self.ti, asked=n, got=m)
        return out

    def seek(self, where, whence=0):
        if not self._seekable:
            raise OSError('not seekable')
        if whence == 0:
            self.pos = where
        elif whence == 1:
            self.pos += where
        else:
            self.pos = len(self.data) + where
        return self.pos

    def tell(self):
        if not self._seekable:
            raise OSError('not seekable')
        return self.pos

    def fileno(self):
        # like io.BytesIO: the attribute exists; most streams have no descriptor.  A decompressing
        # or otherwise wrapping stream (gzip.GzipFile, ...) has one, of a file whose size is not the
        # stream's length.
        if getattr(self, 'decoy_fd', None) is None:
            import io
            raise io.UnsupportedOperation('fileno')
        return self.decoy_fd

    def close(self):
        pass


class DestStream:
    def __init__(self, env, ti, seekable, fault_at):
        self.env, self.ti, self._seekable, self.fault_at = env, ti, seekable, fault_at
        self.fault_kind = 'plain'
        self.buf = bytearray()
        self.pos = 0
        self.nwrites = 0
        self.busy = False

    def seekable(self):
        return self._seekable

    def seek(self, where, whence=0):
        if not self._seekable:
            raise OSError('not seekable')
        self.pos = where

    def tell(self):
        if not self._seekable:
            raise OSError('not seekable')
        return self.pos

    def write(self, data):
        if self.busy:
            self.env.log('dest-write-overlap', ti=self.ti)
        self.busy = True
        t0 = self.env.log('dest-write-begin', ti=self.ti, off=self.pos, n=len(data))
        self.env.point(('dest-write', self.ti))
        k = self.nwrites
        self.nwrites += 1
        try:
            if self.fault_at is not None and k == self.fault_at:
                exc = make_local_fault(self.fault_kind, 'dest-write-%d' % self.ti)
                self.env.fired(self.ti, 'dest-write', exc)
                raise exc
            if len(self.buf) < self.pos:
                self.buf.extend(b'\0' * (self.pos - len(self.buf)))
            self.buf[self.pos:self.pos + len(data)] = data
            self.pos += len(data)
        finally:
            self.busy = False
            self.env.log('dest-write-end', ti=self.ti)


class SpecialFile:
    """What `open()` of a FIFO / character device gives: writes go to the stream behind it, no seeking."""

    def __init__(self, stream):
        self.stream = stream
        self.closed = False

    def write(self, data):
        return self.stream.write(data)

    def seek(self, *a):
        raise OSError(29, 'Illegal seek')

    def tell(self):
        raise OSError(29, 'Illegal seek')

    def close(self):
        self.closed = True

    def __enter__(self):
        return self

    def __exit__(self, *a):
        self.close()


class FileWrapper:
    def __init__(self, env, f, name):
        self.env, self.f, self.name = env, f, name

    def write(self, data):
        self.env.fs_point('write', self.name)
        self.env.log('fs-write', name=os.path.basename(self.name), off=self.f.tell(), n=len(data))
        return self.f.write(data)

    def seek(self, *a):
        return self.f.seek(*a)

    def tell(self):
        return self.f.tell()

    def read(self, *a):
        return self.f.read(*a)

    def close(self):
        self.env.fs_point('close', self.name)
        self.env.log('fs-close', name=os.path.basename(self.name))
        return self.f.close()

    def fileno(self):
        return self.f.fileno()

    def __enter__(self):
        return self

    def __exit__(self, *a):
        self.close()


_TRACKED = {}


def _tracked_chunk_class(base):
    """`base` with a close() that is logged — a subclass, so that `body.close` stays an ordinary bound
    method (holding the body) exactly as in the uninstrumented code"""
    if base not in _TRACKED:
        class Tracked(base):
            def close(self):
                rec = self._s3v_rec
                if not rec['closed']:
                    rec['closed'] = True
                    self._s3v_env.log('body-closed', bid=rec['bid'], in_memory=rec['in_memory'])
                return base.close(self)
        Tracked.__name__ = base.__name__
        Tracked.__qualname__ = base.__qualname__
        _TRACKED[base] = Tracked
    return _TRACKED[base]


def make_osutils(env):
    from s3transfer.utils import OSUtils

    class InstrumentedOSUtils(OSUtils):
        def is_special_file(self, filename):
            return filename in env.special or super().is_special_file(filename)

        def open(self, filename, mode):
            if filename in env.special:
                env.fs_point('open', filename)
                env.log('fs-open', name=os.path.basename(filename), mode=mode)
                return SpecialFile(env.special[filename])
            if 'w' in mode or '+' in mode or 'a' in mode:
                env.fs_point('open', filename)
                env.log('fs-open', name=os.path.basename(filename), mode=mode)
                return FileWrapper(env, open(filename, mode), filename)
            return open(filename, mode)

        def remove_file(self, filename):
            env.fs_point('remove', filename, can_fail=False)
            env.log('fs-remove', name=os.path.basename(filename))
            return super().remove_file(filename)

        def open_file_chunk_reader_from_fileobj(self, fileobj, chunk_size, full_file_size, callbacks,
                                                close_callbacks=None):
            body = super().open_file_chunk_reader_from_fileobj(fileobj, chunk_size, full_file_size,
                                                               callbacks, close_callbacks)
            inner = getattr(fileobj, '_fileobj', fileobj)
            inner = getattr(inner, '_fileobj', inner)
            in_memory = isinstance(inner, io.BytesIO)
            coord = getattr(fileobj, '_transfer_coordinator', None)
            if coord is None:
                coord = getattr(getattr(fileobj, '_fileobj', None), '_transfer_coordinator', None)
            # part buffers that are still reachable and not closed when this one is created: what the
            # process holds in memory at this moment (reference counting frees a buffer as soon as the
            # last reference goes)
            alive = sum(1 for r in env.body_refs if r['in_memory'] and not r['closed'] and r['ref']() is not None)
            bid = env.log('body-created', in_memory=in_memory, size=chunk_size,
                          ti=getattr(coord, 'transfer_id', None), alive_before=alive)
            rec = {'in_memory': in_memory, 'closed': False, 'ref': weakref.ref(body), 'bid': bid}
            env.body_refs.append(rec)
            body._s3v_rec = rec
            body._s3v_env = env
            body.__class__ = _tracked_chunk_class(type(body))
            return body

        def rename_file(self, cur, new):
            env.fs_point('rename', cur)
            env.log('fs-rename', src=os.path.basename(cur), dst=os.path.basename(new))
            return super().rename_file(cur, new)
    return InstrumentedOSUtils()


def make_subscriber(env, ti, spec):
    from s3transfer.subscribers import BaseSubscriber

    class Rec(BaseSubscriber):
        def on_queued(self, future, **kw):
            env.point(('cb', 'queued', ti))
            env.log('cb-queued', ti=ti, sub=spec['id'], status=future._coordinator.status)
            if spec.get('provide_size') is not None:
                future.meta.provide_transfer_size(spec['provide_size'])
            if spec.get('raise_in') == 'queued':
                exc = (InjectedInterrupt if spec.get('raise_kind') == 'interrupt' else UserExc)('queued-%d' % ti)
                env.fired(ti, 'cb-queued', exc)
                raise exc

        def on_progress(self, future, bytes_transferred, **kw):
            env.point(('cb', 'progress', ti))        # a user callback takes time: other parts go on meanwhile
            env.log('cb-progress', ti=ti, sub=spec['id'], v=bytes_transferred)
            if spec.get('raise_in') == 'progress' and not spec.get('_raised'):
                spec['_raised'] = True
                exc = (InjectedInterrupt if spec.get('raise_kind') == 'interrupt' else UserExc)('progress-%d' % ti)
                env.fired(ti, 'cb-progress', exc)
                raise exc

        def on_done(self, future, **kw):
            c = future._coordinator
            env.point(('cb', 'done', ti))
            env.log('cb-done', ti=ti, sub=spec['id'], status=c.status, done=future.done(),
                    event=c._done_event.is_set(), exc=type(c.exception).__name__ if c.exception else None)
            for act in spec.get('reentrant', []):
                if act == 'done':
                    future.done()
                elif act == 'meta':
                    future.meta.size
                elif act == 'result':
                    try:
                        future.result()
                    except SchedAbort:
                        raise
                    except BaseException:   # noqa: the transfer's failure may be an injected Ctrl-C
                        pass
                elif act == 'cancel':
                    future.cancel()
                elif act == 'set_exception':
                    try:
                        future.set_exception(UserExc('set-by-on-done-%d' % ti))
                    except Exception as e:   # noqa
                        env.log('reentrant-error', ti=ti, what=repr(e))
            if spec.get('chain'):
                # user code that starts the next transfer from the completion callback of the previous one
                env.log('chain-submit', ti=ti)
                env.chained.append((ti, env.tm.delete('b', 'chained-%s' % 'abcdefghij'[ti % 10])))
                env.log('chain-submitted', ti=ti)
            env.log('cb-done-end', ti=ti, sub=spec['id'])
            if spec.get('raise_in') == 'done':
                raise UserExc('done-%d' % ti)
    return Rec()


# --------------------------------------------------------------------------- environment
class Env:
    def __init__(self, sch, scenario, tmpdir):
        self.sch, self.sc, self.tmpdir = sch, scenario, tmpdir
        self.events = []
        self.fired_log = []
        self.fs_faults = {}     # (op, nth) -> True
        self.fs_counts = {}
        self.path_watch = []    # (final path, previous content, object bytes)
        self.special = {}       # path of a special file (FIFO) -> the stream behind it
        self.body_refs = []     # upload part bodies: weak references, closed flags
        self.chained = []       # (ti, future) of transfers submitted from an on_done callback
        self.tm = None
        self.c06_violations = []
        self.shutdown_returned_at = None

    def point(self, label):
        self.sch.point(label)

    def log(self, kind, **kw):
        t = self.sch.tick()
        kw['t'] = t
        kw['k'] = kind
        kw['th'] = self.sch.me().name if self.sch.me() else '?'
        self.events.append(kw)
        return t

    def fired(self, ti, site, exc):
        self.fired_log.append({'ti': ti, 'site': site, 'exc': exc, 't': self.sch.tick()})

    def fs_point(self, op, name, can_fail=True):
        self.sch.point(('fs', op))
        n = self.fs_counts.get(op, 0)
        self.fs_counts[op] = n + 1
        kind = self.fs_faults.pop((op, n), None) if can_fail else None
        if kind:
            exc = make_local_fault(kind if kind is not True else 'plain', 'injected-fs-%s-%d' % (op, n), base=OSError)
            exc.tag = 'fs'
            ti = self.transfer_of_path(name)
            self.fired(ti, 'fs-' + op, exc)
            self.log('fs-fault', op=op, name=os.path.basename(name))
            raise exc

    def transfer_of_path(self, name):
        base = os.path.basename(name)
        for ti, t in enumerate(self.sc['transfers']):
            if t.get('dest') == 'path' and base.startswith('dst%d' % ti):
                return ti
            if t.get('dest') == 'special' and base == 'fifo%d' % ti:
                return ti
        return None

    def watch_paths(self):
        """C06: at this instant every watched final path holds previous content or the object."""
        for final, prev, obj, ti in self.path_watch:
            try:
                with open(final, 'rb') as f:
                    cur = f.read()
            except OSError:
                cur = None
            if cur != prev and cur != obj:
                if not self.c06_violations:
                    self.c06_violations.append({'ti': ti, 'step': self.sch.steps,
                                                'have_len': None if cur is None else len(cur),
                                                'object_len': len(obj),
                                                'previous_len': None if prev is None else len(prev)})


# A failure of the destination (stream write, file open/write/close/rename) is a local error, whatever
# its Python type: some of these types also occur as network errors (BrokenPipeError is a
# ConnectionError, socket.timeout), which must not make the library treat them as retryable.
LOCAL_FAULT_KINDS = ['plain', 'plain', 'brokenpipe', 'timeout']

# extra_args a user may pass (all allowed for every transfer method they are used with); the fake client
# rejects parameters an operation does not have, as botocore does before sending anything
EXTRA_ARG_SETS = {
    'ssec': {'SSECustomerAlgorithm': 'AES256', 'SSECustomerKey': 'key', 'SSECustomerKeyMD5': 'md5'},
    'payer': {'RequestPayer': 'requester'},
    'owner': {'ExpectedBucketOwner': '123456789012'},
    'meta': {'Metadata': {'a': 'b'}},
}


def make_local_fault(kind, tag, base=None):
    import socket
    if kind == 'interrupt':
        e = InjectedInterrupt(tag)
    elif kind == 'base':
        e = InjectedBase(tag)
    elif kind == 'brokenpipe':
        e = BrokenPipeError(32, 'injected:%s' % tag)
    elif kind == 'timeout':
        e = socket.timeout('injected:%s' % tag)
    elif base is not None:
        e = base('injected:%s' % tag)
    else:
        e = InjectedFault(tag)
    return e


# --------------------------------------------------------------------------- scenario generation
KINDS = ['upload', 'download', 'copy', 'delete']


def obj_bytes(ti, n):
    return bytes((i * 7 + 13 * ti + 1) % 256 for i in range(n))


def gen_scenario(rng, focus=None):
    small = lambda: rng.choice([1, 1, 2, 3])
    cfg = {
        'multipart_threshold': rng.choice([1, 4, 6, 9, 50]),
        'multipart_chunksize': rng.choice([2, 3, 4, 5]),
        'max_request_concurrency': small(), 'max_submission_concurrency': small(),
        'max_request_queue_size': small(), 'max_submission_queue_size': small(),
        'max_io_queue_size': small(), 'io_chunksize': rng.choice([1, 2, 3, 8]),
        'num_download_attempts': rng.choice([1, 2, 3]),
        'max_in_memory_upload_chunks': small(), 'max_in_memory_download_chunks': small(),
    }
    if rng.random() < 0.25:
        # a bandwidth limit: bodies are wrapped in BandwidthLimitedStream (virtual clock); mostly far above
        # what these tiny transfers need, sometimes low enough to make closes wait
        cfg['max_bandwidth'] = rng.choice([10 ** 9, 10 ** 9, 4096, 64])
    nt = rng.choice([1, 1, 1, 2, 2, 3])
    transfers = []
    for ti in range(nt):
        kind = rng.choice(['upload', 'upload', 'download', 'download', 'copy', 'delete'])
        size = rng.choice([0, 1, 3, 5, 8, 11, 13, rng.randrange(0, 20)])
        t = {'kind': kind, 'size': size}
        if kind == 'upload':
            t['source'] = rng.choice(['path', 'seekable', 'nonseekable', 'nonseekable'])
            if t['source'] == 'nonseekable' and rng.random() < 0.5:
                t['caps'] = [rng.randrange(1, 6) for _ in range(rng.randrange(1, 5))]
            if rng.random() < 0.3:
                t['checksum'] = 'CRC32'
            t['rewinds'] = rng.choice([0, 0, 0, 1])
            t['sign_reads'] = rng.random() < 0.3
            if t['source'] == 'seekable' and rng.random() < 0.5:
                t['wraps_fd'] = rng.choice(['shorter', 'longer'])
        elif kind == 'download':
            t['dest'] = rng.choice(['path', 'path', 'seekable', 'seekable', 'nonseekable', 'nonseekable', 'nonseekable', 'special'])
            if t['dest'] == 'path':
                t['previous'] = rng.choice([None, None, 5])
        if rng.random() < 0.3:
            t['extra_args'] = rng.choice(['ssec', 'ssec', 'payer', 'owner', 'meta'])
        subs = []
        for si in range(rng.choice([0, 1, 1, 2])):
            sp = {'id': si}
            r = rng.random()
            if r < 0.12:
                sp['raise_in'] = rng.choice(['queued', 'progress', 'done'])
            elif r < 0.3:
                sp['reentrant'] = rng.sample(['done', 'meta', 'result'], rng.randrange(1, 4))
            elif r < 0.38 and kind in ('download', 'copy'):
                sp['provide_size'] = size
            elif r < 0.44:
                sp['chain'] = True
            subs.append(sp)
        t['subscribers'] = subs
        transfers.append(t)
    faults = []
    nf = rng.choice([0, 0, 1, 1, 1, 2])
    for _ in range(nf):
        r = rng.random()
        if r < 0.45:
            faults.append({'site': 'req', 'op': rng.choice(['head_object', 'get_object', 'put_object',
                                                             'create_multipart_upload', 'upload_part', 'upload_part_copy',
                                                             'complete_multipart_upload', 'copy_object', 'delete_object',
                                                             'abort_multipart_upload']),
                           'nth': rng.choice([0, 0, 1, 2]), 'when': rng.choice(['before', 'after']),
                           'exc_kind': rng.choice(['plain', 'plain', 'conn'])})
        elif r < 0.7:
            faults.append({'site': 'body', 'nth_get': rng.choice([0, 0, 1, 2, 3]), 'after': rng.randrange(0, 6),
                           'kind': rng.choice(['retryable', 'retryable', 'retryable', 'fatal'])})
        elif r < 0.8:
            faults.append({'site': 'src-read', 'transfer': rng.randrange(nt), 'nth': rng.randrange(0, 4)})
        elif r < 0.87:
            faults.append({'site': 'dest-write', 'transfer': rng.randrange(nt), 'nth': rng.randrange(0, 4),
                           'exc_kind': rng.choice(LOCAL_FAULT_KINDS)})
        else:
            faults.append({'site': 'fs', 'op': rng.choice(['open', 'write', 'close', 'rename']), 'nth': rng.choice([0, 0, 1]),
                           'exc_kind': rng.choice(LOCAL_FAULT_KINDS)})
    cancel = None
    r = rng.random()
    if r < 0.22:
        cancel = {'kind': 'future', 'transfer': rng.randrange(nt), 'after_steps': rng.choice([0, 1, 3, 8, 15, 30, 60, 120])}
    elif r < 0.30:
        cancel = {'kind': 'shutdown', 'msg': rng.choice(['', 'bye']), 'after_steps': rng.choice([0, 2, 10, 40])}
    elif r < 0.36:
        cancel = {'kind': 'exit-exc', 'exc': rng.choice(['value', 'interrupt', 'empty-msg']), 'after_steps': rng.choice([0, 2, 10, 40])}
    elif r < 0.42:
        cancel = {'kind': 'interrupt-result', 'nth_wait': rng.choice([0, 0, 1])}
    elif r < 0.47:
        # Ctrl-C while shutdown() / the with-block exit is waiting for the transfers
        cancel = {'kind': 'interrupt-exit', 'how': rng.choice(['with', 'with', 'shutdown']), 'nth_wait': rng.choice([0, 0, 1])}
    sc = {'cfg': cfg, 'transfers': transfers, 'faults': faults, 'cancel': cancel,
          'mode': rng.choice(['uniform', 'sticky', 'sticky', 'pct', 'stall', 'stall']), 'sched_seed': rng.randrange(1 << 30),
          'fresh_after': rng.random() < 0.3, 'fresh_nonseekable': rng.random() < 0.5,
          'mark_failed_after_done': rng.random() < 0.2}
    # shutdown() without cancel while transfers are still in flight: the barrier itself
    if cancel is None and rng.random() < 0.25:
        sc['early_shutdown'] = rng.choice([0, 0, 2, 5, 10, 25, 40])
        sc['fresh_after'] = False
    if focus:
        focus(sc, rng)
    # a callback that submits another transfer needs room in the queues its own caller occupies (a bounded
    # queue of one slot whose only slot is held by the code that submits is the user's deadlock, not the library's)
    if any(s.get('chain') for t in sc['transfers'] for s in t['subscribers']):
        normalize_chain_cfg(sc['cfg'])
    # a size supplied by a subscriber is the true size (a wrong one is the user's error), and only
    # downloads / copies need one
    for t in sc['transfers']:
        for s in t['subscribers']:
            if 'provide_size' in s:
                if t['kind'] in ('download', 'copy'):
                    s['provide_size'] = t['size']
                else:
                    del s['provide_size']
    return sc


def strip_chains(sc):
    for t in sc['transfers']:
        for s_ in t['subscribers']:
            s_.pop('chain', None)
    return sc


def normalize_chain_cfg(cfg):
    # room for every transfer of a scenario and every chained one at once: a callback that runs in the only
    # submission thread and blocks on a full submission queue is the application's own cycle
    for k in ('max_submission_queue_size', 'max_request_queue_size', 'max_io_queue_size'):
        cfg[k] = max(cfg[k], 16)


def make_serial(sc, rng):
    """The same scenario on a manager whose tasks run in the caller's thread (NonThreadedExecutor, what
    boto3 builds for use_threads=False).  That thread is where Ctrl-C lands, so faults may be
    KeyboardInterrupts raised inside a request, a read, a write or a callback."""
    sc['serial'] = True
    sc['mode'] = 'uniform'
    sc.pop('stall', None)
    sc.pop('early_shutdown', None)
    if sc['cancel'] and sc['cancel']['kind'] in ('interrupt-result', 'interrupt-exit'):
        sc['cancel'] = None
    nt = len(sc['transfers'])
    if not sc['faults'] and rng.random() < 0.8:
        r = rng.random()
        if r < 0.5:
            sc['faults'].append({'site': 'req', 'op': rng.choice(['head_object', 'get_object', 'put_object', 'create_multipart_upload',
                                                                   'upload_part', 'upload_part_copy', 'complete_multipart_upload',
                                                                   'copy_object', 'delete_object']),
                                 'nth': rng.choice([0, 0, 1, 2]), 'when': rng.choice(['before', 'after']), 'exc_kind': 'plain'})
        elif r < 0.8:
            sc['faults'].append({'site': 'body', 'nth_get': rng.choice([0, 0, 1, 2]), 'after': rng.randrange(0, 6), 'kind': 'fatal'})
        elif r < 0.9:
            sc['faults'].append({'site': 'src-read', 'transfer': rng.randrange(nt), 'nth': rng.randrange(0, 4)})
        else:
            sc['faults'].append({'site': 'dest-write', 'transfer': rng.randrange(nt), 'nth': rng.randrange(0, 4), 'exc_kind': 'plain'})
    for f in sc['faults']:
        if rng.random() < 0.7 and f.get('op') != 'abort_multipart_upload':
            if f['site'] == 'body':
                f['kind'] = 'interrupt'
            else:
                f['exc_kind'] = 'interrupt'
    for t in sc['transfers']:
        for s_ in t['subscribers']:
            if s_.get('raise_in') in ('queued', 'progress') and rng.random() < 0.6:
                s_['raise_kind'] = 'interrupt'
    return sc


# --------------------------------------------------------------------------- running
class Run:
    pass


def _patch_adjuster():
    import s3transfer.copies as copies
    import s3transfer.upload as upload
    from s3transfer.utils import ChunksizeAdjuster
    saved = (upload.ChunksizeAdjuster, copies.ChunksizeAdjuster)

    def small():
        return ChunksizeAdjuster(min_size=1)
    upload.ChunksizeAdjuster = small
    copies.ChunksizeAdjuster = small
    return saved


def _unpatch_adjuster(saved):
    import s3transfer.copies as copies
    import s3transfer.upload as upload
    upload.ChunksizeAdjuster, copies.ChunksizeAdjuster = saved


def run_scenario(sc, schedule=None, keep_trace=False, observe=False, extra_install=None):
    tmpdir = tempfile.mkdtemp(prefix='s3v-ex-')
    sch = Scheduler(seed=sc['sched_seed'], mode=sc['mode'], schedule=schedule, max_steps=60000, stall=sc.get('stall'))
    sch.keep_trace = keep_trace
    env = Env(sch, sc, tmpdir)
    run = Run()
    run.sc, run.env, run.sch = sc, env, sch
    run.outcomes = {}
    run.futures = {}
    run.main_error = None
    saved = _patch_adjuster()
    try:
        with Installed(sch) as sh:
            run.observer = None
            if observe:
                import observe as observe_mod
                run.observer = observe_mod.Observer(env, sh)
                run.observer.install()
            extra_uninstall = extra_install(env, sh, run) if extra_install is not None else None
            try:
                _run_inner(sc, sch, sh, env, run)
            finally:
                if extra_uninstall is not None:
                    extra_uninstall()
                if run.observer is not None:
                    run.observer.uninstall()
    finally:
        _unpatch_adjuster(saved)
        run.leftover = sorted(os.listdir(tmpdir))
        run.final_files = {}
        for n in run.leftover:
            try:
                with open(os.path.join(tmpdir, n), 'rb') as f:
                    run.final_files[n] = f.read()
            except OSError:
                pass
        shutil.rmtree(tmpdir, ignore_errors=True)
    return run


def _track_occupancy(sh, run):
    """Exact occupancy per stage semaphore: a task counts from the moment BoundedExecutor.submit
    returned (permit taken, task queued) until its future is about to complete (before the permit is
    given back), so the measured number never exceeds the true one."""
    import s3transfer.futures as fm
    occ = {}
    high = {}
    orig = fm.BoundedExecutor.submit

    def submit(self, task, tag=None, block=True):
        fut = orig(self, task, tag=tag, block=block)
        key = (id(self), getattr(tag, 'name', None))
        if not getattr(task, '_s3v_finished', False):
            task._s3v_sem = key
            occ[key] = occ.get(key, 0) + 1
            high[key] = max(high.get(key, 0), occ[key])
        return fut

    def on_exec(name, kind, fn):
        if kind == 'finish':
            fn._s3v_finished = True
            key = getattr(fn, '_s3v_sem', None)
            if key is not None:
                occ[key] -= 1
                fn._s3v_sem = None
    fm.BoundedExecutor.submit = submit
    sh.exec_observers.append(on_exec)
    run.occupancy_high = high

    def undo():
        fm.BoundedExecutor.submit = orig
    return undo


def _run_inner(sc, sch, sh, env, run):
    from s3transfer.manager import TransferConfig, TransferManager
    cfg = sc['cfg']
    if sc.get('serial'):
        # every task runs inline in the caller's thread: nothing is ever queued
        run.occupancy_high = {}
        undo_occ = lambda: None
    else:
        undo_occ = _track_occupancy(sh, run)
    try:
        _run_inner2(sc, sch, sh, env, run)
    finally:
        undo_occ()
        try:
            tm = run.tm
            names = {id(tm._request_executor): 'request', id(tm._submission_executor): 'submission', id(tm._io_executor): 'io'}
            caps = {('request', None): cfg['max_request_queue_size'], ('submission', None): cfg['max_submission_queue_size'],
                    ('io', None): cfg['max_io_queue_size'],
                    ('request', 'in_memory_upload'): cfg['max_in_memory_upload_chunks'],
                    ('request', 'in_memory_download'): cfg['max_in_memory_download_chunks']}
            run.occupancy = {}
            for (eid, tag), h in run.occupancy_high.items():
                k = (names.get(eid, '?'), tag)
                run.occupancy[k] = (h, caps.get(k))
        except Exception:   # noqa
            run.occupancy = {}


def _run_inner2(sc, sch, sh, env, run):
    from s3transfer.manager import TransferConfig, TransferManager
    cfg = sc['cfg']
    req_faults = [dict(f) for f in sc['faults'] if f['site'] == 'req']
    for f in req_faults:
        if f.get('exc_kind') == 'interrupt':
            f['exc'] = (lambda f=f: InjectedInterrupt('req-%s-%d-%s' % (f['op'], f['nth'], f['when'])))
        elif f.get('exc_kind') == 'base':
            f['exc'] = (lambda f=f: InjectedBase('req-%s-%d-%s' % (f['op'], f['nth'], f['when'])))
        elif f.get('exc_kind') == 'conn':
            # a connection-level error: retryable by the library only where the property says so
            # (the GetObject call of a download attempt), an ordinary failure everywhere else
            f['exc'] = (lambda f=f: retryable_error('conn', 'req-%s-%d-%s' % (f['op'], f['nth'], f['when'])))
        else:
            f['exc'] = (lambda f=f: InjectedFault('req-%s-%d-%s' % (f['op'], f['nth'], f['when'])))
    fake = FakeS3(fault_plan=FaultPlan(req_faults), hook=lambda what, info: sch.point((what, info)))
    fake.clock = sch.tick
    run.fake = fake
    if getattr(run, 'observer', None) is not None:
        import re as _re

        def on_event(e):
            m = _re.search(r'(\d+)$', e['args'].get('Key', '') or '')
            ti = int(m.group(1)) if m else None
            run.observer.request_event(e['op'], e['phase'], e['outcome'] == 'ok', ti, e['t'])
        fake.on_event = on_event
    body_faults = [f for f in sc['faults'] if f['site'] == 'body']
    get_counter = {'n': 0}

    fake.faults.exempt_keys.add('fresh')

    def script_fn(kw, start):
        if kw.get('Key') == 'fresh':
            return None
        n = get_counter['n']
        get_counter['n'] += 1
        for f in body_faults:
            if f['nth_get'] == n:
                sizes, pos = [], 0
                while pos < f['after']:
                    s = min(2, f['after'] - pos)
                    sizes.append(s)
                    pos += s
                if f['kind'] == 'retryable':
                    return sizes + [('fault', lambda: retryable_error(['incomplete', 'timeout', 'conn'][n % 3], ('get', n)))]
                if f['kind'] == 'interrupt':
                    return sizes + [('fault', lambda: InjectedInterrupt('body-%d' % n))]
                if f['kind'] == 'base':
                    return sizes + [('fault', lambda: InjectedBase('body-%d' % n))]
                return sizes + [('fault', lambda: InjectedFault('body-%d' % n))]
        return None
    fake.get_script_fn = script_fn
    for f in sc['faults']:
        if f['site'] == 'fs':
            env.fs_faults[(f['op'], f['nth'])] = f.get('exc_kind', 'plain')
    sch.on_point = (lambda th, label: env.watch_paths()) if any(
        t.get('dest') == 'path' for t in sc['transfers']) else None

    osutil = make_osutils(env)
    tmpdir = env.tmpdir
    specs = []
    for ti, t in enumerate(sc['transfers']):
        data = obj_bytes(ti, t['size'])
        sp = {'ti': ti, 'data': data}
        src_fault = next((f['nth'] for f in sc['faults'] if f['site'] == 'src-read' and f['transfer'] == ti), None)
        dst_fault = next((f['nth'] for f in sc['faults'] if f['site'] == 'dest-write' and f['transfer'] == ti), None)
        if t['kind'] == 'upload':
            if t['source'] == 'path':
                p = os.path.join(tmpdir, 'src%d' % ti)
                with open(p, 'wb') as f:
                    f.write(data)
                sp['fileobj'] = p
            else:
                sp['fileobj'] = SrcStream(env, ti, data, t['source'] == 'seekable', t.get('caps', []), src_fault)
                sp['fileobj'].fault_kind = next((f.get('exc_kind', 'plain') for f in sc['faults']
                                                 if f['site'] == 'src-read' and f['transfer'] == ti), 'plain')
                if t.get('wraps_fd') and t['source'] == 'seekable':
                    decoy = os.path.join(tmpdir, 'decoy%d' % ti)
                    with open(decoy, 'wb') as f:
                        f.write(b'z' * ((2 * len(data) + 7) if t['wraps_fd'] == 'longer' else (len(data) // 3 if len(data) >= 3 else len(data) + 2)))
                    sp['decoy_file'] = open(decoy, 'rb')
                    sp['fileobj'].decoy_fd = sp['decoy_file'].fileno()
        elif t['kind'] == 'download':
            fake.objects[('b', 'src%d' % ti)] = data
            if t['dest'] == 'path':
                p = os.path.join(tmpdir, 'dst%d' % ti)
                prev = None
                if t.get('previous') is not None:
                    prev = b'P' * t['previous']
                    with open(p, 'wb') as f:
                        f.write(prev)
                sp['fileobj'] = p
                sp['previous'] = prev
                env.path_watch.append((p, prev, data, ti))
            elif t['dest'] == 'special':
                # a special file (FIFO) given by name
                p = os.path.join(tmpdir, 'fifo%d' % ti)
                st = DestStream(env, ti, False, dst_fault)
                st.fault_kind = next((f.get('exc_kind', 'plain') for f in sc['faults']
                                      if f['site'] == 'dest-write' and f['transfer'] == ti), 'plain')
                env.special[p] = st
                sp['fileobj'] = p
                sp['special_stream'] = st
            else:
                sp['fileobj'] = DestStream(env, ti, t['dest'] == 'seekable', dst_fault)
                sp['fileobj'].fault_kind = next((f.get('exc_kind', 'plain') for f in sc['faults']
                                                 if f['site'] == 'dest-write' and f['transfer'] == ti), 'plain')
        elif t['kind'] == 'copy':
            fake.objects[('sb', 'src%d' % ti)] = data
        elif t['kind'] == 'delete':
            fake.objects[('b', 'k%d' % ti)] = data
        sp['subs'] = [make_subscriber(env, ti, s) for s in t['subscribers']]
        specs.append(sp)
    run.specs = specs
    cancel = sc.get('cancel')

    def submit(tm, ti):
        t = sc['transfers'][ti]
        sp = specs[ti]
        env.log('submit', ti=ti, tkind=t['kind'])
        more = dict(EXTRA_ARG_SETS.get(t.get('extra_args'), {}))
        if t['kind'] == 'upload':
            extra = {'ChecksumAlgorithm': t['checksum']} if t.get('checksum') else {}
            extra.update(more)
            return tm.upload(sp['fileobj'], 'b', 'k%d' % ti, extra_args=extra, subscribers=sp['subs'])
        if t['kind'] == 'download':
            more.pop('Metadata', None)
            return tm.download('b', 'src%d' % ti, sp['fileobj'], extra_args=more, subscribers=sp['subs'])
        if t['kind'] == 'copy':
            return tm.copy({'Bucket': 'sb', 'Key': 'src%d' % ti}, 'b', 'k%d' % ti, extra_args=more, subscribers=sp['subs'])
        more.pop('Metadata', None)
        for k in [k for k in more if k.startswith('SSECustomer')]:
            more.pop(k)
        return tm.delete('b', 'k%d' % ti, extra_args=more, subscribers=sp['subs'])

    def shutdown_manager(tm, **kw):
        # a transfer whose stored failure is an (injected) KeyboardInterrupt makes wait() treat it as the user's
        # Ctrl-C and re-raise it after the executors were shut down: that is shutdown()'s documented reaction
        try:
            tm.shutdown(**kw)
        except (InjectedInterrupt, InjectedBase) as e:
            env.log('shutdown-reraised-a-transfers-interrupt', what=repr(e))

    def collect(ti, fut):
        try:
            r = fut.result()
            run.outcomes[ti] = ('ok', r)
        except SchedAbort:
            raise
        except (InjectedInterrupt, InjectedBase) as e:
            run.outcomes[ti] = ('raise', e)
        except KeyboardInterrupt as e:
            run.outcomes[ti] = ('interrupt', e)
            raise
        except BaseException as e:   # noqa
            run.outcomes[ti] = ('raise', e)
        env.log('result-returned', ti=ti, outcome=run.outcomes[ti][0], listing=sorted(os.listdir(env.tmpdir)))

    def main():
        tcfg = TransferConfig(**cfg)
        # per-upload body protocol: botocore re-sends / signs
        proto = {'sign_reads': any(t.get('sign_reads') for t in sc['transfers']),
                 'rewinds': max([t.get('rewinds', 0) for t in sc['transfers']] + [0]), 'read_size': 3}
        fake.body_protocol = proto
        if sc.get('serial'):
            from s3transfer.futures import NonThreadedExecutor
            tm = TransferManager(fake, tcfg, osutil=osutil, executor_cls=NonThreadedExecutor)
        else:
            tm = TransferManager(fake, tcfg, osutil=osutil, executor_cls=sh.Executor)
        run.tm = tm
        env.tm = tm
        for ti_ in range(len(specs)):
            fake.objects[('b', 'chained-%s' % 'abcdefghij'[ti_ % 10])] = b'x'
            fake.faults.exempt_keys.add('chained-%s' % 'abcdefghij'[ti_ % 10])
        futs = {}
        canceller = None
        try:
            if cancel and cancel['kind'] == 'exit-exc':
                try:
                    with tm:
                        for ti in range(len(specs)):
                            futs[ti] = submit(tm, ti)
                            run.futures[ti] = futs[ti]
                        n0 = sch.steps
                        sch.block_until(lambda: sch.steps >= n0 + cancel['after_steps'] or
                                        all(f.done() for f in futs.values()), 'exit-delay')
                        env.log('exit-with-exception', exc=cancel['exc'])
                        if cancel['exc'] == 'interrupt':
                            raise KeyboardInterrupt()
                        if cancel['exc'] == 'empty-msg':
                            raise UserExc.__new__(UserExc)
                        raise UserExc('with-block')
                except (UserExc, KeyboardInterrupt, InjectedBase):
                    pass
                env.shutdown_returned_at = env.log('shutdown-returned')
                for ti, f in futs.items():
                    collect(ti, f)
                return
            if cancel and cancel['kind'] == 'interrupt-exit':
                try:
                    if cancel['how'] == 'with':
                        with tm:
                            for ti in range(len(specs)):
                                futs[ti] = submit(tm, ti)
                                run.futures[ti] = futs[ti]
                            sh.interrupt_plan[('main', sh.wait_counts.get('main', 0) + cancel['nth_wait'])] = KeyboardInterrupt()
                            env.log('exit-normally-then-interrupt')
                    else:
                        for ti in range(len(specs)):
                            futs[ti] = submit(tm, ti)
                            run.futures[ti] = futs[ti]
                        sh.interrupt_plan[('main', sh.wait_counts.get('main', 0) + cancel['nth_wait'])] = KeyboardInterrupt()
                        env.log('shutdown-call', cancel=False)
                        tm.shutdown()
                except (KeyboardInterrupt, InjectedBase):
                    env.log('interrupt-propagated')
                sh.interrupt_plan.clear()
                env.shutdown_returned_at = env.log('shutdown-returned')
                for ti, f in futs.items():
                    collect(ti, f)
                return
            for ti in range(len(specs)):
                futs[ti] = submit(tm, ti)
                run.futures[ti] = futs[ti]
            if cancel and cancel['kind'] == 'future':
                def do_cancel():
                    n0 = sch.steps
                    sch.block_until(lambda: sch.steps >= n0 + cancel['after_steps'] or
                                    futs[cancel['transfer']].done(), 'cancel-delay')
                    c = futs[cancel['transfer']]._coordinator
                    env.log('cancel-call', ti=cancel['transfer'], status=c.status)
                    futs[cancel['transfer']].cancel()
                    env.log('cancel-returned', ti=cancel['transfer'], status=c.status)
                canceller = sch.spawn(do_cancel, 'canceller')
            if cancel and cancel['kind'] == 'interrupt-result':
                sh.interrupt_plan[('main', sh.wait_counts.get('main', 0) + cancel['nth_wait'])] = KeyboardInterrupt()
            if cancel and cancel['kind'] == 'shutdown':
                n0 = sch.steps
                sch.block_until(lambda: sch.steps >= n0 + cancel['after_steps'] or
                                all(f.done() for f in futs.values()), 'shutdown-delay')
                env.log('shutdown-call', cancel=True, msg=cancel['msg'],
                        statuses=[f._coordinator.status for f in futs.values()])
                shutdown_manager(tm, cancel=True, cancel_msg=cancel['msg'])
                env.shutdown_returned_at = env.log('shutdown-returned')
                for ti, f in futs.items():
                    collect(ti, f)
                return
            if sc.get('early_shutdown') is not None and not cancel:
                n0 = sch.steps
                sch.block_until(lambda: sch.steps >= n0 + sc['early_shutdown'] or
                                all(f.done() for f in futs.values()), 'shutdown-delay')
                env.log('shutdown-call', cancel=False, statuses=[f._coordinator.status for f in futs.values()])
                shutdown_manager(tm)
                env.shutdown_returned_at = env.log('shutdown-returned')
                for ti, f in futs.items():
                    collect(ti, f)
                return
            try:
                for ti, f in futs.items():
                    collect(ti, f)
            except KeyboardInterrupt:
                env.log('interrupt-propagated')
                for ti, f in futs.items():
                    if ti not in run.outcomes or run.outcomes[ti][0] == 'interrupt':
                        collect(ti, f)
            if canceller is not None:
                sch.block_until(lambda: canceller.finished, 'join-canceller')
            if sc.get('fresh_after'):
                sh.interrupt_plan.clear()
                fake.objects[('b', 'fresh')] = b'fresh-object'
                # a non-seekable destination makes the fresh download need an in-memory window slot as well
                dst = DestStream(env, 99, not sc.get('fresh_nonseekable'), None)
                env.log('submit', ti=99, tkind='download')
                ff = tm.download('b', 'fresh', dst)
                try:
                    ff.result()
                    run.fresh = ('ok', bytes(dst.buf))
                except SchedAbort:
                    raise
                except BaseException as e:   # noqa
                    run.fresh = ('raise', e)
            if sc.get('mark_failed_after_done'):
                # the documented use of TransferFuture.set_exception: the caller flags a finished transfer as failed
                # because a step of its own, after the transfer, failed
                for ti, f in futs.items():
                    if f.done():
                        env.log('user-set-exception-after-done', ti=ti)
                        f.set_exception(UserExc('set-by-user-after-done-%d' % ti))
            sh.interrupt_plan.clear()     # a planned Ctrl-C that never found its wait must not land in this shutdown
            env.log('shutdown-call', cancel=False)
            shutdown_manager(tm)
            env.shutdown_returned_at = env.log('shutdown-returned')
        except SchedAbort:
            raise
        except BaseException as e:   # noqa
            import traceback
            run.main_error = (e, traceback.format_exc())

    run.fresh = None
    run.failure = sch.run(main, timeout=60)
    run.sems = None
    try:
        tm = run.tm
        rx = tm._request_executor
        run.sems = {
            'request': (rx._semaphore._semaphore.value, cfg['max_request_queue_size']),
            'submission': (tm._submission_executor._semaphore._semaphore.value, cfg['max_submission_queue_size']),
            'io': (tm._io_executor._semaphore._semaphore.value, cfg['max_io_queue_size']),
        }
        from s3transfer.futures import IN_MEMORY_DOWNLOAD_TAG, IN_MEMORY_UPLOAD_TAG
        run.sems['upload-chunks'] = (rx._tag_semaphores[IN_MEMORY_UPLOAD_TAG]._semaphore.value, cfg['max_in_memory_upload_chunks'])
        run.sems['download-chunks'] = (rx._tag_semaphores[IN_MEMORY_DOWNLOAD_TAG]._count, cfg['max_in_memory_download_chunks'])
        run.exec_stats = {e.name: (e.max_running, e.max_workers, e.max_queued, e.max_inflight) for e in sh.executors}
    except Exception:   # noqa
        pass
