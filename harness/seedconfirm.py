#!/venv/bin/python
"""Confirm a seeded change independently, then run the /verif check against it.

usage: seedconfirm.py <seeded/<id> dir> <property> <orig worktree path used in demo.py> [--skip-tests]
 1. scratch worktree of /repo HEAD at the path demo.py expects
 2. demo passes without the patch; patch applies; existing tests pass with it; demo fails with it
 3. worktree removed
 4. patch applied to /repo, ./check <property> --tier quick run, /repo restored
Prints a JSON summary (used to fill meta.json)."""
import json
import os
import subprocess
import sys


def sh(cmd, cwd=None, timeout=1800):
    p = subprocess.run(cmd, shell=True, cwd=cwd, stdout=subprocess.PIPE, stderr=subprocess.STDOUT, timeout=timeout)
    return p.returncode, p.stdout.decode(errors='replace')


def main():
    sdir = os.path.abspath(sys.argv[1])
    prop = sys.argv[2]
    wt = sys.argv[3]
    skip_tests = '--skip-tests' in sys.argv
    patch = os.path.join(sdir, 'patch.diff')
    out = {'seed': os.path.basename(sdir), 'property': prop}
    check_only = '--check-only' in sys.argv
    if check_only:
        meta_path = os.path.join(sdir, 'meta.json')
        if os.path.exists(meta_path):
            out.update(json.load(open(meta_path)).get('confirmed', {}))
    else:
        sh('git -C /repo worktree remove --force %s' % wt)
        rc, o = sh('git -C /repo worktree add -q --detach %s HEAD' % wt)
        assert rc == 0, o
    try:
        if check_only:
            raise StopIteration
        sh('cp %s/demo.py %s/demo.py' % (sdir, wt))
        rc, o = sh('/venv/bin/python demo.py', cwd=wt, timeout=120)
        out['demo_without_patch'] = {'exit': rc, 'tail': o[-300:]}
        rc, o = sh('git apply %s' % patch, cwd=wt)
        out['patch_applies'] = rc == 0
        if rc != 0:
            out['apply_error'] = o[-500:]
            print(json.dumps(out, indent=1))
            return 1
        if not skip_tests:
            rc, o = sh('/venv/bin/python -m pytest -q -p no:cacheprovider tests/unit tests/functional 2>&1 | tail -3', cwd=wt)
            out['tests_with_patch'] = o.strip().split('\n')[-1]
        rc, o = sh('/venv/bin/python demo.py', cwd=wt, timeout=120)
        out['demo_with_patch'] = {'exit': rc, 'tail': o[-300:]}
    except StopIteration:
        pass
    finally:
        if not check_only:
            sh('git -C /repo worktree remove --force %s' % wt)
    # now the check
    rc, o = sh('git -C /repo status --short')
    assert o.strip() == '', '/repo not clean: %s' % o
    rc, o = sh('git -C /repo apply %s' % patch)
    assert rc == 0, o
    try:
        rc, o = sh('S3V_EVIDENCE_DIR=/tmp/s3v-seed-evidence ./check %s --tier quick' % prop, cwd='/verif', timeout=3000)
        out['check'] = {'exit': rc, 'lines': [l[:300] for l in o.strip().split('\n') if l.startswith('VIOLATION') or ' OK:' in l or ' FAIL:' in l]}
    finally:
        sh('git -C /repo checkout -- .')
        sh('/venv/bin/python extract.py', cwd='/verif/harness')     # generated Lean files back to the clean tree's
    out['caught'] = out['check']['exit'] == 1
    print(json.dumps(out, indent=1))
    if '--write-meta' in sys.argv:
        notes = ''
        try:
            notes = open(os.path.join(sdir, 'NOTES.md')).read()
        except OSError:
            pass
        meta_path = os.path.join(sdir, 'meta.json')
        meta = {}
        if os.path.exists(meta_path):
            meta = json.load(open(meta_path))
        meta.update({
            'id': os.path.basename(sdir), 'property': prop,
            'source': 'independent sub-agent given only the property text and a scratch worktree of /repo',
            'what_it_needs_to_manifest': meta.get('needs_to_manifest') or 'see NOTES.md (written by the author of the change)',
            'notes_excerpt': notes[:1200],
            'confirmed': {k: out.get(k) for k in ('demo_without_patch', 'patch_applies', 'tests_with_patch', 'demo_with_patch')},
            'what_was_run': ['harness/seedconfirm.py %s %s %s' % (os.path.relpath(sdir, '/verif'), prop, wt),
                             'scratch worktree: demo.py without patch, git apply, pytest tests/unit tests/functional, demo.py with patch',
                             'then: git -C /repo apply patch.diff; ./check %s --tier quick; git -C /repo checkout -- .' % prop],
            'check_result': out['check'], 'caught': out['caught'],
        })
        json.dump(meta, open(meta_path, 'w'), indent=1)
    return 0


if __name__ == '__main__':
    sys.exit(main())
