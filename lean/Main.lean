import S3V.Driver
def main : IO Unit := do
  let stdin ← IO.getStdin
  let stdout ← IO.getStdout
  S3V.Driver.loop stdin stdout S3V.Driver.DState.init
