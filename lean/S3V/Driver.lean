/-
Line-protocol driver: one operation per input line, one canonical output line per input line.
It only parses and prints; every answer comes from the definitions in S3V/Model/*, which are
the definitions the theorems in S3V/Props/* are about.
-/
import S3V.Driver.Plan
import S3V.Driver.Sema
import S3V.Driver.Defer
import S3V.Driver.Coord
import S3V.Driver.Args
import S3V.Driver.Chunk
import S3V.Driver.Download
import S3V.Driver.Upload
import S3V.Driver.M2
import S3V.Driver.Bandwidth
import S3V.Driver.Crt
import S3V.Driver.ProcPool
import S3V.Driver.Serial

namespace S3V.Driver

structure DState where
  sema : SemaD := {}
  defer : S3V.Defer.DQ Nat := S3V.Defer.DQ.init
  coord : S3V.Coord.Coord := {}
  chunk : ChunkD := {}
  m2 : M2D := {}
  bw : S3V.Bandwidth.Bucket := { maxRate := 1 }
  crt : S3V.Crt.Crt := S3V.Crt.Crt.init 128
  pp : S3V.ProcPool.S := S3V.ProcPool.S.init 1

def DState.init : DState := {}

def step (st : DState) (line : String) : DState × String :=
  let toks := (line.splitOn " ").filter (· ≠ "")
  match toks with
  | ["reset"] => (DState.init, "ok")
  | "plan" :: rest => (st, planStep rest)
  | "serial" :: rest => (st, serialStep rest)
  | "pp" :: rest => let r := ppStep st.pp rest; ({ st with pp := r.1 }, r.2)
  | "crt" :: rest => let r := crtStep st.crt rest; ({ st with crt := r.1 }, r.2)
  | "bw" :: rest => let r := bwStep st.bw rest; ({ st with bw := r.1 }, r.2)
  | "exec" :: _ | "xfer" :: _ | "fs2" :: _ => let r := m2Step st.m2 toks; ({ st with m2 := r.1 }, r.2)
  | "up" :: rest => (st, upStep rest)
  | "dl" :: rest => (st, dlStep rest)
  | "chunk" :: _ | "agg" :: _ => let r := chunkStep st.chunk toks; ({ st with chunk := r.1 }, r.2)
  | "args" :: rest => (st, argsStep rest)
  | "coord" :: rest => let r := coordStep st.coord rest; ({ st with coord := r.1 }, r.2)
  | "defer" :: rest => let r := deferStep st.defer rest; ({ st with defer := r.1 }, r.2)
  | "sema" :: _ | "tsem" :: _ | "cci" :: _ | "bsema" :: _ =>
    let r := semaStep st.sema toks; ({ st with sema := r.1 }, r.2)
  | _ => (st, "bad-op")

partial def loop (h : IO.FS.Stream) (out : IO.FS.Stream) (st : DState) : IO Unit := do
  let line ← h.getLine
  if line.isEmpty then return ()
  let line := if line.endsWith "\n" then (line.dropEnd 1).toString else line
  let (st', o) := step st line
  out.putStrLn o
  loop h out st'

end S3V.Driver
