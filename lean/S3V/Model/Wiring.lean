/-
What the models assume about how `TransferManager.__init__` and the submission tasks wire things
up, stated over the facts the translator regenerates from the source (S3V.Gen.Wiring).
If the source is rewired, the corresponding `decide` in S3V.Props fails.
-/
import S3V.Gen.Wiring

namespace S3V.Gen

/-- stage capacities / thread counts come from the documented configuration values, the io
stage has exactly one thread, the two in-memory limits govern the tagged request tasks (the
download one with the sliding-window semaphore), and shutdown joins submission, request, io in
that order -/
def wiringOK : Bool :=
  reqMaxSize == "max_request_queue_size" && reqThreads == "max_request_concurrency" &&
  subMaxSize == "max_submission_queue_size" && subThreads == "max_submission_concurrency" &&
  ioMaxSize == "max_io_queue_size" && ioThreads == "1" &&
  reqTags == [("IN_MEMORY_UPLOAD_TAG", "TaskSemaphore", "max_in_memory_upload_chunks"),
              ("IN_MEMORY_DOWNLOAD_TAG", "SlidingWindowSemaphore", "max_in_memory_download_chunks")] &&
  subTags == [] && ioTags == [] &&
  shutdownOrder == ["_submission_executor", "_request_executor", "_io_executor"]

def lookupTask (ts : List (String × Bool × List String)) (name : String) : Option (Bool × List String) :=
  (ts.find? (fun t => t.1 == name)).map (·.2)

/-- the task plans the transfer model relies on: in a multipart upload / copy the complete task is
the only final task and waits for the create task and *all* part tasks; part tasks wait for the
create task; single-request transfers consist of one final task; every download ends in a final
io task -/
def plansOK : Bool :=
  lookupTask uploadTasks "CompleteMultipartUploadTask" == some (true, ["parts", "upload_id"]) &&
  lookupTask uploadTasks "UploadPartTask" == some (false, ["upload_id"]) &&
  lookupTask uploadTasks "CreateMultipartUploadTask" == some (false, []) &&
  lookupTask uploadTasks "PutObjectTask" == some (true, []) &&
  lookupTask copyTasks "CompleteMultipartUploadTask" == some (true, ["parts", "upload_id"]) &&
  lookupTask copyTasks "CopyPartTask" == some (false, ["upload_id"]) &&
  lookupTask copyTasks "CreateMultipartUploadTask" == some (false, []) &&
  lookupTask copyTasks "CopyObjectTask" == some (true, []) &&
  lookupTask deleteTasks "DeleteObjectTask" == some (true, []) &&
  downloadFinalTasks.all (fun t => t.2.2 || (t.2.1 == "CompleteDownloadNOOPTask" && noopTaskFinalDefault)) &&
  downloadFinalTasks.length == 4

end S3V.Gen
