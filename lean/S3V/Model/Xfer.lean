/-
M2 / Xfer — one upload / copy / delete transfer of the TransferManager as a transition system at
the level of the mechanisms in tasks.py / futures.py:

* `Task.__call__`: wait for the dependent futures, then test `coordinator.done()`, run `_main`
  only if it was not done (`decide`), an exception from `_main` is recorded with
  `set_exception` (which does not override a done state) before the task ends, the final task
  records its result with `set_result` and announces done in `finally`;
* `SubmissionTask._main`: queued → on_queued → running → submit the tasks (the final task last);
  on any exception: record it, wait until every submitted task has ended, announce done;
* `TransferCoordinator.cancel`: records the cancellation if not done, and announces done itself
  only when the transfer had not started;
* `announce_done`: under the cleanup lock run the failure cleanups (the abort of the multipart
  upload) unless the status is success, set the done event, under the callback lock run the done
  callbacks; both lists are emptied under their lock.

Every label is one observable event of one thread; `step` returns `none` when the event is not
enabled in the current state.  All environment choices (who runs, whether a request fails, when
the user cancels) are in the label, so `step` is deterministic.
Announcer ids: 0 = the cancelling user thread, 1 = the submission task, j+2 = task j.
-/
import S3V.Model.Coord

namespace S3V.Xfer
open S3V.Coord (Status)

inductive Phase | idle | run | req | ended
  deriving Repr, DecidableEq

inductive Decision | undecided | runMain | skipMain
  deriving Repr, DecidableEq

inductive ReqRes | none | ok | failed
  deriving Repr, DecidableEq

/-- where an announcer is inside `announce_done` -/
inductive Pc | cleanupLock | aborting | cleaned | eventSet | cbLock | finished
  deriving Repr, DecidableEq

structure X where
  status    : Status := .notStarted
  known     : Nat → Bool := fun _ => false       -- task has been submitted
  final     : Nat → Bool := fun _ => false
  deps      : Nat → List Nat := fun _ => []
  ph        : Nat → Phase := fun _ => .idle
  decided   : Nat → Decision := fun _ => .undecided
  res       : Nat → ReqRes := fun _ => .none
  requested : Nat → Bool := fun _ => false
  recorded  : Nat → Bool := fun _ => false        -- task recorded its failure (set_exception)
  announced : Nat → Bool := fun _ => false        -- announcer id has entered announce_done
  pc        : Nat → Pc := fun _ => .finished      -- meaningful for announcers that entered
  sub       : Phase := .idle                      -- the submission task
  subRunning : Bool := false                      -- status reached `running`: tasks may be submitted
  subFailed  : Bool := false                      -- submission is in its `except` path
  finalSubmitted : Bool := false
  abortRegistered : Bool := false                 -- create returned: abort is in the cleanup list
  cleanupsPending : Bool := false
  cleanupHolder : Option Nat := none
  cbHolder      : Option Nat := none
  cbsPending    : Bool := true                    -- the done callbacks (on_done, untrack)
  event     : Bool := false
  -- history
  abortBegun : Bool := false
  abortCount : Nat := 0
  abortOpen  : Bool := false
  doneCbRuns : Nat := 0
  queuedRuns : Nat := 0
  cancelSeen : Bool := false                      -- a cancel took effect (the transfer was not done)

def X.done (x : X) : Bool := x.status.isDone

inductive Label
  | subStart                      -- a submission worker picks the submission task
  | subDecide (runMain : Bool)    -- `if not done(): _main`
  | toQueued | onQueued | toRunning
  | submit (j : Nat) (final : Bool) (deps : List Nat)
  | subFail                       -- exception in the submission task: set_exception
  | subEnd
  | taskStart (j : Nat)
  | decide (j : Nat) (runMain : Bool)
  | reqBegin (j : Nat)
  | reqEnd (j : Nat) (ok : Bool)
  | registerAbort (j : Nat)       -- CreateMultipartUploadTask adds the failure cleanup
  | mainFail (j : Nat)            -- `_main` raised although the request succeeded (callback, body close)
  | record (j : Nat)              -- `_log_and_set_exception`
  | setResult (j : Nat)
  | taskEnd (j : Nat)
  | cancel                        -- user: future.cancel() / shutdown(cancel=True) / …
  | annBegin (who : Nat)
  | abortBegin (who : Nat) | abortEnd (who : Nat)
  | cleaned (who : Nat)           -- leaves `_run_failure_cleanups`
  | eventSet (who : Nat)
  | cbLock (who : Nat) | cbDone (who : Nat) | annEnd (who : Nat)
  deriving Repr, DecidableEq

def upd {β : Type} (f : Nat → β) (k : Nat) (v : β) : Nat → β := fun i => if i = k then v else f i

def depsEnded (x : X) (j : Nat) : Bool := (x.deps j).all fun d => x.ph d == .ended

/-- every known task other than `j` has ended -/
def othersEnded (x : X) (bound : Nat) : Bool := (List.range bound).all fun k => !x.known k || x.ph k == .ended

structure Cfg where
  bound : Nat        -- task ids are `< bound` (the driver passes the number of tasks of the plan)

def step (cfg : Cfg) (x : X) : Label → Option X
  | .subStart => if x.sub = .idle then some { x with sub := .run } else none
  | .subDecide r =>
    if x.sub = .run ∧ ¬ x.subRunning ∧ ¬ x.subFailed ∧ r = !x.done then
      (if r then some x else some { x with sub := .ended }) else none
  | .toQueued =>
    if x.sub = .run ∧ ¬ x.subFailed ∧ (x.status = .notStarted ∨ x.done) then
      (if x.done then some { x with subFailed := true } else some { x with status := .queued })
    else none
  | .onQueued => if x.sub = .run ∧ x.status = .queued ∧ ¬ x.subFailed then some { x with queuedRuns := x.queuedRuns + 1 } else none
  | .toRunning =>
    if x.sub = .run ∧ ¬ x.subFailed ∧ ¬ x.subRunning then
      (if x.done then some { x with subFailed := true } else some { x with status := .running, subRunning := true })
    else none
  | .submit j f d =>
    if x.sub = .run ∧ x.subRunning ∧ ¬ x.subFailed ∧ ¬ x.finalSubmitted ∧ ¬ x.known j ∧ j < cfg.bound ∧
        d.all (fun k => x.known k) ∧
        (f → (List.range cfg.bound).all fun k => !x.known k || d.contains k) then
      some { x with known := upd x.known j true, final := upd x.final j f, deps := upd x.deps j d,
                    finalSubmitted := f }
    else none
  | .subFail =>
    if x.sub = .run ∧ ¬ x.subFailed then
      some { x with subFailed := true, status := if x.done then x.status else .failed }
    else if x.sub = .run ∧ x.subFailed then some { x with status := if x.done then x.status else .failed }
    else none
  | .subEnd =>
    if x.sub = .run ∧ (x.subFailed → x.announced 1 ∧ x.pc 1 = .finished) then some { x with sub := .ended } else none
  | .taskStart j => if x.known j ∧ x.ph j = .idle then some { x with ph := upd x.ph j .run } else none
  | .decide j r =>
    if x.ph j = .run ∧ x.decided j = .undecided ∧ depsEnded x j ∧ r = !x.done then
      some { x with decided := upd x.decided j (if r then .runMain else .skipMain) }
    else none
  | .reqBegin j =>
    if x.ph j = .run ∧ x.decided j = .runMain ∧ ¬ x.requested j ∧ ¬ x.announced (j + 2) then
      some { x with ph := upd x.ph j .req, requested := upd x.requested j true }
    else none
  | .reqEnd j ok =>
    if x.ph j = .req then some { x with ph := upd x.ph j .run, res := upd x.res j (if ok then .ok else .failed) }
    else none
  | .registerAbort j =>
    if x.ph j = .run ∧ x.res j = .ok ∧ ¬ x.final j ∧ ¬ x.abortRegistered then
      some { x with abortRegistered := true, cleanupsPending := true }
    else none
  | .mainFail j =>
    if x.ph j = .run ∧ x.res j = .ok ∧ ¬ x.recorded j ∧ ¬ x.announced (j + 2) ∧ (x.final j → x.status ≠ .success) then
      some { x with res := upd x.res j .failed }
    else none
  | .record j =>
    if x.ph j = .run ∧ x.res j = .failed ∧ ¬ x.recorded j then
      some { x with recorded := upd x.recorded j true, status := if x.done then x.status else .failed }
    else none
  | .setResult j =>
    if x.ph j = .run ∧ x.final j ∧ x.res j = .ok ∧ ¬ x.announced (j + 2) then some { x with status := .success } else none
  | .taskEnd j =>
    if x.ph j = .run ∧ x.decided j ≠ .undecided ∧ (x.res j = .failed → x.recorded j) ∧
        (x.decided j = .runMain → x.requested j) ∧
        (x.final j → x.announced (j + 2) ∧ x.pc (j + 2) = .finished) then
      some { x with ph := upd x.ph j .ended }
    else none
  | .cancel =>
    if x.done then some x
    else if x.status = .notStarted then
      some { x with status := .cancelled, announced := upd x.announced 0 true, pc := upd x.pc 0 .cleanupLock,
                    cancelSeen := true }
    else some { x with status := .cancelled, cancelSeen := true }
  | .annBegin who =>
    if x.announced who then none
    else if who = 1 then
      (if x.sub = .run ∧ x.subFailed ∧ x.done ∧ othersEnded x cfg.bound then
        some { x with announced := upd x.announced 1 true, pc := upd x.pc 1 .cleanupLock } else none)
    else if who ≥ 2 then
      (if x.ph (who - 2) = .run ∧ x.final (who - 2) ∧ x.decided (who - 2) ≠ .undecided ∧ x.done ∧
          (x.res (who - 2) = .failed → x.recorded (who - 2)) ∧
          (x.decided (who - 2) = .runMain → x.requested (who - 2)) then
        some { x with announced := upd x.announced who true, pc := upd x.pc who .cleanupLock } else none)
    else none
  | .abortBegin who =>
    if x.announced who ∧ x.pc who = .cleanupLock ∧ x.cleanupHolder = none ∧ x.status ≠ .success ∧ x.cleanupsPending then
      some { x with pc := upd x.pc who .aborting, cleanupHolder := some who, abortBegun := true, abortOpen := true,
                    abortCount := x.abortCount + 1 }
    else none
  | .abortEnd who =>
    if x.pc who = .aborting ∧ x.cleanupHolder = some who then
      some { x with pc := upd x.pc who .cleaned, cleanupHolder := none, cleanupsPending := false, abortOpen := false }
    else none
  | .cleaned who =>
    if x.announced who ∧ x.pc who = .cleanupLock ∧ x.cleanupHolder = none ∧ (x.status = .success ∨ ¬ x.cleanupsPending) then
      some { x with pc := upd x.pc who .cleaned }
    else none
  | .eventSet who => if x.announced who ∧ x.pc who = .cleaned then some { x with pc := upd x.pc who .eventSet, event := true } else none
  | .cbLock who =>
    if x.announced who ∧ x.pc who = .eventSet ∧ x.cbHolder = none then some { x with pc := upd x.pc who .cbLock, cbHolder := some who } else none
  | .cbDone who =>
    if x.pc who = .cbLock ∧ x.cbHolder = some who ∧ x.cbsPending then
      some { x with cbsPending := false, doneCbRuns := x.doneCbRuns + 1 } else none
  | .annEnd who =>
    if x.pc who = .cbLock ∧ x.cbHolder = some who ∧ ¬ x.cbsPending then
      some { x with pc := upd x.pc who .finished, cbHolder := none } else none

def run (cfg : Cfg) (x : X) : List Label → Option X
  | [] => some x
  | l :: ls => match step cfg x l with
    | none => none
    | some x' => run cfg x' ls

end S3V.Xfer
