/-
Three bounded stages in a row (submission → request → io): a running task of stage k may block while
submitting to stage k+1 (no permit free there); the io stage submits nowhere.  No same-stage
dependencies here (those are `stage_no_stuck`'s subject).
-/
namespace S3V.Pipeline

structure Stage where
  cap     : Nat
  workers : Nat
  queued  : Nat := 0
  running : Nat := 0      -- tasks executing
  blocked : Nat := 0      -- tasks of this stage waiting for a permit of the next stage
  deriving Repr, DecidableEq

def Stage.inflight (s : Stage) : Nat := s.queued + s.running + s.blocked

structure P where
  s : Nat → Stage          -- stages 0, 1, 2
  n : Nat := 3

inductive Label
  | pick (k : Nat) | finish (k : Nat) | trySubmit (k : Nat) | unblock (k : Nat)
  deriving Repr, DecidableEq

def upd (f : Nat → Stage) (k : Nat) (v : Stage) : Nat → Stage := fun i => if i = k then v else f i

def step (p : P) : Label → Option P
  | .pick k =>
    if k < p.n ∧ 0 < (p.s k).queued ∧ (p.s k).running + (p.s k).blocked < (p.s k).workers then
      some { p with s := upd p.s k { p.s k with queued := (p.s k).queued - 1, running := (p.s k).running + 1 } }
    else none
  | .finish k =>
    if k < p.n ∧ 0 < (p.s k).running then
      some { p with s := upd p.s k { p.s k with running := (p.s k).running - 1 } }
    else none
  | .trySubmit k =>
    if k + 1 < p.n ∧ 0 < (p.s k).running then
      (if (p.s (k + 1)).inflight < (p.s (k + 1)).cap then
        some { p with s := upd p.s (k + 1) { p.s (k + 1) with queued := (p.s (k + 1)).queued + 1 } }
       else
        some { p with s := upd p.s k { p.s k with running := (p.s k).running - 1, blocked := (p.s k).blocked + 1 } })
    else none
  | .unblock k =>
    if k + 1 < p.n ∧ 0 < (p.s k).blocked ∧ (p.s (k + 1)).inflight < (p.s (k + 1)).cap then
      some { p with s := upd (upd p.s k { p.s k with blocked := (p.s k).blocked - 1, running := (p.s k).running + 1 })
                         (k + 1) { p.s (k + 1) with queued := (p.s (k + 1)).queued + 1 } }
    else none

end S3V.Pipeline
