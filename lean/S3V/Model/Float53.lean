/-
M1 / Float53 — the one floating-point computation the planning code performs:

    int(math.ceil(size / float(part_size)))        utils.calculate_num_parts, upload.py, copies.py,
                                                   utils.ChunksizeAdjuster, __init__.py (legacy)

`size / float(part_size)` converts both integers to binary64 (exact below 2^53) and divides with
round-to-nearest, ties-to-even.  `fdiv a b` is that quotient as an exact rational: significand
`rne N D` of 53 bits and exponent `expo a b`.  Overflow, subnormals, infinities and NaN are outside
the domain (operands are positive integers below 2^53: quotients lie in [2^-53, 2^53)).
`fceil` is `math.ceil` of it.  Core Lean only; compared with CPython's floats, bit for bit
(`float.as_integer_ratio`), by `comp_plan.corr`.
-/
namespace S3V.Float53

/-- `N / D` rounded to the nearest integer, ties to even (`0 < D`). -/
def rne (N D : Nat) : Nat :=
  if 2 * (N % D) < D then N / D
  else if D < 2 * (N % D) then N / D + 1
  else if (N / D) % 2 = 0 then N / D else N / D + 1

/-- numerator of `a / b / 2^e` -/
def scaleN (a : Nat) (e : Int) : Nat := if 0 ≤ e then a else a * 2 ^ (-e).toNat
/-- denominator of `a / b / 2^e` -/
def scaleD (b : Nat) (e : Int) : Nat := if 0 ≤ e then b * 2 ^ e.toNat else b

/-- first guess of the exponent: `a / b / 2^e0` lies in `(2^52, 2^54)` -/
def expo0 (a b : Nat) : Int := (a.log2 : Int) - (b.log2 : Int) - 53

/-- the exponent of the unit in the last place: `2^52 ≤ a / b / 2^e < 2^53` -/
def expo (a b : Nat) : Int :=
  if scaleN a (expo0 a b) < 2 ^ 53 * scaleD b (expo0 a b) then expo0 a b else expo0 a b + 1

/-- the 53-bit significand (may round up to `2^53`, which is the next binade's `2^52`: same value) -/
def sig (a b : Nat) : Nat := rne (scaleN a (expo a b)) (scaleD b (expo a b))

/-- `m · 2^e` as a rational -/
def ldexp (m : Nat) (e : Int) : Rat :=
  if 0 ≤ e then (m * 2 ^ e.toNat : Nat) else (m : Rat) / (2 ^ (-e).toNat : Nat)

/-- `a / float(b)` for `0 < b` (and `a, b < 2^53`, so that the conversions are exact). -/
def fdiv (a b : Nat) : Rat := if a = 0 then 0 else ldexp (sig a b) (expo a b)

/-- `int(math.ceil(a / float(b)))` -/
def fceil (a b : Nat) : Int := (fdiv a b).ceil

end S3V.Float53
