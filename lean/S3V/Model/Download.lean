/-
M1 / Download — the retry loop of `download.GetObjectTask._main` (also
`ImmediatelyWriteIOGetObjectTask`), with `DownloadChunkIterator` and `StreamReaderProgress`.

One request downloads the range `[start, start+len)` of the object.  An *attempt* is what the
network did to one GET: a script of read sizes (a read of the streaming body may return fewer
bytes than asked, never zero before the end) and how the stream ended.
Events are emitted in program order: request, progress (inside `read`), write (`_handle_io`),
and the negative progress on a retry.
-/
namespace S3V.Download

inductive Ending
  | eof          -- body delivered completely
  | retryable    -- one of S3_RETRYABLE_DOWNLOAD_ERRORS raised by a read
  | fatal        -- any other exception
  deriving Repr, DecidableEq

structure Attempt where
  script : List Nat     -- positive upper bounds on the bytes each read returns
  ending : Ending
  deriving Repr, DecidableEq

inductive Event
  | request
  | progress (v : Int)
  | write (off len : Nat)
  deriving Repr, DecidableEq

inductive Outcome
  | ok
  | retriesExceeded
  | fatal
  deriving Repr, DecidableEq

/-- Chunk lengths produced by `DownloadChunkIterator` reading `body.read(io)` against a script,
with `rem` bytes left in the body: each scripted read returns `min(s, io, rem)` bytes. -/
def scriptedChunks (io : Nat) : Nat → List Nat → List Nat × Nat
  | rem, [] => ([], rem)
  | rem, s :: ss =>
    if min (min s io) rem = 0 then ([], rem)
    else ((min (min s io) rem) :: (scriptedChunks io (rem - min (min s io) rem) ss).1,
          (scriptedChunks io (rem - min (min s io) rem) ss).2)

/-- reads of `io` bytes until the body is exhausted (`fuel` bounds the loop; `rem` suffices) -/
def fullChunks (io : Nat) : Nat → Nat → List Nat
  | 0, _ => []
  | fuel + 1, rem =>
    if rem = 0 ∨ io = 0 then [] else min io rem :: fullChunks io fuel (rem - min io rem)

/-- the chunk lengths one attempt hands to `_handle_io`, in order -/
def attemptChunks (io len : Nat) (a : Attempt) : List Nat :=
  match a.ending with
  | .eof => (scriptedChunks io len a.script).1 ++ fullChunks io (scriptedChunks io len a.script).2 (scriptedChunks io len a.script).2
  | _ => (scriptedChunks io len a.script).1

/-- events of the chunks of one attempt, starting at offset `cur` -/
def chunkEvents : Nat → List Nat → List Event
  | _, [] => []
  | cur, c :: cs => .progress c :: .write cur c :: chunkEvents (cur + c) cs

/-- The empty body: `DownloadChunkIterator` yields the single empty chunk of the first read
(so an empty object is still written once); no progress is reported for zero bytes. -/
def attemptEvents (io start len : Nat) (a : Attempt) : List Event :=
  if len = 0 then (if a.script ≠ [] ∨ a.ending = .eof then [.write start 0] else [])
  else chunkEvents start (attemptChunks io len a)

/-- `GetObjectTask._main`: up to `maxAttempts` requests. -/
def getObject (io start len : Nat) : Nat → List Attempt → List Event × Outcome
  | 0, _ => ([], .retriesExceeded)
  | _ + 1, [] => ([], .retriesExceeded)        -- script exhausted (driver never does this)
  | n + 1, a :: rest =>
    match a.ending with
    | .eof => (.request :: attemptEvents io start len a, .ok)
    | .fatal => (.request :: attemptEvents io start len a, .fatal)
    | .retryable =>
      (.request :: attemptEvents io start len a ++
        (if (attemptChunks io len a).sum = 0 then [] else [.progress (-((attemptChunks io len a).sum : Int))]) ++
        (getObject io start len n rest).1,
       (getObject io start len n rest).2)

def progressOf : List Event → List Int
  | [] => []
  | .progress v :: es => v :: progressOf es
  | _ :: es => progressOf es

def writesOf : List Event → List (Nat × Nat)
  | [] => []
  | .write o l :: es => (o, l) :: writesOf es
  | _ :: es => writesOf es

def requestsOf : List Event → Nat
  | [] => 0
  | .request :: es => requestsOf es + 1
  | _ :: es => requestsOf es

end S3V.Download
