/-
M1 / Plan — part planning arithmetic of s3transfer.

Mirrors (all in /repo/s3transfer):
  utils.calculate_num_parts, utils.calculate_range_parameter,
  utils.ChunksizeAdjuster.{adjust_chunksize,_adjust_for_max_parts,_adjust_for_chunksize_limits},
  upload.UploadFilenameInputManager.yield_upload_part_bodies (start_byte / size per part),
  copies.CopySubmissionTask._get_transfer_size, download ranged submission (start_index),
  the `size >= multipart_threshold` tests of every front end.

`ceilDiv a b` is the exact ceiling; the code computes `int(math.ceil(a / float(b)))`.
That the two agree below 2^52 is the float obligation discussed in DESIGN.md §8/C14 and is
exercised by the correspondence at real scale; with b = 0 the code raises ZeroDivisionError,
which the driver reports as `zero-div` without consulting these definitions.
-/
import S3V.Gen.Consts

namespace S3V.Plan

def ceilDiv (a b : Nat) : Nat := (a + b - 1) / b

/-- `calculate_range_parameter`: start, and inclusive end (`none` = open ended `bytes=s-`).
The end is an `Int` because `total_size - 1` is `-1` for an empty object. -/
structure Range where
  start : Nat
  stop  : Option Int
  deriving Repr, DecidableEq

def rangeParam (partSize idx numParts : Nat) (total : Option Nat) : Range :=
  if idx + 1 = numParts then
    { start := idx * partSize, stop := total.map (fun t => (t : Int) - 1) }
  else
    { start := idx * partSize, stop := some ((idx * partSize + partSize : Nat) - 1 : Int) }

/-- `_adjust_for_chunksize_limits` -/
def adjustLimits (minSize maxSize c : Nat) : Nat :=
  if c > maxSize then maxSize else if c < minSize then minSize else c

/-- `_adjust_for_max_parts`: double while the part count exceeds `maxParts`.
The guard `0 < c ∧ 0 < maxParts` is what makes the loop of the real code terminate
(`TransferConfig` rejects a chunk size of 0; `MAX_PARTS` is a positive constant). -/
def adjustMaxParts (maxParts c size : Nat) : Nat :=
  if h : 0 < c ∧ 0 < maxParts ∧ maxParts < ceilDiv size c then
    adjustMaxParts maxParts (2 * c) size
  else c
termination_by size - c
decreasing_by
  obtain ⟨hc, hm, hlt⟩ := h
  have h2 : 2 ≤ ceilDiv size c := by omega
  unfold ceilDiv at h2
  have : 2 * c ≤ size + c - 1 := by
    have := (Nat.le_div_iff_mul_le hc).mp h2
    omega
  omega

/-- `ChunksizeAdjuster.adjust_chunksize` with explicit limits. -/
def adjustWith (minSize maxSize maxParts c : Nat) (size : Option Nat) : Nat :=
  match size with
  | some s => adjustLimits minSize maxSize (adjustMaxParts maxParts c s)
  | none   => adjustLimits minSize maxSize c

/-- `ChunksizeAdjuster().adjust_chunksize` with the defaults read from the source. -/
def adjust (c : Nat) (size : Option Nat) : Nat :=
  adjustWith Gen.adjusterMinSize Gen.adjusterMaxSize Gen.adjusterMaxParts c size

/-- `size >= multipart_threshold` (uploads with known size, copies, downloads, legacy, process pool). -/
def isMultipart (size threshold : Nat) : Bool := decide (threshold ≤ size)

/-- A part of an upload: 1-based part number, start offset in the source, length. -/
structure Part where
  number : Nat
  start  : Nat
  len    : Nat
  deriving Repr, DecidableEq

/-- Parts yielded by `UploadFilenameInputManager.yield_upload_part_bodies` for a source of
`size` bytes with (already adjusted) chunk size `c`: part `i+1` starts at `c*i` and its
`ReadFileChunk` has size `min(size - start, c)`. -/
def uploadParts (size c : Nat) : List Part :=
  (List.range (ceilDiv size c)).map fun i =>
    { number := i + 1, start := c * i, len := min (size - c * i) c }

/-- `CopySubmissionTask._get_transfer_size` -/
def copyPartSize (partSize idx numParts total : Nat) : Int :=
  if idx + 1 = numParts then (total : Int) - (idx * partSize : Nat) else partSize

/-- Ranged download plan: `(Range, start_index)` per part. -/
def downloadParts (size c : Nat) : List (Range × Nat) :=
  (List.range (ceilDiv size c)).map fun i => (rangeParam c i (ceilDiv size c) none, i * c)

/-- Multipart copy plan: `(part number, CopySourceRange, progress size)`. -/
def copyParts (size c : Nat) : List (Nat × Range × Int) :=
  (List.range (ceilDiv size c)).map fun i =>
    (i + 1, rangeParam c i (ceilDiv size c) (some size), copyPartSize c i (ceilDiv size c) size)

end S3V.Plan
