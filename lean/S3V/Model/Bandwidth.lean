/-
M1 / Bandwidth — `bandwidth.LeakyBucket` with `ConsumptionScheduler` and `BandwidthRateTracker`,
and the retry loop of `BandwidthLimitedStream._consume_through_leaky_bucket`.

Time and rates are exact rationals (the code uses floats; the correspondence drives the real
classes with an injected exact clock and dyadic values so that every float operation is exact,
and separately with the default float clock on non-tie cases).  A rate is a rational or `∞`
(`_calculate_rate` returns `float('inf')` when the time delta is not positive).
-/
import S3V.Gen.Consts

namespace S3V.Bandwidth

inductive Rate
  | fin (r : Rat)
  | inf
  deriving Repr, DecidableEq

def alpha : Rat := (Gen.alphaNum : Rat) / (Gen.alphaDen : Rat)

structure Sched where
  token : Nat
  waitDuration : Rat
  timeToConsume : Rat
  deriving Repr, DecidableEq

structure Bucket where
  maxRate   : Rat
  last      : Option Rat := none        -- `_last_time`
  rate      : Rate := .fin 0            -- `_current_rate` (meaningful once `last` is set)
  sched     : List Sched := []          -- `_tokens_to_scheduled_consumption`
  totalWait : Rat := 0
  deriving Repr, DecidableEq

inductive Out
  | granted
  | refused (retry : Rat)
  deriving Repr, DecidableEq

/-- `_calculate_rate` -/
def newRate (b : Bucket) (amt : Nat) (now : Rat) : Rate :=
  match b.last with
  | none => .fin 0
  | some t0 => if now - t0 ≤ 0 then .inf else .fin ((amt : Rat) / (now - t0))

/-- `_calculate_exponential_moving_average_rate` (only called once `last` is set) -/
def ema (b : Bucket) (amt : Nat) (now : Rat) : Rate :=
  match newRate b amt now, b.rate with
  | .fin n, .fin c => .fin (alpha * n + (1 - alpha) * c)
  | _, _ => .inf

/-- `get_projected_rate` -/
def projected (b : Bucket) (amt : Nat) (now : Rat) : Rate :=
  match b.last with
  | none => .fin 0
  | some _ => ema b amt now

def exceeds (r : Rate) (m : Rat) : Bool :=
  match r with
  | .inf => true
  | .fin x => decide (m < x)

def isScheduled (b : Bucket) (tok : Nat) : Bool := b.sched.any (·.token == tok)

/-- `record_consumption_rate` (after the D5 fix: a consumption at the same clock reading as the
previous one leaves the tracked rate and time alone instead of storing an infinite rate) -/
def record (b : Bucket) (amt : Nat) (now : Rat) : Bucket :=
  match b.last with
  | none => { b with last := some now, rate := .fin 0 }
  | some t0 => if now - t0 ≤ 0 then b else { b with rate := ema b amt now, last := some now }

def ttcOf (b : Bucket) (tok : Nat) : Rat :=
  match b.sched.find? (·.token == tok) with
  | some s => s.timeToConsume
  | none => 0

/-- `process_scheduled_consumption` -/
def unschedule (b : Bucket) (tok : Nat) : Bucket :=
  { b with sched := b.sched.filter (fun s => s.token != tok),
           totalWait := max (b.totalWait - ttcOf b tok) 0 }

/-- `LeakyBucket.consume(amt, token)` at clock reading `now` -/
def consume (b : Bucket) (amt : Nat) (tok : Nat) (now : Rat) : Bucket × Out :=
  if isScheduled b tok then (record (unschedule b tok) amt now, .granted)
  else if exceeds (projected b amt now) b.maxRate then
    ({ b with totalWait := b.totalWait + (amt : Rat) / b.maxRate,
              sched := b.sched ++ [{ token := tok, waitDuration := b.totalWait + (amt : Rat) / b.maxRate,
                                     timeToConsume := (amt : Rat) / b.maxRate }] },
     .refused (b.totalWait + (amt : Rat) / b.maxRate))
  else (record b amt now, .granted)

/-- `LeakyBucket.abandon(token)` (fix D4): a stream whose transfer failed while it was waiting
takes its scheduled wait out of the queue -/
def abandon (b : Bucket) (tok : Nat) : Bucket :=
  if isScheduled b tok then unschedule b tok else b

/-! ### `BandwidthLimitedStream._consume_through_leaky_bucket`

`while not coordinator.exception: try consume → return; except Exceeded: sleep(retry)`
`else: raise coordinator.exception`.  One iteration per list element: the clock reading of the
attempt and whether the transfer's exception is set when the loop condition is tested. -/
inductive StreamEv
  | consumed
  | slept (d : Rat)
  | raisedTransferError
  deriving Repr, DecidableEq

def streamLoop (b : Bucket) (amt tok : Nat) : List (Rat × Bool) → Bucket × List StreamEv
  | [] => (b, [])
  | (now, excSet) :: rest =>
    if excSet then (abandon b tok, [.raisedTransferError])
    else
      match (consume b amt tok now).2 with
      | .granted => ((consume b amt tok now).1, [.consumed])
      | .refused d =>
        ((streamLoop (consume b amt tok now).1 amt tok rest).1,
         .slept d :: (streamLoop (consume b amt tok now).1 amt tok rest).2)

end S3V.Bandwidth
