/-
M2 / Fs — the file-system side of a download to a path (transfer manager:
`DownloadFilenameOutputManager`, `IOWriteTask`, `IORenameFileTask`, the failure cleanups
`f.close` / `osutil.remove_file(temp)`; the same shape covers the legacy
`S3Transfer.download_file` (download to temp; `except: remove` / `else: rename`) and the
process pool (`allocate` temp; last job: `rename` or `remove`).

Mechanisms encoded in the guards:
* the destination name is never opened for writing — only `rename(temp, final)` touches it;
* writes go to the temp file, each write task runs its main only while the transfer is not done;
* the rename is the final io task: it runs only if the transfer is not done, after every GET task
  has finished submitting (`allSubmitted`) and — same single-threaded FIFO stage — after every
  queued write has been executed (`pending = 0`);
* a failed write / request / rename records the failure; the announcement then runs the
  cleanups (close, remove) after every other task of the transfer has ended.
`complete` says what C02 proves: when every range was fetched to its end and every write was
executed, the temp file holds exactly the object.
-/
namespace S3V.Fs

inductive Content | absentOrPrevious | complete | partial_
  deriving Repr, DecidableEq

inductive Temp | absent | openFile | closed
  deriving Repr, DecidableEq

structure Fs where
  final        : Content := .absentOrPrevious
  temp         : Temp := .absent
  pending      : Nat := 0          -- write tasks queued, not yet executed
  allSubmitted : Bool := false     -- every GET task finished (no more writes will be queued)
  missing      : Bool := false     -- some queued write was skipped or failed: temp is not the object
  failed       : Bool := false     -- the transfer is done with a failure / cancellation
  renamed      : Bool := false
  cleaned      : Bool := false     -- failure cleanups ran
  writesAfterClose : Nat := 0      -- history: writes executed on a closed / removed temp file
  deriving Repr, DecidableEq

inductive Label
  | openTemp                 -- first write opens the temp file (DeferredOpenFile)
  | queueWrite               -- a GET task queues a chunk
  | getsDone                 -- all GET tasks finished
  | write (ok : Bool)        -- the io thread executes a queued write
  | skipWrite                -- … or skips it because the transfer is already done
  | fail                     -- a request / stream / callback failed, or the user cancelled
  | rename (ok : Bool)       -- the final io task
  | skipRename               -- the final io task finds the transfer done
  | cleanup                  -- announce_done: close + remove the temp file
  deriving Repr, DecidableEq

def step (s : Fs) : Label → Option Fs
  | .openTemp => if s.temp = .absent ∧ ¬ s.renamed ∧ ¬ s.cleaned then some { s with temp := .openFile } else none
  | .queueWrite => if ¬ s.allSubmitted then some { s with pending := s.pending + 1 } else none
  | .getsDone => some { s with allSubmitted := true }
  | .write ok =>
    if s.pending = 0 ∨ s.failed ∨ s.renamed ∨ s.cleaned then none
    else if s.temp = .absent then none    -- the temp file is opened by the first write
    else if ok then some { s with pending := s.pending - 1,
                                  writesAfterClose := if s.temp = .closed then s.writesAfterClose + 1 else s.writesAfterClose }
    else some { s with pending := s.pending - 1, missing := true, failed := true }
  | .skipWrite => if 0 < s.pending ∧ s.failed then some { s with pending := s.pending - 1, missing := true } else none
  | .fail => if s.renamed then some s else some { s with failed := true }   -- after the rename the final task sets the result
  | .rename ok =>
    if s.allSubmitted ∧ s.pending = 0 ∧ ¬ s.failed ∧ ¬ s.renamed ∧ ¬ s.cleaned ∧ s.temp ≠ .absent then
      (if ok then some { s with temp := .absent, renamed := true,
                                final := if s.missing then .partial_ else .complete }
       else some { s with temp := .closed, failed := true })
    else none
  | .skipRename => if s.allSubmitted ∧ s.pending = 0 ∧ s.failed then some s else none
  | .cleanup =>
    if s.failed ∧ s.allSubmitted ∧ s.pending = 0 ∧ ¬ s.renamed then some { s with temp := .absent, cleaned := true } else none

def run (s : Fs) : List Label → Option Fs
  | [] => some s
  | l :: ls => match step s l with
    | none => none
    | some s' => run s' ls

end S3V.Fs
