/-
M1 / Upload — how the three upload input managers cut a source into part bodies
(`upload.Upload{Filename,Seekable,NonSeekable}InputManager`), and the multipart decision for a
non-seekable stream of unknown size.

A user stream that cannot seek may return fewer bytes than asked before its end (pipes,
sockets, raw streams): `Src.script` lists caps for successive `read(n)` calls (each read returns
at least one byte while data remains — `b''` means EOF); when the script is exhausted reads are
full. Regular files and seekable streams read fully.
-/
namespace S3V.Upload

/-- slices of a fully-reading source: part `i` (0-based) is `src[c*i, c*i + c)`; this is what the
filename manager's `ReadFileChunk` windows and the seekable manager's `fileobj.read(part_size)`
calls deliver for `n = ⌈len/c⌉` parts. -/
def slices {α : Type} (src : List α) (c n : Nat) : List (List α) :=
  (List.range n).map fun i => (src.drop (c * i)).take c

structure Src (α : Type) where
  data   : List α
  script : List Nat

/-- `fileobj.read(amount)` of a short-reading stream -/
def Src.read {α : Type} (s : Src α) (amount : Nat) : List α × Src α :=
  match s.script with
  | [] => (s.data.take amount, { data := s.data.drop amount, script := [] })
  | cap :: rest =>
    (s.data.take (min amount (max cap 1)),
     { data := s.data.drop (min amount (max cap 1)), script := rest })

/-- `_read_from_fileobj(fileobj, amount)` (the D16 repair): keep reading until `amount` bytes are there
or a read returns nothing.  `fuel` bounds the number of reads; `amount` is always enough because
every read before the end returns at least one byte. -/
def Src.readFully {α : Type} (s : Src α) : Nat → Nat → List α × Src α
  | 0, _ => ([], s)
  | fuel + 1, amount =>
    if amount = 0 then ([], s)
    else if (s.read amount).1.length = 0 then ([], (s.read amount).2)
    else ((s.read amount).1 ++ (Src.readFully (s.read amount).2 fuel (amount - (s.read amount).1.length)).1,
          (Src.readFully (s.read amount).2 fuel (amount - (s.read amount).1.length)).2)

/-- state of `UploadNonSeekableInputManager`: `_initial_data` and the user stream -/
structure NS (α : Type) where
  initial : List α
  src     : Src α

/-- `_read(fileobj, amount)` with `truncate=True` -/
def NS.readChunk {α : Type} (m : NS α) (amount : Nat) : List α × NS α :=
  if m.initial.length = 0 then ((m.src.readFully amount amount).1, { m with src := (m.src.readFully amount amount).2 })
  else if amount ≤ m.initial.length then
    (m.initial.take amount, { m with initial := m.initial.drop amount })
  else
    (m.initial ++ (m.src.readFully (amount - m.initial.length) (amount - m.initial.length)).1,
     { initial := [], src := (m.src.readFully (amount - m.initial.length) (amount - m.initial.length)).2 })

/-- `yield_upload_part_bodies`: read parts until a read returns nothing -/
def NS.parts {α : Type} : Nat → NS α → Nat → List (List α)
  | 0, _, _ => []
  | fuel + 1, m, chunk =>
    if (m.readChunk chunk).1.length = 0 then []
    else (m.readChunk chunk).1 :: NS.parts fuel (m.readChunk chunk).2 chunk

/-- `requires_multipart_upload` for an unknown size: `threshold` bytes (or the whole stream if it is
shorter) are read and kept as `_initial_data`; multipart iff `threshold` bytes were there -/
def NS.choose {α : Type} (s : Src α) (threshold : Nat) : Bool × NS α :=
  (Nat.ble threshold (s.readFully threshold threshold).1.length,
   { initial := (s.readFully threshold threshold).1, src := (s.readFully threshold threshold).2 })

/-- `get_put_object_body`: `_initial_data + fileobj.read()` -/
def NS.putBody {α : Type} (m : NS α) : List α := m.initial ++ m.src.data

end S3V.Upload
