/-
M2 / Fs2 — the file-system side of a download to a path, refined so that the real code's traces
can be replayed on it (the coarser `Fs` treats "test done() and write" as one step).

`DownloadFilenameOutputManager`, `IOWriteTask`, `IORenameFileTask`, the failure cleanups
`f.close` / `osutil.remove_file(temp)`:
* writes are queued by the GET tasks and executed one at a time; a write task first tests
  `transfer_coordinator.done()` (`pickWrite skip`) and then, if not done, writes — a failure or
  cancel may land between the test and the write (`fail` while `running`);
* the temporary file is opened by the first write that runs (`DeferredOpenFile`);
* the final io task is picked only after every GET task has ended and every queued write was
  executed or skipped (it is submitted by the last GET task's done-callback to the same FIFO,
  single-threaded io executor); it tests done() (`pickFinal skip`) and otherwise closes the
  temporary file and renames it;
* the failure cleanups (close + remove the temporary file) run in `announce_done`, which is reached
  only after every write task has ended — through the final task, through the submission task's
  failure path (`_wait_for_all_submitted_futures_to_complete`) or for a transfer cancelled before it
  started.
-/
namespace S3V.Fs2

inductive Content | absentOrPrevious | complete | partial_
  deriving Repr, DecidableEq

inductive Temp | absent | openFile | closed
  deriving Repr, DecidableEq

structure Fs where
  final        : Content := .absentOrPrevious
  temp         : Temp := .absent
  queued       : Nat := 0          -- write tasks queued, not yet picked
  running      : Bool := false     -- a write task passed its done() test and has not finished
  allSubmitted : Bool := false     -- every GET task ended (no more writes will be queued)
  missing      : Bool := false     -- some write was skipped or failed: the temp file is not the object
  failed       : Bool := false     -- the transfer is done with a failure / cancellation
  finalRunning : Bool := false     -- the final task passed its done() test and has not renamed yet
  finalPicked  : Bool := false
  renamed      : Bool := false
  cleaned      : Bool := false     -- the failure cleanups ran
  lateWrites   : Nat := 0          -- history: writes that ended after the cleanups or the rename
  deriving Repr, DecidableEq

inductive Label
  | queueWrite
  | getsDone
  | pickWrite (skip : Bool)
  | openTemp
  | writeEnd (ok : Bool)
  | fail
  | pickFinal (skip : Bool)
  | rename (ok : Bool)
  | cleanup
  deriving Repr, DecidableEq

def step (s : Fs) : Label → Option Fs
  | .queueWrite => if ¬ s.allSubmitted then some { s with queued := s.queued + 1 } else none
  | .getsDone => some { s with allSubmitted := true }
  | .pickWrite skip =>
    if 0 < s.queued ∧ ¬ s.running ∧ ¬ s.finalPicked ∧ skip = s.failed then
      (if skip then some { s with queued := s.queued - 1, missing := true }
       else some { s with queued := s.queued - 1, running := true })
    else none
  | .openTemp =>
    if s.running ∧ s.temp = .absent then some { s with temp := .openFile } else none
  | .writeEnd ok =>
    if s.running ∧ s.temp = .openFile then
      (if ok then some { s with running := false,
                                lateWrites := if s.cleaned ∨ s.renamed then s.lateWrites + 1 else s.lateWrites }
       else some { s with running := false, missing := true, failed := true })
    else if s.running ∧ ¬ ok then some { s with running := false, missing := true, failed := true }   -- open itself failed
    else none
  | .fail => if s.renamed then some s else some { s with failed := true }
  | .pickFinal skip =>
    if s.allSubmitted ∧ s.queued = 0 ∧ ¬ s.running ∧ ¬ s.finalPicked ∧ skip = s.failed then
      some { s with finalPicked := true, finalRunning := !skip }
    else none
  | .rename ok =>
    if s.finalRunning ∧ ¬ s.renamed then
      (if ok then some { s with finalRunning := false, temp := .absent, renamed := true,
                                final := if s.missing then .partial_ else .complete }
       else some { s with finalRunning := false, temp := if s.temp = .absent then .absent else .closed, failed := true })
    else none
  | .cleanup =>
    if s.failed ∧ s.queued = 0 ∧ ¬ s.running ∧ ¬ s.finalRunning ∧ ¬ s.renamed then
      some { s with temp := .absent, cleaned := true }
    else none

def run (s : Fs) : List Label → Option Fs
  | [] => some s
  | l :: ls => match step s l with
    | none => none
    | some s' => run s' ls

end S3V.Fs2
