/-
M1 / Sema — `utils.SlidingWindowSemaphore`, `utils.TaskSemaphore`, `utils.CountCallbackInvoker`.

Sliding window state per tag: `next` (= `_tag_sequences[tag]`), `lowest` (= `_lowest_sequence[tag]`),
`pending` (= `_pending_release[tag]`: tokens released out of order, waiting for the lowest).
A tag is *known* once it has been acquired at least once (`tag in self._tag_sequences`).

`release` follows the repaired code (fix D11+D15): a token is accepted only when it is currently
outstanding, i.e. `lowest ≤ tok < next` and `tok` is not already pending.
The real list is kept sorted descending and popped from the tail; only membership matters for
the observable behaviour, so `pending` is an unordered duplicate-free list here.
-/
namespace S3V.Sema

structure TagSt where
  next    : Nat
  lowest  : Nat
  pending : List Nat
  deriving Repr, DecidableEq

structure Sws where
  count : Nat
  tags  : List (Nat × TagSt)      -- association list, at most one entry per tag
  deriving Repr, DecidableEq

inductive Out
  | token (n : Nat)
  | ok
  | noResources        -- NoResourcesAvailable (non-blocking acquire at zero)
  | valueError         -- unknown tag / not an outstanding token
  | wouldBlock         -- a blocking acquire would wait (only reported by the sequential driver)
  deriving Repr, DecidableEq

def Sws.init (cap : Nat) : Sws := { count := cap, tags := [] }

def lookup (tags : List (Nat × TagSt)) (t : Nat) : Option TagSt :=
  match tags with
  | [] => none
  | (k, v) :: rest => if k = t then some v else lookup rest t

def update (tags : List (Nat × TagSt)) (t : Nat) (v : TagSt) : List (Nat × TagSt) :=
  match tags with
  | [] => [(t, v)]
  | (k, w) :: rest => if k = t then (k, v) :: rest else (k, w) :: update rest t v

/-- `acquire(tag, blocking=False)` -/
def acquire (s : Sws) (t : Nat) : Sws × Out :=
  if s.count = 0 then (s, .noResources)
  else
    match lookup s.tags t with
    | none => ({ count := s.count - 1, tags := update s.tags t { next := 1, lowest := 0, pending := [] } }, .token 0)
    | some ts => ({ count := s.count - 1, tags := update s.tags t { ts with next := ts.next + 1 } }, .token ts.next)

/-- The `while queued:` loop of `release`: slide over tokens already released out of order.
Returns the new `(lowest, pending, freed)`. Recursion on the length of `pending`. -/
def drain (fuel : Nat) (lowest : Nat) (pending : List Nat) : Nat × List Nat × Nat :=
  match fuel with
  | 0 => (lowest, pending, 0)
  | fuel + 1 =>
    if lowest ∈ pending then
      let r := drain fuel (lowest + 1) (pending.erase lowest)
      (r.1, r.2.1, r.2.2 + 1)
    else (lowest, pending, 0)

/-- `release(tag, token)` -/
def release (s : Sws) (t : Nat) (tok : Nat) : Sws × Out :=
  match lookup s.tags t with
  | none => (s, .valueError)
  | some ts =>
    if tok = ts.lowest ∧ tok < ts.next then
      let r := drain ts.pending.length (ts.lowest + 1) ts.pending
      ({ count := s.count + 1 + r.2.2,
         tags := update s.tags t { ts with lowest := r.1, pending := r.2.1 } }, .ok)
    else if ts.lowest < tok ∧ tok < ts.next ∧ tok ∉ ts.pending then
      ({ s with tags := update s.tags t { ts with pending := tok :: ts.pending } }, .ok)
    else (s, .valueError)

inductive Op
  | acquire (tag : Nat)
  | release (tag tok : Nat)
  deriving Repr, DecidableEq

def step (s : Sws) : Op → Sws × Out
  | .acquire t => acquire s t
  | .release t k => release s t k

def run (s : Sws) (ops : List Op) : Sws := ops.foldl (fun s o => (step s o).1) s

/-- tokens of a tag that are issued and not yet released -/
def outstanding (ts : TagSt) : List Nat :=
  (List.range' ts.lowest (ts.next - ts.lowest)).filter (fun k => k ∉ ts.pending)

/-- Σ over tags of (next − lowest): the window widths -/
def width (tags : List (Nat × TagSt)) : Nat :=
  match tags with
  | [] => 0
  | (_, ts) :: rest => (ts.next - ts.lowest) + width rest

/-! ### plain counting semaphore (`TaskSemaphore`, non-blocking view) -/

structure Tsem where
  count : Nat
  deriving Repr, DecidableEq

def Tsem.acquire (s : Tsem) : Tsem × Out :=
  if s.count = 0 then (s, .noResources) else ({ count := s.count - 1 }, .ok)

def Tsem.release (s : Tsem) : Tsem × Out := ({ count := s.count + 1 }, .ok)

/-! ### `CountCallbackInvoker` -/

structure Cci where
  count     : Nat
  finalized : Bool
  fired     : Nat            -- how often the callback ran
  deriving Repr, DecidableEq

inductive CciOut | ok | runtimeError | fired
  deriving Repr, DecidableEq

def Cci.init : Cci := { count := 0, finalized := false, fired := 0 }

def Cci.increment (c : Cci) : Cci × CciOut :=
  if c.finalized then (c, .runtimeError) else ({ c with count := c.count + 1 }, .ok)

def Cci.decrement (c : Cci) : Cci × CciOut :=
  if c.count = 0 then (c, .runtimeError)
  else if c.finalized ∧ c.count = 1 then ({ c with count := 0, fired := c.fired + 1 }, .fired)
  else ({ c with count := c.count - 1 }, .ok)

def Cci.finalize (c : Cci) : Cci × CciOut :=
  if c.count = 0 then ({ c with finalized := true, fired := c.fired + 1 }, .fired)
  else ({ c with finalized := true }, .ok)

end S3V.Sema

/-! ### blocking acquirers (`Condition.wait` / `notify`) -/
namespace S3V.Sema

/-- Sliding-window semaphore with blocked threads. `waiting`: threads inside `Condition.wait()`;
`notified`: threads that `notify()` has woken and that still have to re-acquire the lock and
re-test `count == 0`. -/
structure BState where
  sws      : Sws
  waiting  : List (Nat × Nat)      -- (thread, tag)
  notified : List (Nat × Nat)
  deriving Repr, DecidableEq

inductive BLabel
  | acquire (th tag : Nat)       -- `acquire(tag, blocking=True)` called by thread `th`
  | release (tag tok : Nat)
  | wake (th tag : Nat)          -- a notified thread runs again
  deriving Repr, DecidableEq

def BState.init (cap : Nat) : BState := { sws := Sws.init cap, waiting := [], notified := [] }

/-- One observable step. `release` notifies one waiter exactly when it released the lowest
token of its tag (the only branch of the real code that calls `notify()`). -/
def bstep (b : BState) : BLabel → Option (BState × Out)
  | .acquire th t =>
    if b.sws.count = 0 then some ({ b with waiting := b.waiting ++ [(th, t)] }, .wouldBlock)
    else some ({ b with sws := (acquire b.sws t).1 }, (acquire b.sws t).2)
  | .release t k =>
    let r := release b.sws t k
    if r.1.count > b.sws.count then
      match b.waiting with
      | [] => some ({ b with sws := r.1 }, r.2)
      | w :: ws => some ({ sws := r.1, waiting := ws, notified := b.notified ++ [w] }, r.2)
    else some ({ b with sws := r.1 }, r.2)
  | .wake th t =>
    if (th, t) ∈ b.notified then
      let n' := b.notified.erase (th, t)
      if b.sws.count = 0 then some ({ b with notified := n', waiting := b.waiting ++ [(th, t)] }, .wouldBlock)
      else some ({ b with notified := n', sws := (acquire b.sws t).1 }, (acquire b.sws t).2)
    else none

def brun (b : BState) : List BLabel → Option BState
  | [] => some b
  | l :: ls => match bstep b l with
    | none => none
    | some (b', _) => brun b' ls

end S3V.Sema
