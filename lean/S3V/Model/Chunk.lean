/-
M1 / Chunk — `utils.ReadFileChunk` (the body of every PutObject / UploadPart request),
`upload.AggregatedProgressCallback`, `utils.StreamReaderProgress`.

A chunk is a window of `size` elements of an underlying file that reads fully (regular file /
BytesIO).  `pos` is `_amount_read`: it may exceed `size` after a seek, reads never leave the
window.  `enabled` is `_callbacks_enabled` (botocore disables it while signing).
Reported progress values are returned by each operation (`none` = callbacks not invoked:
`invoke_progress_callbacks` skips a zero amount).
Domain: `read` with `none` or a non-negative amount (botocore never passes a negative one).
-/
namespace S3V.Chunk

structure Rfc (α : Type) where
  window  : List α        -- the bytes of the chunk, `size = window.length`
  pos     : Nat := 0
  enabled : Bool := false -- managers create bodies with callbacks disabled
  closed  : Bool := false

def Rfc.size {α : Type} (c : Rfc α) : Nat := c.window.length

/-- position clamped to the window: what progress accounting is based on -/
def Rfc.bounded {α : Type} (c : Rfc α) : Nat := min c.pos c.size

inductive Op
  | read (amount : Option Nat)
  | seek (where_ : Int) (whence : Nat)
  | enable
  | disable
  | close
  deriving Repr, DecidableEq

structure Res (α : Type) where
  data     : List α := []           -- bytes returned by a read
  progress : Option Int := none      -- value passed to the progress callbacks, if invoked
  flushed  : Bool := false           -- close callbacks ran
  error    : Bool := false           -- ValueError (invalid whence)

/-- how many bytes `read(amount)` asks the underlying file for -/
def Rfc.readLen {α : Type} (c : Rfc α) : Option Nat → Nat
  | none => c.size - c.pos
  | some a => min (c.size - c.pos) a

/-- seek target relative to the start of the chunk -/
def Rfc.seekTarget {α : Type} (c : Rfc α) (w : Int) (whence : Nat) : Int :=
  if whence = 1 then w + c.pos else if whence = 2 then w + c.size else w

def step {α : Type} (c : Rfc α) : Op → Rfc α × Res α
  | .read amount =>
    ({ c with pos := c.pos + c.readLen amount },
     { data := (c.window.drop c.pos).take (c.readLen amount),
       progress := if c.enabled ∧ c.readLen amount ≠ 0 then some (c.readLen amount : Int) else none })
  | .seek w whence =>
    if whence > 2 then (c, { error := true })
    else
      ({ c with pos := (c.seekTarget w whence).toNat },
       { progress := if c.enabled ∧ max (min (c.seekTarget w whence) c.size) 0 - (c.bounded : Int) ≠ 0
                     then some (max (min (c.seekTarget w whence) c.size) 0 - (c.bounded : Int)) else none })
  | .enable => ({ c with enabled := true }, {})
  | .disable => ({ c with enabled := false }, {})
  | .close => ({ c with closed := true }, { flushed := c.enabled })

def optList : Option Int → List Int
  | none => []
  | some v => [v]

/-- run a list of operations, collecting the progress values reported, in order -/
def runOps {α : Type} (c : Rfc α) : List Op → Rfc α × List Int
  | [] => (c, [])
  | o :: os => ((runOps (step c o).1 os).1, optList (step c o).2.progress ++ (runOps (step c o).1 os).2)

/-! ### `AggregatedProgressCallback` -/

structure Agg where
  threshold : Nat
  seen      : Int := 0

/-- `__call__(bytes_transferred)`: returns the value delivered to the subscribers, if any -/
def Agg.call (a : Agg) (v : Int) : Agg × Option Int :=
  if a.seen + v ≥ a.threshold then ({ a with seen := 0 }, some (a.seen + v))
  else ({ a with seen := a.seen + v }, none)

/-- `flush()` -/
def Agg.flush (a : Agg) : Agg × Option Int :=
  if a.seen > 0 then ({ a with seen := 0 }, some a.seen) else (a, none)

/-- feed a list of raw progress values; returns what the subscribers receive, in order -/
def Agg.feed (a : Agg) : List Int → Agg × List Int
  | [] => (a, [])
  | v :: vs => ((Agg.feed (a.call v).1 vs).1, optList (a.call v).2 ++ (Agg.feed (a.call v).1 vs).2)

end S3V.Chunk
