/-
M1 / Coord — `futures.TransferCoordinator` (+ `TransferFuture.set_exception`) as a state machine.

Every mutator of status/exception/result runs under `self._lock` in the real class, so one
operation is one atomic step here; `done()`, `status`, `exception` and `result()` are reads.
Exceptions and results are identified by numbers. Cleanups / done callbacks are identified by
numbers as well; `ranCleanups` / `ranDone` log what `announce_done` ran, in order.
-/
namespace S3V.Coord

inductive Status
  | notStarted | queued | running | success | failed | cancelled
  deriving Repr, DecidableEq

def Status.isDone : Status → Bool
  | .success | .failed | .cancelled => true
  | _ => false

structure Coord where
  status      : Status := .notStarted
  exc         : Option Nat := none
  result      : Option Nat := none
  event       : Bool := false          -- `_done_event`
  cleanups    : List Nat := []         -- `_failure_cleanups` not yet run
  doneCbs     : List Nat := []         -- `_done_callbacks` not yet run
  ranCleanups : List Nat := []
  ranDone     : List Nat := []
  deriving Repr, DecidableEq

inductive Op
  | setResult (r : Nat)
  | setException (e : Nat) (override : Bool)
  | cancel (e : Nat)
  | toQueued
  | toRunning
  | announceDone
  | addDoneCallback (id : Nat)
  | addFailureCleanup (id : Nat)
  | futureSetException (e : Nat)       -- `TransferFuture.set_exception`
  deriving Repr, DecidableEq

inductive Out
  | ok
  | runtimeError          -- transition from a done state refused
  | notDoneError          -- TransferNotDoneError
  deriving Repr, DecidableEq

def Coord.done (c : Coord) : Bool := c.status.isDone

/-- `announce_done()` -/
def announce (c : Coord) : Coord :=
  let c1 := if c.status ≠ .success
            then { c with ranCleanups := c.ranCleanups ++ c.cleanups, cleanups := [] } else c
  { c1 with event := true, ranDone := c1.ranDone ++ c1.doneCbs, doneCbs := [] }

def step (c : Coord) : Op → Coord × Out
  | .setResult r => ({ c with exc := none, result := some r, status := .success }, .ok)
  | .setException e ov =>
    if !c.done || ov then ({ c with exc := some e, status := .failed }, .ok) else (c, .ok)
  | .cancel e =>
    if c.done then (c, .ok)
    else
      let c1 := { c with exc := some e, status := .cancelled }
      if c.status = .notStarted then (announce c1, .ok) else (c1, .ok)
  | .toQueued => if c.done then (c, .runtimeError) else ({ c with status := .queued }, .ok)
  | .toRunning => if c.done then (c, .runtimeError) else ({ c with status := .running }, .ok)
  | .announceDone => (announce c, .ok)
  | .addDoneCallback i => ({ c with doneCbs := c.doneCbs ++ [i] }, .ok)
  | .addFailureCleanup i => ({ c with cleanups := c.cleanups ++ [i] }, .ok)
  | .futureSetException e =>
    if c.done then ({ c with exc := some e, status := .failed }, .ok) else (c, .notDoneError)

def run (c : Coord) (ops : List Op) : Coord := ops.foldl (fun c o => (step c o).1) c

/-- What `result()` does once the done event is set: raise the stored exception or return the
stored result. -/
inductive ResultOutcome
  | blocks
  | raises (e : Nat)
  | returns (r : Option Nat)
  deriving Repr, DecidableEq

def resultOf (c : Coord) : ResultOutcome :=
  if c.event then (match c.exc with | some e => .raises e | none => .returns c.result) else .blocks

end S3V.Coord
