/-
M3 / Crt — the Python glue of `crt.CRTTransferManager`: one permit of the manager's semaphore per
submitted transfer, the composition of the `on_done` callback the CRT client receives
(rename/remove handler → subscribers' on_done → release the permit → AfterDoneHandler sets the
"done callbacks complete" event), construction failures, shutdown.

The native client is abstracted to its contract: for every request that `make_request` returned
it calls `on_done(error=…)` exactly once, in any order; cancel makes it complete with an error.
-/
import S3V.Gen.Consts

namespace S3V.Crt

inductive Kind | upload | downloadPath | downloadStream | delete
  deriving Repr, DecidableEq

inductive Fs | untouched | tempPresent | renamed | removed
  deriving Repr, DecidableEq

inductive Ev | fsRename | fsRemove | subscribers | release | eventSet
  deriving Repr, DecidableEq

structure T where
  kind        : Kind := .delete
  submitted   : Bool := false
  outstanding : Bool := false       -- make_request returned, on_done not yet called
  released    : Nat := 0            -- how often the permit was given back
  log         : List Ev := []       -- what the done callback did, in order
  fs          : Fs := .untouched
  failed      : Bool := false       -- the future raises
  deriving Repr, DecidableEq

structure Crt where
  cap   : Nat
  free  : Nat
  n     : Nat := 0                  -- transfers submitted so far
  t     : Nat → T := fun _ => {}
  shut  : Bool := false
  /-- does the client complete `finished_future` before it calls `on_done` (the native client's
  order: then a rename failure can no longer be recorded, `set_exception` without override is a
  no-op on a done future) or after it (then the future fails with the rename error) -/
  futureFirst : Bool := true

def Crt.init (cap : Nat) (ff : Bool := true) : Crt := { cap := cap, free := cap, futureFirst := ff }

inductive Op
  | submit (k : Kind) (constructFails : Bool)
  | complete (i : Nat) (err : Bool) (renameFails : Bool)
  | shutdownReturn
  deriving Repr, DecidableEq

def upd (f : Nat → T) (k : Nat) (v : T) : Nat → T := fun i => if i = k then v else f i

def allDone (c : Crt) : Bool := (List.range c.n).all fun i => (c.t i).log.contains .eventSet

/-- what the composed `on_done` callback does to one transfer -/
def T.finish (x : T) (err renameFails ff : Bool) : T :=
  if x.kind = .downloadPath then
    { kind := x.kind, submitted := x.submitted, outstanding := false, released := x.released + 1,
      fs := if err || renameFails then .removed else .renamed,
      failed := err || (renameFails && !ff),
      log := (if err then [.fsRemove] else if renameFails then [.fsRename, .fsRemove] else [.fsRename])
             ++ [.subscribers, .release, .eventSet] }
  else
    { kind := x.kind, submitted := x.submitted, outstanding := false, released := x.released + 1,
      fs := x.fs, failed := err, log := [.subscribers, .release, .eventSet] }

def step (c : Crt) : Op → Option Crt
  | .submit k fails =>
    if c.free = 0 then none           -- `self._semaphore.acquire()` blocks
    else if fails then
      -- the except path: set_exception; on_done(error=e) = subscribers, release, after-done
      some { c with n := c.n + 1,
                    t := upd c.t c.n { kind := k, submitted := true, outstanding := false, released := 1,
                                       log := [.subscribers, .release, .eventSet], failed := true } }
    else
      some { c with free := c.free - 1, n := c.n + 1,
                    t := upd c.t c.n { kind := k, submitted := true, outstanding := true,
                                       fs := if k = .downloadPath then .tempPresent else .untouched } }
  | .complete i err renameFails =>
    if i < c.n ∧ (c.t i).outstanding = true then
      some { c with free := c.free + 1, t := upd c.t i ((c.t i).finish err renameFails c.futureFirst) }
    else none
  | .shutdownReturn => if allDone c then some { c with shut := true } else none

def run (c : Crt) : List Op → Option Crt
  | [] => some c
  | o :: os => match step c o with
    | none => none
    | some c' => run c' os

def outstandingCount (c : Crt) : Nat := ((List.range c.n).filter fun i => (c.t i).outstanding).length

end S3V.Crt
