/-
M1 / Args — which extra arguments reach which S3 operation.

Tables (allow-lists, block-lists, the copy→head mapping, botocore's S3 input shapes) are
generated from the source into S3V.Gen.ArgTables / S3V.Gen.S3Shapes on every run.
The wiring "which table filters the kwargs of which call" is modelled here by hand and tied to
the code by the end-to-end kwargs correspondence (harness/comp_args.py).

An `extra_args` dict is an association list of (name, value) pairs (values are opaque strings).
-/
import S3V.Gen.ArgTables
import S3V.Gen.S3Shapes

namespace S3V.Args
open S3V.Gen

abbrev Dict := List (String × String)

inductive Op
  | head | get | put | create | uploadPart | uploadPartCopy | complete | copyObject | delete
  deriving Repr, DecidableEq

def shape : Op → List String
  | .head => shapeHeadObject
  | .get => shapeGetObject
  | .put => shapePutObject
  | .create => shapeCreateMultipartUpload
  | .uploadPart => shapeUploadPart
  | .uploadPartCopy => shapeUploadPartCopy
  | .complete => shapeCompleteMultipartUpload
  | .copyObject => shapeCopyObject
  | .delete => shapeDeleteObject

def keys (d : Dict) : List String := d.map Prod.fst

/-- `utils.get_filtered_dict(original, whitelisted_keys, blocklisted_keys)`; an absent or
empty list is falsy in Python. -/
def filteredDict (d : Dict) (white block : List String) : Dict :=
  d.filter fun p => (!white.isEmpty && white.contains p.1) || (!block.isEmpty && !block.contains p.1)

def setKey (d : Dict) (k v : String) : Dict :=
  if (keys d).contains k then d.map (fun p => if p.1 = k then (k, v) else p) else d ++ [(k, v)]

/-- `_validate_all_known_args`: the first unknown key raises ValueError before any request. -/
def validate (d : Dict) (allowed : List String) : Bool := (keys d).all allowed.contains

/-- `set_default_checksum_algorithm` (applied by `upload()` when the client is configured with
`request_checksum_calculation == "when_supported"`). -/
def setDefaultChecksum (d : Dict) : Dict :=
  if (keys d).any fullObjectChecksumArgs.contains then d
  else if (keys d).contains "ChecksumAlgorithm" then d else d ++ [("ChecksumAlgorithm", "CRC32")]

/-- the loop at the top of `UploadSubmissionTask._submit_multipart_request` -/
def fullObjectPre (d : Dict) : Dict :=
  fullObjectChecksumArgs.foldl
    (fun acc c => if (keys d).contains c
      then setKey (setKey acc "ChecksumType" "FULL_OBJECT") "ChecksumAlgorithm" ((c.drop 8).toString)
      else acc) d

structure Call where
  op   : Op
  args : Dict
  deriving Repr

/-! ### TransferManager -/
def uploadSingle (d : Dict) : List Call :=
  [{ op := .put, args := filteredDict d [] putObjectBlocklist }]

def uploadMultipart (d : Dict) : List Call :=
  let d' := fullObjectPre d
  [{ op := .create, args := filteredDict d' [] createMultipartBlocklist },
   { op := .uploadPart, args := filteredDict d' uploadPartArgs [] },
   { op := .complete, args := filteredDict d' completeMultipartArgs [] }]

def downloadCalls (d : Dict) (sizeKnown : Bool) : List Call :=
  (if sizeKnown then [] else [{ op := .head, args := d }]) ++ [{ op := .get, args := d }]

/-- head request of a copy: the extra args that have a HeadObject equivalent, renamed -/
def copyHeadArgs (d : Dict) : Dict :=
  d.filterMap fun p => (copyHeadMapping.lookup p.1).map fun h => (h, p.2)

def copySingle (d : Dict) (sizeKnown : Bool) : List Call :=
  (if sizeKnown then [] else [{ op := .head, args := copyHeadArgs d }]) ++
  [{ op := .copyObject, args := d }]

def copyMultipart (d : Dict) (sizeKnown : Bool) : List Call :=
  (if sizeKnown then [] else [{ op := .head, args := copyHeadArgs d }]) ++
  [{ op := .create, args := d.filter fun p => !copyCreateMultipartBlacklist.contains p.1 },
   { op := .uploadPartCopy, args := filteredDict d copyUploadPartCopyArgs [] },
   { op := .complete, args := filteredDict d copyCompleteMultipartArgs [] }]

def deleteCalls (d : Dict) : List Call := [{ op := .delete, args := d }]

/-! ### legacy S3Transfer and the process-pool downloader -/
def legacyUploadSingle (d : Dict) : List Call := [{ op := .put, args := d }]

def legacyUploadMultipart (d : Dict) : List Call :=
  [{ op := .create, args := d },
   { op := .uploadPart, args := d.filter fun p => legacyUploadPartArgs.contains p.1 },
   { op := .complete, args := [] }]

/-- both the single GET and (after fix D6) every ranged GET receive the extra args -/
def legacyDownload (d : Dict) : List Call :=
  [{ op := .head, args := d }, { op := .get, args := d }]

def processpoolDownload (d : Dict) (sizeKnown : Bool) : List Call :=
  (if sizeKnown then [] else [{ op := .head, args := d }]) ++ [{ op := .get, args := d }]

end S3V.Args
