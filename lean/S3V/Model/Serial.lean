/-
M2 / Serial — how exceptions travel through a transfer manager whose tasks run in the caller's
thread (`executor_cls=NonThreadedExecutor`, what boto3 builds for `use_threads=False`).

`TransferManager._submit_transfer` hands the submission task to `BoundedExecutor.submit`; the
serial executor runs it at once; `SubmissionTask._main` submits the transfer's tasks one after the
other, each through `BoundedExecutor.submit` and the serial executor again, so each runs to its end
(`Task.__call__`: main, except clauses, finally: done callbacks, announce if final) before the next
is submitted.  What each layer does with an exception is decided by its `except` clauses; those are
*generated from the source* (`S3V.Gen.Handlers`), the model interprets the tables.

Exceptions are of two classes: `ordinary` (subclasses of `Exception`) and `base` (KeyboardInterrupt,
SystemExit: `BaseException` only) — the caller's thread is where Ctrl-C lands.
-/
import S3V.Gen.Handlers
namespace S3V.Serial

inductive Exc | ordinary | base
  deriving Repr, DecidableEq

inductive Out | ok | raise (e : Exc)
  deriving Repr, DecidableEq

/-- (exception class named in the `except` clause, records the exception on the transfer,
re-raises, layer-specific flag) -/
abbrev Row := String × Bool × Bool × Bool

def catches (cls : String) : Exc → Bool
  | .ordinary => cls == "Exception" || cls == "BaseException"
  | .base => cls == "BaseException"

def findHandler (rows : List Row) (e : Exc) : Option Row := rows.find? (fun r => catches r.1 e)

structure Tables where
  task : List Row
  finallyCallbacks : Bool
  finallyAnnounces : Bool
  skipsWhenDone : Bool
  exec : List Row
  bounded : List Row
  submission : List Row

/-- the tables of the current source -/
def Tables.current : Tables :=
  { task := Gen.taskHandlers, finallyCallbacks := Gen.taskFinallyRunsDoneCallbacks,
    finallyAnnounces := Gen.taskFinallyAnnouncesIfFinal, skipsWhenDone := Gen.taskSkipsMainWhenDone,
    exec := Gen.serialExecutorHandlers, bounded := Gen.boundedSubmitHandlers,
    submission := Gen.submissionHandlers }

/-- the transfer coordinator and the bookkeeping the properties talk about -/
structure St where
  exc : Option Exc := none       -- `_exception` (the first one recorded is kept)
  success : Bool := false        -- `set_result` by the final task
  announced : Nat := 0           -- how often `announce_done` ran
  cleaned : Bool := false        -- the failure cleanups ran
  permits : Int := 0             -- permits taken and not given back, over all semaphores
  ran : List Nat := []           -- ids of the tasks whose main ran, in order
  stopped : Bool := false        -- a `base` exception was kept by the executor instead of propagating
  deriving Repr, DecidableEq

def St.done (s : St) : Bool := s.exc.isSome || s.success
/-- `set_exception` (no override): ignored once the transfer is done -/
def St.setExc (s : St) (e : Exc) : St := if s.done then s else { s with exc := some e }
/-- `set_result` -/
def St.setResult (s : St) : St := { s with success := true, exc := none }
/-- `announce_done`: failure cleanups unless successful, done event, done callbacks -/
def St.announce (s : St) : St := { s with announced := s.announced + 1, cleaned := s.cleaned || !s.success }

/-- a task called directly as another task's done callback (the final task of a single-request download) -/
structure Inner where
  id : Nat
  isFinal : Bool
  out : Out
  deriving Repr, DecidableEq

structure Task where
  id : Nat
  isFinal : Bool
  out : Out
  after : Option Inner := none
  deriving Repr, DecidableEq

/-- the `try` body and `except` clauses of `Task.__call__` -/
def taskBody (T : Tables) (id : Nat) (isFinal : Bool) (out : Out) (s : St) : St × Option Exc :=
  if T.skipsWhenDone && s.done then (s, none)
  else
    match out with
    | .ok => (if isFinal then { s with ran := s.ran ++ [id] }.setResult else { s with ran := s.ran ++ [id] }, none)
    | .raise e =>
      match findHandler T.task e with
      | some r => (if r.2.1 then { s with ran := s.ran ++ [id] }.setExc e else { s with ran := s.ran ++ [id] },
                   if r.2.2.1 then some e else none)
      | none => ({ s with ran := s.ran ++ [id] }, some e)

def taskCallInner (T : Tables) (t : Inner) (s : St) : St × Option Exc :=
  ((if t.isFinal && T.finallyAnnounces then (taskBody T t.id t.isFinal t.out s).1.announce else (taskBody T t.id t.isFinal t.out s).1),
   (taskBody T t.id t.isFinal t.out s).2)

/-- `Task.__call__`: body, then `finally`: the done callbacks (an exception there replaces the
pending one and skips the rest of the block), then announce if final -/
def taskCall (T : Tables) (t : Task) (s : St) : St × Option Exc :=
  let b := taskBody T t.id t.isFinal t.out s
  match (if T.finallyCallbacks then t.after else none) with
  | none => (if t.isFinal && T.finallyAnnounces then b.1.announce else b.1, b.2)
  | some i =>
    let c := taskCallInner T i b.1
    match c.2 with
    | some e => (c.1, some e)
    | none => (if t.isFinal && T.finallyAnnounces then c.1.announce else c.1, b.2)

/-- `NonThreadedExecutor.submit(fn)` -/
def execSubmit (T : Tables) (run : St → St × Option Exc) (s : St) : St × Option Exc :=
  match (run s).2 with
  | none => ((run s).1, none)
  | some e =>
    match findHandler T.exec e with
    | some r => ({ (run s).1 with stopped := (run s).1.stopped || (e == .base && !r.2.2.1) }, if r.2.2.1 then some e else none)
    | none => ((run s).1, some e)

/-- `BoundedExecutor.submit(task)`: take a permit, submit, hang the release on the returned future
(done already: released at once); the `except` clause around the submit decides what happens to
the permit when there is no future -/
def boundedSubmit (T : Tables) (run : St → St × Option Exc) (s : St) : St × Option Exc :=
  let r := execSubmit T run { s with permits := s.permits + 1 }
  match r.2 with
  | none => ({ r.1 with permits := r.1.permits - 1 }, none)
  | some e =>
    match findHandler T.bounded e with
    | some h => (if h.2.2.2 then { r.1 with permits := r.1.permits - 1 } else r.1, if h.2.2.1 then some e else none)
    | none => (r.1, some e)

/-- the submission loop: `_submit` hands the tasks over one after the other -/
def submitAll (T : Tables) : List Task → St → St × Option Exc
  | [], s => (s, none)
  | t :: rest, s =>
    match (boundedSubmit T (taskCall T t) s).2 with
    | some e => ((boundedSubmit T (taskCall T t) s).1, some e)
    | none => submitAll T rest (boundedSubmit T (taskCall T t) s).1

/-- `SubmissionTask._main` -/
def submission (T : Tables) (plan : List Task) (s : St) : St × Option Exc :=
  match (submitAll T plan s).2 with
  | none => ((submitAll T plan s).1, none)
  | some e =>
    match findHandler T.submission e with
    | some h =>
      let s1 := if h.2.1 then (submitAll T plan s).1.setExc e else (submitAll T plan s).1
      (if h.2.2.2 then s1.announce else s1, if h.2.2.1 then some e else none)
    | none => ((submitAll T plan s).1, some e)

/-- `TransferManager._submit_transfer`: the submission task goes through the submission executor;
what comes back is what `upload()` / `download()` / … raise in the caller -/
def manager (T : Tables) (plan : List Task) : St × Option Exc :=
  boundedSubmit T (submission T plan) {}


/-! ### the failure path of a submission task whose other tasks are still running (threads)

`SubmissionTask._main`, after `_submit` raised: record the exception, wait for every future submitted so
far, announce done.  The awaited futures may carry exceptions of either class (a part that was reading
its body re-raises the recorded exception through `InterruptReader`); what the waiting loop lets through
ends the path before `announce_done`. -/

/-- the waiting loop: the first stored exception its `except` clauses do not swallow -/
def waitLoop (rows : List Row) : List (Option Exc) → Option Exc
  | [] => none
  | none :: rest => waitLoop rows rest
  | some e :: rest =>
    match findHandler rows e with
    | some r => if r.2.2.1 then some e else waitLoop rows rest
    | none => some e

/-- the steps named in `path` run in order until one raises; returns whether done was announced -/
def failurePath (rows : List Row) (path : List String) (stored : List (Option Exc)) : Bool × Option Exc :=
  match path with
  | [] => (false, none)
  | "announce_done" :: _ => (true, none)
  | "_wait_for_all_submitted_futures_to_complete" :: rest =>
    (match waitLoop rows stored with
     | some e => (false, some e)
     | none => failurePath rows rest stored)
  | _ :: rest => failurePath rows rest stored

end S3V.Serial
