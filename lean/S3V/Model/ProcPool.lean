/-
M3 / ProcPool — the cross-process protocol of `processpool.ProcessPoolDownloader`:
one submitter (`GetObjectSubmitter._do_run`), `w` workers (`GetObjectWorker._do_run`), the
`TransferMonitor` state per transfer (exception, done, jobs_to_complete), the two FIFO queues
(download requests, get-object jobs; `none` is the SHUTDOWN_SIGNAL), the temporary / final file
of each download, and the user (download_file, future.cancel, Ctrl-C = cancel all in progress,
shutdown).  Every call to the monitor, every queue operation and every file-system operation is
one label; the processes interleave arbitrarily.
-/
namespace S3V.ProcPool

/-- history variable: how far the submitter is with a download (no guard reads it) -/
inductive SubPh | none | pending | sizing | allocated | putting | failing | failedDone | queuedAll
  deriving Repr, DecidableEq

/-- what the model keeps per download -/
structure PT where
  n         : Nat := 1        -- number of GetObject jobs the submitter will announce (≥ 1)
  submitted : Bool := false
  allocated : Bool := false   -- the temporary file was created
  announced : Bool := false   -- notify_expected_jobs_to_complete happened
  jobs      : Int := 0        -- TransferState.jobs_to_complete
  queued    : Nat := 0        -- jobs put on the worker queue
  taken     : Nat := 0        -- jobs taken off the queue by workers
  accounted : Nat := 0        -- notify_job_complete calls
  written   : Nat := 0        -- jobs whose bytes reached the temporary file
  exc       : Bool := false   -- TransferState.exception is set
  done      : Bool := false
  temp      : Bool := false   -- the temporary file exists
  renamed   : Bool := false   -- the destination was published
  subFailed : Bool := false   -- the submitter recorded its failure
  sub       : SubPh := .none  -- history variable
  deriving Repr, DecidableEq

inductive SPc
  | idle
  | sizing (t : Nat)            -- took the request; head_object / allocate in progress
  | allocated (t : Nat)
  | putting (t : Nat)           -- announced; queuing jobs
  | failing (t : Nat)           -- notify_exception done, notify_done pending
  | exited
  deriving Repr, DecidableEq

inductive WPc
  | idle
  | took (t : Nat)              -- has a job, has not asked for the exception yet
  | running (t : Nat)           -- GetObject + write in progress
  | ran (t : Nat)               -- job ran, failed or was skipped; not yet counted
  | counted0 (t : Nat)          -- notify_job_complete returned 0: this worker finalizes
  | finRemove (t : Nat)         -- final check saw an exception: remove the temporary file
  | finRename (t : Nat)         -- final check saw none: rename
  | renameFailed (t : Nat)      -- rename raised; notify_exception pending
  | fsDone (t : Nat)            -- file system settled; notify_done pending
  | exited
  deriving Repr, DecidableEq

inductive Shut | no | begun | signalling (k : Nat) | returned
  deriving Repr, DecidableEq

structure S where
  w      : Nat                          -- number of workers
  nt     : Nat := 0                     -- downloads submitted so far
  t      : Nat → PT := fun _ => {}
  reqQ   : List (Option Nat) := []
  workQ  : List (Option Nat) := []
  spc    : SPc := .idle
  wpc    : Nat → WPc := fun _ => .idle
  shut   : Shut := .no

def S.init (w : Nat) : S := { w := w }

inductive Label
  -- user
  | download (n : Nat)
  | cancel (t : Nat)
  | cancelAll
  | shutBegin                   -- put SHUTDOWN on the request queue
  | shutSignal                  -- submitter joined; put one SHUTDOWN on the worker queue
  | shutReturn                  -- all workers joined
  -- submitter
  | subTake
  | subAlloc
  | subFail                     -- head_object or allocate raised (the environment's choice): notify_exception
  | subFailDone                 -- notify_done
  | subAnnounce
  | subPut
  -- worker i
  | wTake (i : Nat)
  | wCheck (i : Nat)
  | wWrite (i : Nat)
  | wFail (i : Nat)
  | wDec (i : Nat)
  | wFinCheck (i : Nat)
  | wRemove (i : Nat)
  | wRename (i : Nat) (ok : Bool)
  | wRenameExc (i : Nat)        -- notify_exception after a failed rename
  | wDone (i : Nat)
  deriving Repr, DecidableEq

def upd {β : Type} (f : Nat → β) (k : Nat) (v : β) : Nat → β := fun i => if i = k then v else f i

def allWorkersExited (s : S) : Bool := (List.range s.w).all fun i => s.wpc i == .exited

def step (s : S) : Label → Option S
  | .download n =>
    if s.shut = .no ∧ 1 ≤ n then
      some { s with nt := s.nt + 1, reqQ := s.reqQ ++ [some s.nt],
                    t := upd s.t s.nt { n := n, submitted := true, sub := .pending } }
    else none
  | .cancel t =>
    if t < s.nt then some { s with t := upd s.t t { s.t t with exc := true } } else none
  | .cancelAll =>
    some { s with t := fun k => if k < s.nt ∧ (s.t k).done = false then { s.t k with exc := true } else s.t k }
  | .shutBegin => if s.shut = .no then some { s with shut := .begun, reqQ := s.reqQ ++ [none] } else none
  | .shutSignal =>
    match s.shut with
    | .begun => if s.spc = .exited ∧ 0 < s.w then some { s with shut := .signalling 1, workQ := s.workQ ++ [none] } else none
    | .signalling k => if k < s.w then some { s with shut := .signalling (k + 1), workQ := s.workQ ++ [none] } else none
    | _ => none
  | .shutReturn =>
    match s.shut with
    | .signalling k => if k = s.w ∧ allWorkersExited s then some { s with shut := .returned } else none
    | _ => none
  | .subTake =>
    if s.spc = .idle then
      match s.reqQ with
      | [] => none                                            -- blocks
      | none :: rest => some { s with spc := .exited, reqQ := rest }
      | some t :: rest => some { s with spc := .sizing t, reqQ := rest, t := upd s.t t { s.t t with sub := .sizing } }
    else none
  | .subAlloc =>
    match s.spc with
    | .sizing t => some { s with spc := .allocated t, t := upd s.t t { s.t t with allocated := true, temp := true, sub := .allocated } }
    | _ => none
  | .subFail =>
    match s.spc with
    | .sizing t => some { s with spc := .failing t, t := upd s.t t { s.t t with exc := true, subFailed := true, sub := .failing } }
    | _ => none
  | .subFailDone =>
    match s.spc with
    | .failing t => some { s with spc := .idle, t := upd s.t t { s.t t with done := true, sub := .failedDone } }
    | _ => none
  | .subAnnounce =>
    match s.spc with
    | .allocated t => some { s with spc := .putting t, t := upd s.t t { s.t t with announced := true, jobs := (s.t t).n, sub := .putting } }
    | _ => none
  | .subPut =>
    match s.spc with
    | .putting t =>
      if (s.t t).queued < (s.t t).n then
        some { s with workQ := s.workQ ++ [some t],
                      spc := if (s.t t).queued + 1 = (s.t t).n then .idle else .putting t,
                      t := upd s.t t { s.t t with queued := (s.t t).queued + 1,
                                                  sub := if (s.t t).queued + 1 = (s.t t).n then .queuedAll else .putting } }
      else none
    | _ => none
  | .wTake i =>
    if i < s.w ∧ s.wpc i = .idle then
      match s.workQ with
      | [] => none
      | none :: rest => some { s with wpc := upd s.wpc i .exited, workQ := rest }
      | some t :: rest => some { s with wpc := upd s.wpc i (.took t), workQ := rest,
                                        t := upd s.t t { s.t t with taken := (s.t t).taken + 1 } }
    else none
  | .wCheck i =>
    match s.wpc i with
    | .took t => some { s with wpc := upd s.wpc i (if (s.t t).exc then .ran t else .running t) }
    | _ => none
  | .wWrite i =>
    match s.wpc i with
    | .running t => if (s.t t).temp then
        some { s with wpc := upd s.wpc i (.ran t), t := upd s.t t { s.t t with written := (s.t t).written + 1 } } else none
    | _ => none
  | .wFail i =>
    match s.wpc i with
    | .running t => some { s with wpc := upd s.wpc i (.ran t), t := upd s.t t { s.t t with exc := true } }
    | _ => none
  | .wDec i =>
    match s.wpc i with
    | .ran t => some { s with wpc := upd s.wpc i (if (s.t t).jobs - 1 = 0 then .counted0 t else .idle),
                              t := upd s.t t { s.t t with jobs := (s.t t).jobs - 1, accounted := (s.t t).accounted + 1 } }
    | _ => none
  | .wFinCheck i =>
    match s.wpc i with
    | .counted0 t => some { s with wpc := upd s.wpc i (if (s.t t).exc then .finRemove t else .finRename t) }
    | _ => none
  | .wRemove i =>
    match s.wpc i with
    | .finRemove t => some { s with wpc := upd s.wpc i (.fsDone t), t := upd s.t t { s.t t with temp := false } }
    | _ => none
  | .wRename i ok =>
    match s.wpc i with
    | .finRename t =>
      if ok then some { s with wpc := upd s.wpc i (.fsDone t), t := upd s.t t { s.t t with temp := false, renamed := true } }
      else some { s with wpc := upd s.wpc i (.renameFailed t) }
    | _ => none
  | .wRenameExc i =>
    match s.wpc i with
    | .renameFailed t => some { s with wpc := upd s.wpc i (.finRemove t), t := upd s.t t { s.t t with exc := true } }
    | _ => none
  | .wDone i =>
    match s.wpc i with
    | .fsDone t => some { s with wpc := upd s.wpc i .idle, t := upd s.t t { s.t t with done := true } }
    | _ => none

def run (s : S) : List Label → Option S
  | [] => some s
  | l :: ls => match step s l with
    | none => none
    | some s' => run s' ls

end S3V.ProcPool
