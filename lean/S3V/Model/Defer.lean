/-
M1 / Defer — `download.DeferQueue` (the write-ordering queue of non-seekable destinations).

Mirrors the repaired `request_writes` (fix D2):
  * data below `next` is trimmed to its unseen suffix (dropped when there is none);
  * a chunk is ignored only when a chunk at least as long is already queued at its offset;
  * queued chunks are released while the smallest offset is `≤ next`, each cut to the part that
    has not been handed out yet (nothing is emitted for a chunk that is entirely stale, except
    that a chunk at exactly `next` is always emitted, as before — this keeps the single empty
    write of an empty body).
The heap is modelled as a list kept sorted by (offset, length); for data consistent with one
object that is the heap's pop order.
-/
namespace S3V.Defer

structure Entry (α : Type) where
  off  : Nat
  data : List α
  deriving Repr, DecidableEq

structure DQ (α : Type) where
  next  : Nat
  queue : List (Entry α)
  deriving Repr

def DQ.init {α : Type} : DQ α := { next := 0, queue := [] }

def Entry.before {α : Type} (a b : Entry α) : Bool :=
  a.off < b.off || (a.off == b.off && a.data.length ≤ b.data.length)

def insertSorted {α : Type} (e : Entry α) : List (Entry α) → List (Entry α)
  | [] => [e]
  | x :: xs => if e.before x then e :: x :: xs else x :: insertSorted e xs

/-- is a chunk at least as long already queued at this offset? (`_pending_offsets`) -/
def covered {α : Type} (q : List (Entry α)) (off len : Nat) : Bool :=
  q.any fun x => x.off == off && len ≤ x.data.length

/-- The `while self._writes and self._writes[0][0] <= self._next_offset` loop.
Returns `(next', remaining queue, writes emitted in order)`. -/
def popReady {α : Type} (next : Nat) : List (Entry α) → Nat × List (Entry α) × List (Entry α)
  | [] => (next, [], [])
  | e :: rest =>
    if e.off ≤ next then
      if next - e.off = 0 ∨ next - e.off < e.data.length then
        let r := popReady (next + (e.data.length - (next - e.off))) rest
        (r.1, r.2.1, { off := next, data := e.data.drop (next - e.off) } :: r.2.2)
      else popReady next rest
    else (next, e :: rest, [])

/-- `request_writes(offset, data)` → new queue state and the writes to issue, in order. -/
def requestWrites {α : Type} (q : DQ α) (off : Nat) (data : List α) : DQ α × List (Entry α) :=
  if off < q.next ∧ data.length ≤ q.next - off then (q, [])
  else
    let off'  := if off < q.next then q.next else off
    let data' := if off < q.next then data.drop (q.next - off) else data
    if covered q.queue off' data'.length then (q, [])
    else
      let r := popReady q.next (insertSorted { off := off', data := data' } q.queue)
      ({ next := r.1, queue := r.2.1 }, r.2.2)

/-- Run a delivery history; collects all emitted writes in order. -/
def runHistory {α : Type} (q : DQ α) : List (Nat × List α) → DQ α × List (Entry α)
  | [] => (q, [])
  | (off, d) :: rest =>
    let r := requestWrites q off d
    let r2 := runHistory r.1 rest
    (r2.1, r.2 ++ r2.2)

end S3V.Defer
