/-
M2 / Exec — one stage of the manager: `futures.BoundedExecutor` (a counting semaphore of
`max_size` permits in front of a `ThreadPoolExecutor` with `max_num_threads` workers and a FIFO
work queue).  A label is one observable event; `step` returns `none` when the label is not
enabled (a submitter facing a full stage is *blocked*: its label is simply not enabled — it
neither fails nor overruns).

`deps j` are the tasks whose futures task `j` waits for inside `Task.__call__`
(`_wait_on_dependent_futures`); a task can only finish when they have finished.
-/
namespace S3V.Exec

structure Exec where
  cap     : Nat            -- permits (max_*_queue_size, plus tag capacities for tagged tasks)
  workers : Nat            -- max_num_threads
  free    : Nat
  queue   : List Nat       -- submitted, not yet picked (FIFO)
  running : List Nat
  ended   : List Nat
  deps    : List (Nat × List Nat)
  deriving Repr, DecidableEq

inductive Label
  | submit (j : Nat) (deps : List Nat)
  | pick (j : Nat)
  | finish (j : Nat)
  deriving Repr, DecidableEq

def Exec.init (cap workers : Nat) : Exec :=
  { cap := cap, workers := workers, free := cap, queue := [], running := [], ended := [], deps := [] }

def depsOf (e : Exec) (j : Nat) : List Nat :=
  match e.deps.lookup j with
  | some d => d
  | none => []

def known (e : Exec) (j : Nat) : Bool := e.queue.contains j || e.running.contains j || e.ended.contains j

def step (e : Exec) : Label → Option Exec
  | .submit j d =>
    if e.free = 0 ∨ known e j then none
    else some { e with free := e.free - 1, queue := e.queue ++ [j], deps := (j, d) :: e.deps }
  | .pick j =>
    match e.queue with
    | [] => none
    | q :: rest =>
      if q = j ∧ e.running.length < e.workers then some { e with queue := rest, running := e.running ++ [j] }
      else none
  | .finish j =>
    if e.running.contains j ∧ (depsOf e j).all e.ended.contains then
      some { e with running := e.running.erase j, ended := e.ended ++ [j], free := e.free + 1 }
    else none

def run (e : Exec) : List Label → Option Exec
  | [] => some e
  | l :: ls => match step e l with
    | none => none
    | some e' => run e' ls

end S3V.Exec
