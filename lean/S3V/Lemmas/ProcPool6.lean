/- Preservation of the process-pool invariant: the finalizing worker. -/
import S3V.Lemmas.ProcPool5

namespace S3V.ProcPool

/-- a step of the finalizer of `u` that keeps it a finalizer: no count changes -/
theorem ti_fin_move (s : S) (i : Nat) (old new : WPc) (u t : Nat) (hi : i < s.w) (hpc : s.wpc i = old)
    (ho : holds t old = holds t new ∧ isRan t old = isRan t new ∧ isFin t old = isFin t new) :
    cntW s.w (upd s.wpc i new) (holds t) = cntW s.w s.wpc (holds t) ∧
    cntW s.w (upd s.wpc i new) (isRan t) = cntW s.w s.wpc (isRan t) ∧
    cntW s.w (upd s.wpc i new) (isFin t) = cntW s.w s.wpc (isFin t) := by
  obtain ⟨c1, c2, c3⟩ := cnt_move s i old new t hi hpc
  rw [ho.1] at c1; rw [ho.2.1] at c2; rw [ho.2.2] at c3
  exact ⟨by omega, by omega, by omega⟩

theorem inv_wFinCheck (s s' : S) (i : Nat) (h : Inv s) (hs : step s (.wFinCheck i) = some s') : Inv s' := by
  simp only [step] at hs
  split at hs
  · rename_i u hpc
    cases hs
    have hI := h
    obtain ⟨ti, wb, sl, sl', wf⟩ := h
    have hi : i < s.w := lt_w_of_ne_idle s hI i (by rw [hpc]; simp)
    have ff := fin_facts s hI i u (by rw [hpc]; simp [isFin])
    refine ⟨?_, wb_upd s i _ hi wb, sl, sl', ?_⟩
    · intro t
      have hm := ti_fin_move s i _ (if (s.t u).exc = true then WPc.finRemove u else WPc.finRename u) u t hi hpc
        (by cases (s.t u).exc <;> simp [holds, isRan, isFin])
      simp only [S.cnt]
      rw [hm.1, hm.2.1, hm.2.2]
      exact ti t
    · refine wf_others s _ i _ rfl (fun _ => rfl) (fun _ => Nat.le_refl _) (fun _ h => h) (fun _ h => h) (fun _ h => h) wf ?_
      cases hx : (s.t u).exc
      · have e := (ti u).e hx
        have : (s.t u).n ≤ (s.t u).written := by
          have h5 := ff.2.2.2.2.1
          have h2 := ff.2.1
          simp only [S.cnt] at h5 e
          omega
        simpa [wFact, upd, hx] using this
      · simp [wFact, upd, hx]
  · cases hs

theorem inv_wRemove (s s' : S) (i : Nat) (h : Inv s) (hs : step s (.wRemove i) = some s') : Inv s' := by
  simp only [step] at hs
  split at hs
  · rename_i u hpc
    cases hs
    have hI := h
    obtain ⟨ti, wb, sl, sl', wf⟩ := h
    have hi : i < s.w := lt_w_of_ne_idle s hI i (by rw [hpc]; simp)
    have ff := fin_facts s hI i u (by rw [hpc]; simp [isFin])
    have hexc : (s.t u).exc = true := by have := wf i; simpa [wFact, hpc] using this
    have lk := link_frame s { s with wpc := upd s.wpc i (.fsDone u), t := upd s.t u { s.t u with temp := false } } rfl
      (by intro v; by_cases e : v = u <;> simp [upd, e]) sl sl'
    refine ⟨?_, wb_upd s i _ hi wb, lk.1, lk.2, ?_⟩
    · intro t
      have hm := ti_fin_move s i _ (WPc.fsDone u) u t hi hpc (by simp [holds, isRan, isFin])
      simp only [S.cnt]
      rw [hm.1, hm.2.1, hm.2.2]
      by_cases e : t = u
      · subst e
        obtain ⟨a, q, c, nn, d, e, hh, f, rq, p0, p0', p1, p2, p3, p4, p5, p6, p7, p8, p9, p10, g2, g4, g5, g6⟩ := ti t
        have hsub : (s.t t).sub ≠ .none := sub_ne_none_of_announced s hI t ff.1
        simp only [S.cnt] at *
        simp only [upd, if_true]
        constructor
        case p0' => intro hn; exact absurd (p0.mpr hn) hsub
        all_goals (clear p0' hI ti wf sl sl' wb lk hm; tinv_field)
      · simpa [upd, e, S.cnt] using ti t
    · refine wf_others s _ i _ rfl ?_ ?_ ?_ ?_ ?_ wf (by simp [wFact, upd, hexc]) <;> intro v <;> by_cases e : v = u <;> simp [upd, e]
  · cases hs

theorem inv_wRename (s s' : S) (i : Nat) (ok : Bool) (h : Inv s) (hs : step s (.wRename i ok) = some s') : Inv s' := by
  simp only [step] at hs
  split at hs
  · rename_i u hpc
    have hI := h
    obtain ⟨ti, wb, sl, sl', wf⟩ := h
    have hi : i < s.w := lt_w_of_ne_idle s hI i (by rw [hpc]; simp)
    have ff := fin_facts s hI i u (by rw [hpc]; simp [isFin])
    have hwr : (s.t u).n ≤ (s.t u).written := by have := wf i; simpa [wFact, hpc] using this
    split at hs
    · cases hs
      have lk := link_frame s { s with wpc := upd s.wpc i (.fsDone u), t := upd s.t u { s.t u with temp := false, renamed := true } } rfl
        (by intro v; by_cases e : v = u <;> simp [upd, e]) sl sl'
      refine ⟨?_, wb_upd s i _ hi wb, lk.1, lk.2, ?_⟩
      · intro t
        have hm := ti_fin_move s i _ (WPc.fsDone u) u t hi hpc (by simp [holds, isRan, isFin])
        simp only [S.cnt]
        rw [hm.1, hm.2.1, hm.2.2]
        by_cases e : t = u
        · subst e
          obtain ⟨a, q, c, nn, d, e, hh, f, rq, p0, p0', p1, p2, p3, p4, p5, p6, p7, p8, p9, p10, g2, g4, g5, g6⟩ := ti t
          have hsub : (s.t t).sub ≠ .none := sub_ne_none_of_announced s hI t ff.1
          have hann := ff.1
          simp only [S.cnt] at *
          simp only [upd, if_true]
          constructor
          case p0' => intro hn; exact absurd (p0.mpr hn) hsub
          all_goals (clear p0' hI ti wf sl sl' wb lk hm; tinv_field)
        · simpa [upd, e, S.cnt] using ti t
      · refine wf_others s _ i _ rfl ?_ ?_ ?_ ?_ ?_ wf (by simp [wFact, upd]) <;> intro v <;> by_cases e : v = u <;> simp [upd, e]
    · cases hs
      refine ⟨?_, wb_upd s i _ hi wb, sl, sl', ?_⟩
      · intro t
        have hm := ti_fin_move s i _ (WPc.renameFailed u) u t hi hpc (by simp [holds, isRan, isFin])
        simp only [S.cnt]
        rw [hm.1, hm.2.1, hm.2.2]
        exact ti t
      · exact wf_others s _ i _ rfl (fun _ => rfl) (fun _ => Nat.le_refl _) (fun _ h => h) (fun _ h => h) (fun _ h => h) wf
          (by simp [wFact, upd])
  · cases hs

theorem inv_wRenameExc (s s' : S) (i : Nat) (h : Inv s) (hs : step s (.wRenameExc i) = some s') : Inv s' := by
  simp only [step] at hs
  split at hs
  · rename_i u hpc
    cases hs
    have hI := h
    obtain ⟨ti, wb, sl, sl', wf⟩ := h
    have hi : i < s.w := lt_w_of_ne_idle s hI i (by rw [hpc]; simp)
    have ff := fin_facts s hI i u (by rw [hpc]; simp [isFin])
    have lk := link_frame s { s with wpc := upd s.wpc i (.finRemove u), t := upd s.t u { s.t u with exc := true } } rfl
      (by intro v; by_cases e : v = u <;> simp [upd, e]) sl sl'
    refine ⟨?_, wb_upd s i _ hi wb, lk.1, lk.2, ?_⟩
    · intro t
      have hm := ti_fin_move s i _ (WPc.finRemove u) u t hi hpc (by simp [holds, isRan, isFin])
      simp only [S.cnt]
      rw [hm.1, hm.2.1, hm.2.2]
      by_cases e : t = u
      · subst e
        simpa [upd, S.cnt] using TInv_exc _ _ _ _ _ _ _ _ (ti t) (sub_ne_none_of_announced s hI t ff.1)
      · simpa [upd, e, S.cnt] using ti t
    · refine wf_others s _ i _ rfl ?_ ?_ ?_ ?_ ?_ wf (by simp [wFact, upd]) <;> intro v <;> by_cases e : v = u <;> simp [upd, e]
  · cases hs

theorem inv_wDone (s s' : S) (i : Nat) (h : Inv s) (hs : step s (.wDone i) = some s') : Inv s' := by
  simp only [step] at hs
  split at hs
  · rename_i u hpc
    cases hs
    have hI := h
    obtain ⟨ti, wb, sl, sl', wf⟩ := h
    have hi : i < s.w := lt_w_of_ne_idle s hI i (by rw [hpc]; simp)
    have ff := fin_facts s hI i u (by rw [hpc]; simp [isFin])
    have hown : (s.t u).temp = false ∧ ((s.t u).exc = false → (s.t u).renamed = true) := by
      have := wf i; simpa [wFact, hpc] using this
    have lk := link_frame s { s with wpc := upd s.wpc i .idle, t := upd s.t u { s.t u with done := true } } rfl
      (by intro v; by_cases e : v = u <;> simp [upd, e]) sl sl'
    refine ⟨?_, wb_upd s i _ hi wb, lk.1, lk.2, ?_⟩
    · intro t
      by_cases e : t = u
      · subst e
        obtain ⟨c1, c2, c3⟩ := cnt_move s i _ WPc.idle t hi hpc
        obtain ⟨a, q, c, nn, d, e, hh, f, rq, p0, p0', p1, p2, p3, p4, p5, p6, p7, p8, p9, p10, g2, g4, g5, g6⟩ := ti t
        have hsub : (s.t t).sub ≠ .none := sub_ne_none_of_announced s hI t ff.1
        obtain ⟨hann, hacc, hnd, -, -, -, hph⟩ := ff
        simp only [S.cnt] at *
        simp [holds, isRan, isFin] at c1 c2 c3
        simp only [upd, if_true]
        rw [c1, c2]
        constructor
        case p0' => intro hn; exact absurd (p0.mpr hn) hsub
        case f =>
          show _ + (if true = true ∧ (s.t t).announced = true then 1 else 0) = (if (s.t t).announced = true ∧ (s.t t).accounted = (s.t t).n then 1 else 0)
          rw [if_pos ⟨rfl, hann⟩, if_pos ⟨hann, hacc⟩]
          have hdn : ¬((s.t t).done = true ∧ (s.t t).announced = true) := by simp [hnd]
          rw [if_neg hdn, if_pos ⟨hann, hacc⟩] at f
          omega
        all_goals (clear p0' hI ti wf sl sl' wb lk; tinv_field)
      · have r := refs_other u t e
        exact ti_other s i _ _ u t _ s.workQ hi hpc e r.2.2.2.2.2.2.2.1 r.2.2.2.2.2.2.2.2.1 rfl (ti t)
    · refine wf_others s _ i _ rfl ?_ ?_ ?_ ?_ ?_ wf (by simp [wFact, upd]) <;> intro v <;> by_cases e : v = u <;> simp [upd, e]
  · cases hs

end S3V.ProcPool
