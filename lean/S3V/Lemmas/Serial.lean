import S3V.Model.Serial

namespace S3V.Serial

/-! ### what the theorems need from the tables -/

def flag (o : Option Row) (f : Row → Bool) : Option Bool := o.map f

/-- the behaviour of the four layers that the theorems rest on; `current_sound` checks it for the
tables generated from the source -/
structure Sound (T : Tables) : Prop where
  ordRecorded : flag (findHandler T.task .ordinary) (·.2.1) = some true
  ordStops : flag (findHandler T.task .ordinary) (·.2.2.1) = some false
  baseRecorded : flag (findHandler T.task .base) (·.2.1) = some true
  baseGoesOn : flag (findHandler T.task .base) (·.2.2.1) = some true
  callbacks : T.finallyCallbacks = true
  announces : T.finallyAnnounces = true
  skips : T.skipsWhenDone = true
  execLetsBaseThrough : findHandler T.exec .base = none
  boundedReleases : flag (findHandler T.bounded .base) (·.2.2.2) = some true
  boundedReraises : flag (findHandler T.bounded .base) (·.2.2.1) = some true
  subRecords : flag (findHandler T.submission .base) (·.2.1) = some true
  subKeeps : flag (findHandler T.submission .base) (·.2.2.1) = some false
  subAnnounces : flag (findHandler T.submission .base) (·.2.2.2) = some true

theorem current_sound : Sound Tables.current := by
  constructor <;> decide

/-! ### the specification: no tables -/

def St.mark (s : St) (id : Nat) : St := { s with ran := s.ran ++ [id] }
def St.withP (s : St) (p : Int) : St := { s with permits := p }

def specBody (id : Nat) (isFinal : Bool) (out : Out) (s : St) : St × Option Exc :=
  if s.done then (s, none)
  else match out with
    | .ok => (if isFinal then (s.mark id).setResult else s.mark id, none)
    | .raise .ordinary => ((s.mark id).setExc .ordinary, none)
    | .raise .base => ((s.mark id).setExc .base, some .base)

def annIf (b : Bool) (s : St) : St := if b then s.announce else s

def specInner (t : Inner) (s : St) : St × Option Exc :=
  (annIf t.isFinal (specBody t.id t.isFinal t.out s).1, (specBody t.id t.isFinal t.out s).2)

def specTask (t : Task) (s : St) : St × Option Exc :=
  match t.after with
  | none => (annIf t.isFinal (specBody t.id t.isFinal t.out s).1, (specBody t.id t.isFinal t.out s).2)
  | some i =>
    match (specInner i (specBody t.id t.isFinal t.out s).1).2 with
    | some e => ((specInner i (specBody t.id t.isFinal t.out s).1).1, some e)
    | none => (annIf t.isFinal (specInner i (specBody t.id t.isFinal t.out s).1).1, (specBody t.id t.isFinal t.out s).2)

def specAll : List Task → St → St × Option Exc
  | [], s => (s, none)
  | t :: rest, s =>
    match (specTask t s).2 with
    | some e => ((specTask t s).1, some e)
    | none => specAll rest (specTask t s).1

def specSubmission (plan : List Task) (s : St) : St × Option Exc :=
  match (specAll plan s).2 with
  | none => ((specAll plan s).1, none)
  | some e => (((specAll plan s).1.setExc e).announce, none)



/-! ### refinement: under `Sound` tables the layered interpreter is the specification -/

theorem flag_some {o : Option Row} {f : Row → Bool} {b : Bool} (h : flag o f = some b) : ∃ r, o = some r ∧ f r = b := by
  unfold flag at h
  cases o with
  | none => simp at h
  | some r => exact ⟨r, rfl, by simpa using h⟩

theorem taskBody_eq (T : Tables) (h : Sound T) (id : Nat) (fin : Bool) (out : Out) (s : St) :
    taskBody T id fin out s = specBody id fin out s := by
  unfold taskBody specBody
  simp only [h.skips, Bool.true_and]
  by_cases hd : s.done = true
  · simp [hd]
  · simp only [hd, Bool.false_eq_true, if_false]
    cases out with
    | ok => rfl
    | raise e =>
      cases e with
      | ordinary =>
        obtain ⟨r, hr, h1⟩ := flag_some h.ordRecorded
        obtain ⟨r', hr', h2⟩ := flag_some h.ordStops
        rw [hr] at hr'; cases hr'
        simp [hr, h1, h2, St.mark]
      | base =>
        obtain ⟨r, hr, h1⟩ := flag_some h.baseRecorded
        obtain ⟨r', hr', h2⟩ := flag_some h.baseGoesOn
        rw [hr] at hr'; cases hr'
        simp [hr, h1, h2, St.mark]

theorem taskCallInner_eq (T : Tables) (h : Sound T) (t : Inner) (s : St) :
    taskCallInner T t s = specInner t s := by
  unfold taskCallInner specInner annIf
  rw [taskBody_eq T h]
  simp [h.announces]

theorem taskCall_eq (T : Tables) (h : Sound T) (t : Task) (s : St) : taskCall T t s = specTask t s := by
  unfold taskCall specTask annIf
  simp only [h.callbacks, if_true, taskBody_eq T h, taskCallInner_eq T h, h.announces, Bool.and_true]
  all_goals (cases t.after <;> rfl)

/-- what a task leaves pending is nothing or a `base` exception -/
theorem specBody_pending (id : Nat) (fin : Bool) (out : Out) (s : St) :
    (specBody id fin out s).2 = none ∨ (specBody id fin out s).2 = some .base := by
  unfold specBody
  split
  · left; rfl
  · cases out with
    | ok => left; rfl
    | raise e => cases e <;> simp

theorem specTask_pending (t : Task) (s : St) : (specTask t s).2 = none ∨ (specTask t s).2 = some .base := by
  unfold specTask
  cases t.after with
  | none => exact specBody_pending ..
  | some i =>
    simp only
    have hi := specBody_pending i.id i.isFinal i.out (specBody t.id t.isFinal t.out s).1
    cases hc : (specInner i (specBody t.id t.isFinal t.out s).1).2 with
    | none => simp only; exact specBody_pending ..
    | some e =>
      simp only
      unfold specInner at hc
      simp only at hc
      rcases hi with hi | hi
      · rw [hi] at hc; cases hc
      · rw [hi] at hc; right; rw [← hc]

/-! permits are touched by `boundedSubmit` only: everything else commutes with setting them -/

theorem specBody_frame (id : Nat) (fin : Bool) (out : Out) (s : St) (p : Int) :
    specBody id fin out (s.withP p) = ((specBody id fin out s).1.withP p, (specBody id fin out s).2) := by
  by_cases hd : s.done = true
  · have : (s.withP p).done = true := by simpa [St.done, St.withP] using hd
    simp [specBody, hd, this]
  · have hE : s.exc = none := by
      cases he : s.exc with
      | none => rfl
      | some e => simp [St.done, he] at hd
    have hS : s.success = false := by
      cases hs : s.success with
      | false => rfl
      | true => simp [St.done, hs] at hd
    cases out with
    | ok => cases fin <;> simp [specBody, St.withP, St.done, St.mark, St.setResult, hE, hS]
    | raise e => cases e <;> simp [specBody, St.withP, St.done, St.mark, St.setExc, hE, hS]

theorem annIf_frame (b : Bool) (s : St) (p : Int) : annIf b (s.withP p) = (annIf b s).withP p := by
  unfold annIf St.announce St.withP; cases b <;> simp

theorem specInner_frame (t : Inner) (s : St) (p : Int) :
    specInner t (s.withP p) = ((specInner t s).1.withP p, (specInner t s).2) := by
  unfold specInner
  rw [specBody_frame]
  simp [annIf_frame]

theorem specTask_frame (t : Task) (s : St) (p : Int) :
    specTask t (s.withP p) = ((specTask t s).1.withP p, (specTask t s).2) := by
  unfold specTask
  cases t.after with
  | none => simp [specBody_frame, annIf_frame]
  | some i =>
    simp only [specBody_frame, specInner_frame]
    cases (specInner i (specBody t.id t.isFinal t.out s).1).2 <;> simp [annIf_frame]

theorem withP_self (s : St) : s.withP s.permits = s := rfl
theorem withP_withP (s : St) (p q : Int) : (s.withP p).withP q = s.withP q := rfl
theorem withP_permits (s : St) (p : Int) : (s.withP p).permits = p := rfl

/-- `BoundedExecutor.submit` over the serial executor is transparent for a run that leaves nothing
or a `base` exception pending and does not touch the permits: the permit is taken, and given back
either through the future or by the `except` clause -/
theorem boundedSubmit_eq (T : Tables) (h : Sound T) (run : St → St × Option Exc)
    (hp : ∀ s, (run s).2 = none ∨ (run s).2 = some .base)
    (hf : ∀ s p, run (s.withP p) = ((run s).1.withP p, (run s).2)) (s : St) :
    boundedSubmit T run s = run s := by
  have hbal : (run s).1.permits = s.permits := by
    have := hf s s.permits
    rw [withP_self] at this
    have h1 : (run s).1 = (run s).1.withP s.permits := congrArg Prod.fst this
    rw [h1]; rfl
  have hrun : run { s with permits := s.permits + 1 } = ((run s).1.withP (s.permits + 1), (run s).2) := hf s (s.permits + 1)
  unfold boundedSubmit execSubmit
  simp only [hrun]
  rcases hp s with h0 | h0
  · rw [h0]
    simp only
    apply Prod.ext
    · simp only [St.withP]
      have : s.permits + 1 - 1 = (run s).1.permits := by rw [hbal]; omega
      simp [this]
    · simp [h0]
  · rw [h0]
    simp only [h.execLetsBaseThrough]
    obtain ⟨r, hr, h1⟩ := flag_some h.boundedReleases
    obtain ⟨r', hr', h2⟩ := flag_some h.boundedReraises
    rw [hr] at hr'; cases hr'
    simp only [hr, h1, h2, if_true]
    apply Prod.ext
    · simp only [St.withP]
      have : s.permits + 1 - 1 = (run s).1.permits := by rw [hbal]; omega
      simp [this]
    · simp [h0]

theorem submitAll_eq (T : Tables) (h : Sound T) (plan : List Task) (s : St) : submitAll T plan s = specAll plan s := by
  induction plan generalizing s with
  | nil => rfl
  | cons t rest ih =>
    have hb : boundedSubmit T (taskCall T t) s = specTask t s := by
      rw [boundedSubmit_eq T h (taskCall T t)]
      · exact taskCall_eq T h t s
      · intro s; rw [taskCall_eq T h]; exact specTask_pending t s
      · intro s p; rw [taskCall_eq T h, taskCall_eq T h]; exact specTask_frame t s p
    unfold submitAll specAll
    rw [hb]
    cases (specTask t s).2 with
    | none => exact ih _
    | some e => rfl

theorem specAll_pending (plan : List Task) (s : St) : (specAll plan s).2 = none ∨ (specAll plan s).2 = some .base := by
  induction plan generalizing s with
  | nil => left; rfl
  | cons t rest ih =>
    unfold specAll
    rcases specTask_pending t s with h0 | h0
    · rw [h0]; exact ih _
    · rw [h0]; right; rfl

theorem specAll_frame (plan : List Task) (s : St) (p : Int) :
    specAll plan (s.withP p) = ((specAll plan s).1.withP p, (specAll plan s).2) := by
  induction plan generalizing s with
  | nil => rfl
  | cons t rest ih =>
    unfold specAll
    rw [specTask_frame]
    cases (specTask t s).2 with
    | none => exact ih _
    | some e => rfl

theorem submission_eq (T : Tables) (h : Sound T) (plan : List Task) (s : St) :
    submission T plan s = specSubmission plan s := by
  unfold submission specSubmission
  rw [submitAll_eq T h]
  rcases specAll_pending plan s with h0 | h0
  · rw [h0]
  · rw [h0]
    obtain ⟨r, hr, h1⟩ := flag_some h.subRecords
    obtain ⟨r', hr', h2⟩ := flag_some h.subKeeps
    obtain ⟨r'', hr'', h3⟩ := flag_some h.subAnnounces
    rw [hr] at hr' hr''; cases hr'; cases hr''
    simp [hr, h1, h2, h3]

theorem specSubmission_frame (plan : List Task) (s : St) (p : Int) :
    specSubmission plan (s.withP p) = ((specSubmission plan s).1.withP p, (specSubmission plan s).2) := by
  unfold specSubmission
  rw [specAll_frame]
  cases (specAll plan s).2 with
  | none => rfl
  | some e => simp [St.setExc, St.announce, St.withP, St.done]; split <;> simp

/-- **Refinement.** With the tables of the source the manager call is the specification run -/
theorem manager_eq (T : Tables) (h : Sound T) (plan : List Task) : manager T plan = specSubmission plan {} := by
  unfold manager
  rw [boundedSubmit_eq T h (submission T plan)]
  · exact submission_eq T h plan {}
  · intro s; rw [submission_eq T h]; unfold specSubmission
    cases (specAll plan s).2 <;> simp
  · intro s p; rw [submission_eq T h, submission_eq T h]; exact specSubmission_frame plan s p



/-! ### what the specification guarantees -/

def outsOf (t : Task) : List Out :=
  t.out :: (match t.after with | some i => [i.out] | none => [])

/-- the outcomes of all mains of a transfer, in the order in which a serial manager reaches them -/
def allOuts : List Task → List Out
  | [] => []
  | t :: rest => outsOf t ++ allOuts rest

def firstFailure : List Out → Option Exc
  | [] => none
  | .ok :: rest => firstFailure rest
  | .raise e :: _ => some e

def orElse' : Option Exc → Option Exc → Option Exc
  | some e, _ => some e
  | none, y => y

theorem firstFailure_append (a b : List Out) : firstFailure (a ++ b) = orElse' (firstFailure a) (firstFailure b) := by
  induction a with
  | nil => simp [firstFailure, orElse']
  | cons o rest ih => cases o <;> simp [firstFailure, orElse', ih]

theorem allOuts_append (a b : List Task) : allOuts (a ++ b) = allOuts a ++ allOuts b := by
  induction a with
  | nil => rfl
  | cons t rest ih => simp [allOuts, ih]

theorem specAll_append (l1 l2 : List Task) (s : St) :
    specAll (l1 ++ l2) s = match (specAll l1 s).2 with
      | some e => ((specAll l1 s).1, some e)
      | none => specAll l2 (specAll l1 s).1 := by
  induction l1 generalizing s with
  | nil => simp [specAll]
  | cons t rest ih =>
    simp only [List.cons_append, specAll]
    cases h : (specTask t s).2 with
    | none => simp only; exact ih _
    | some e => simp

/-- the plans a manager builds: tasks that are not final, then either a final task or (single-request
download) a task whose done callback is the final task -/
structure WF (plan : List Task) : Prop where
  shape : ∃ pre last, plan = pre ++ [last] ∧ (∀ t ∈ pre, t.isFinal = false ∧ t.after = none) ∧
    ((last.isFinal = true ∧ last.after = none) ∨
     (last.isFinal = false ∧ ∃ i, last.after = some i ∧ i.isFinal = true))

/-- the coordinator while the submission loop is in the non-final tasks -/
structure Mid (s : St) (f : Option Exc) : Prop where
  success : s.success = false
  announced : s.announced = 0
  cleaned : s.cleaned = false
  exc : s.exc = f
  permits : s.permits = 0

theorem setExc_of_not_done (s : St) (e : Exc) (h : s.done = false) : s.setExc e = { s with exc := some e } := by
  simp [St.setExc, h]

theorem mid_done (s : St) (f : Option Exc) (h : Mid s f) : s.done = f.isSome := by
  simp [St.done, h.success, h.exc]

theorem pre_loop (pre : List Task) (hpre : ∀ t ∈ pre, t.isFinal = false ∧ t.after = none) (s : St) (f : Option Exc)
    (h : Mid s f) :
    ((specAll pre s).2 = none ∧ Mid (specAll pre s).1 (orElse' f (firstFailure (allOuts pre)))) ∨
    ((specAll pre s).2 = some .base ∧ f = none ∧ firstFailure (allOuts pre) = some .base ∧ Mid (specAll pre s).1 (some .base)) := by
  induction pre generalizing s f with
  | nil => left; exact ⟨rfl, by cases f <;> simpa [specAll, allOuts, firstFailure, orElse'] using h⟩
  | cons t rest ih =>
    obtain ⟨hfin, haft⟩ := hpre t (by simp)
    have hrest : ∀ t ∈ rest, t.isFinal = false ∧ t.after = none := fun u hu => hpre u (by simp [hu])
    have hd := mid_done s f h
    simp only [specAll, allOuts, outsOf, haft, firstFailure_append]
    cases f with
    | some e0 =>
      -- already failed: the task is skipped
      have hst : specTask t s = (s, none) := by
        simp [specTask, haft, specBody, hd, annIf, hfin]
      rw [hst]
      simp only
      rcases ih hrest s (some e0) h with h1 | h1
      · left; exact ⟨h1.1, by simpa [orElse'] using h1.2⟩
      · exact absurd h1.2.1 (by simp)
    | none =>
      cases hout : t.out with
      | ok =>
        have hst : specTask t s = (s.mark t.id, none) := by
          simp [specTask, haft, specBody, hd, annIf, hfin, hout]
        rw [hst]
        simp only [firstFailure]
        have hm : Mid (s.mark t.id) none := ⟨h.success, h.announced, h.cleaned, h.exc, h.permits⟩
        rcases ih hrest (s.mark t.id) none hm with h1 | h1
        · left; exact ⟨h1.1, by simpa [orElse', List.nil_append] using h1.2⟩
        · right; exact ⟨h1.1, by simp, by simpa [orElse'] using h1.2.2.1, h1.2.2.2⟩
      | raise e =>
        have hmd : (s.mark t.id).done = false := by simpa [St.done, St.mark] using hd
        cases e with
        | ordinary =>
          have hst : specTask t s = ((s.mark t.id).setExc .ordinary, none) := by
            simp [specTask, haft, specBody, hd, annIf, hfin, hout]
          rw [hst]
          simp only [firstFailure]
          have hm : Mid ((s.mark t.id).setExc .ordinary) (some .ordinary) := by
            rw [setExc_of_not_done _ _ hmd]
            exact ⟨h.success, h.announced, h.cleaned, rfl, h.permits⟩
          rcases ih hrest _ (some .ordinary) hm with h1 | h1
          · left; exact ⟨h1.1, by simpa [orElse'] using h1.2⟩
          · exact absurd h1.2.1 (by simp)
        | base =>
          have hst : specTask t s = ((s.mark t.id).setExc .base, some .base) := by
            simp [specTask, haft, specBody, hd, annIf, hfin, hout]
          rw [hst]
          simp only [firstFailure]
          right
          refine ⟨by simp, by simp, by simp [orElse'], ?_⟩
          rw [setExc_of_not_done _ _ hmd]
          exact ⟨h.success, h.announced, h.cleaned, rfl, h.permits⟩



/-- the last task of a well-formed plan, started in a mid-loop state -/
theorem last_step (last : Task) (s : St) (f : Option Exc) (h : Mid s f)
    (hl : (last.isFinal = true ∧ last.after = none) ∨
          (last.isFinal = false ∧ ∃ i, last.after = some i ∧ i.isFinal = true)) :
    let r := specSubmission [last] s
    r.2 = none ∧ r.1.permits = 0 ∧ 1 ≤ r.1.announced ∧
    r.1.exc = orElse' f (firstFailure (outsOf last)) ∧
    r.1.success = (orElse' f (firstFailure (outsOf last))).isNone ∧ r.1.cleaned = !r.1.success := by
  obtain ⟨exc, success, announced, cleaned, permits, ran, stopped⟩ := s
  obtain ⟨h1, h2, h3, h4, h5⟩ := h
  simp only at h1 h2 h3 h4 h5
  subst h1 h2 h3 h4 h5
  obtain ⟨id, isFinal, out, after⟩ := last
  rcases hl with ⟨hf, ha⟩ | ⟨hf, i, ha, hi⟩
  · simp only at hf ha
    subst hf ha
    cases exc with
    | some e0 =>
      simp [specSubmission, specAll, specTask, specBody, annIf, St.done, St.announce, outsOf, orElse']
    | none =>
      cases out with
      | ok => simp [specSubmission, specAll, specTask, specBody, annIf, St.done, St.announce, St.mark, St.setResult, outsOf, orElse', firstFailure]
      | raise e =>
        cases e <;>
          simp [specSubmission, specAll, specTask, specBody, annIf, St.done, St.announce, St.mark, St.setExc, outsOf, orElse', firstFailure]
  · simp only at hf ha
    subst hf ha
    obtain ⟨iid, ifin, iout⟩ := i
    simp only at hi
    subst hi
    cases exc with
    | some e0 =>
      simp [specSubmission, specAll, specTask, specInner, specBody, annIf, St.done, St.announce, outsOf, orElse']
    | none =>
      cases out with
      | ok =>
        cases iout with
        | ok => simp [specSubmission, specAll, specTask, specInner, specBody, annIf, St.done, St.announce, St.mark, St.setResult, outsOf, orElse', firstFailure]
        | raise e =>
          cases e <;>
            simp [specSubmission, specAll, specTask, specInner, specBody, annIf, St.done, St.announce, St.mark, St.setExc, outsOf, orElse', firstFailure]
      | raise e =>
        cases e <;>
          simp [specSubmission, specAll, specTask, specInner, specBody, annIf, St.done, St.announce, St.mark, St.setExc, outsOf, orElse', firstFailure]



theorem orElse'_none (x : Option Exc) : orElse' none x = x := by cases x <;> rfl

/-- **Outcome of a transfer on a serial manager (specification level).** -/
theorem spec_outcome (plan : List Task) (hwf : WF plan) :
    (specSubmission plan {}).2 = none ∧ (specSubmission plan {}).1.permits = 0 ∧
    1 ≤ (specSubmission plan {}).1.announced ∧
    (specSubmission plan {}).1.exc = firstFailure (allOuts plan) ∧
    (specSubmission plan {}).1.success = (firstFailure (allOuts plan)).isNone ∧
    (specSubmission plan {}).1.cleaned = !(specSubmission plan {}).1.success := by
  obtain ⟨pre, last, rfl, hpre, hl⟩ := hwf.shape
  have h0 : Mid ({} : St) none := ⟨rfl, rfl, rfl, rfl, rfl⟩
  have hff : firstFailure (allOuts (pre ++ [last])) = orElse' (firstFailure (allOuts pre)) (firstFailure (outsOf last)) := by
    rw [allOuts_append, firstFailure_append]; simp [allOuts]
  rcases pre_loop pre hpre {} none h0 with ⟨hp, hm⟩ | ⟨hp, _, hf, hm⟩
  · rw [orElse'_none] at hm
    have hs : specSubmission (pre ++ [last]) {} = specSubmission [last] (specAll pre {}).1 := by
      unfold specSubmission
      rw [specAll_append, hp]
    rw [hs, hff]
    exact last_step last _ _ hm hl
  · have hs : specSubmission (pre ++ [last]) {} = (((specAll pre {}).1.setExc .base).announce, none) := by
      unfold specSubmission
      rw [specAll_append, hp]
    rw [hs, hff, hf]
    have hd : (specAll pre {}).1.done = true := by rw [mid_done _ _ hm]; rfl
    simp [St.setExc, hd, St.announce, hm.permits, hm.announced, hm.exc, hm.success, hm.cleaned, orElse']

/-! ### nothing runs after the first failure -/

def mainsOfTask (t : Task) : List (Nat × Out) :=
  (t.id, t.out) :: (match t.after with | some i => [(i.id, i.out)] | none => [])

def mainsOf : List Task → List (Nat × Out)
  | [] => []
  | t :: rest => mainsOfTask t ++ mainsOf rest

/-- the mains up to and including the first one that raises -/
def ranOf : List (Nat × Out) → List Nat
  | [] => []
  | (id, .ok) :: rest => id :: ranOf rest
  | (id, .raise _) :: _ => [id]

def allOk : List (Nat × Out) → Bool
  | [] => true
  | (_, .ok) :: rest => allOk rest
  | (_, .raise _) :: _ => false

/-- what is appended to `ran` from a state whose recorded failure is `f` -/
def tailRan (f : Option Exc) (l : List Nat) : List Nat :=
  match f with
  | some _ => []
  | none => l

theorem ranOf_append (a b : List (Nat × Out)) :
    ranOf (a ++ b) = ranOf a ++ (bif allOk a then ranOf b else []) := by
  induction a with
  | nil => simp [ranOf, allOk]
  | cons x rest ih =>
    obtain ⟨id, o⟩ := x
    cases o with
    | ok => simp [ranOf, allOk, ih]
    | raise e => simp [ranOf, allOk]

theorem mainsOf_append (a b : List Task) : mainsOf (a ++ b) = mainsOf a ++ mainsOf b := by
  induction a with
  | nil => rfl
  | cons t rest ih => simp [mainsOf, ih]

theorem firstFailure_none_iff (pre : List Task) :
    firstFailure (allOuts pre) = none ↔ allOk (mainsOf pre) = true := by
  induction pre with
  | nil => simp [allOuts, firstFailure, mainsOf, allOk]
  | cons t rest ih =>
    obtain ⟨id, fin, o, aft⟩ := t
    cases aft with
    | none =>
      cases o with
      | ok => simpa [allOuts, outsOf, firstFailure, mainsOf, mainsOfTask, allOk] using ih
      | raise e => simp [allOuts, outsOf, firstFailure, mainsOf, mainsOfTask, allOk]
    | some i =>
      obtain ⟨iid, ifin, io⟩ := i
      cases o with
      | ok =>
        cases io with
        | ok => simpa [allOuts, outsOf, firstFailure, mainsOf, mainsOfTask, allOk] using ih
        | raise e => simp [allOuts, outsOf, firstFailure, mainsOf, mainsOfTask, allOk]
      | raise e => simp [allOuts, outsOf, firstFailure, mainsOf, mainsOfTask, allOk]

theorem pre_ran (pre : List Task) (hpre : ∀ t ∈ pre, t.isFinal = false ∧ t.after = none) (s : St) (f : Option Exc)
    (h : Mid s f) :
    (specAll pre s).1.ran = s.ran ++ tailRan f (ranOf (mainsOf pre)) := by
  induction pre generalizing s f with
  | nil => cases f <;> simp [specAll, mainsOf, ranOf, tailRan]
  | cons t rest ih =>
    obtain ⟨hfin, haft⟩ := hpre t (by simp)
    have hrest : ∀ t ∈ rest, t.isFinal = false ∧ t.after = none := fun u hu => hpre u (by simp [hu])
    have hd := mid_done s f h
    simp only [specAll, mainsOf, mainsOfTask, haft, tailRan]
    cases f with
    | some e0 =>
      have hst : specTask t s = (s, none) := by simp [specTask, haft, specBody, hd, annIf, hfin]
      rw [hst]
      simpa [tailRan] using ih hrest s (some e0) h
    | none =>
      cases hout : t.out with
      | ok =>
        have hst : specTask t s = (s.mark t.id, none) := by simp [specTask, haft, specBody, hd, annIf, hfin, hout]
        rw [hst]
        have hm : Mid (s.mark t.id) none := ⟨h.success, h.announced, h.cleaned, h.exc, h.permits⟩
        have := ih hrest (s.mark t.id) none hm
        simp only [tailRan] at this ⊢
        rw [this]
        simp [St.mark, ranOf]
      | raise e =>
        have hmd : (s.mark t.id).done = false := by simpa [St.done, St.mark] using hd
        cases e with
        | ordinary =>
          have hst : specTask t s = ((s.mark t.id).setExc .ordinary, none) := by
            simp [specTask, haft, specBody, hd, annIf, hfin, hout]
          rw [hst]
          have hm : Mid ((s.mark t.id).setExc .ordinary) (some .ordinary) := by
            rw [setExc_of_not_done _ _ hmd]
            exact ⟨h.success, h.announced, h.cleaned, rfl, h.permits⟩
          have := ih hrest _ (some .ordinary) hm
          simp only [tailRan] at this ⊢
          rw [this, setExc_of_not_done _ _ hmd]
          simp [St.mark, ranOf]
        | base =>
          have hst : specTask t s = ((s.mark t.id).setExc .base, some .base) := by
            simp [specTask, haft, specBody, hd, annIf, hfin, hout]
          rw [hst]
          simp only
          rw [setExc_of_not_done _ _ hmd]
          simp [St.mark, ranOf]

theorem last_ran (last : Task) (s : St) (f : Option Exc) (h : Mid s f)
    (hl : (last.isFinal = true ∧ last.after = none) ∨
          (last.isFinal = false ∧ ∃ i, last.after = some i ∧ i.isFinal = true)) :
    (specSubmission [last] s).1.ran = s.ran ++ tailRan f (ranOf (mainsOfTask last)) := by
  obtain ⟨exc, success, announced, cleaned, permits, ran, stopped⟩ := s
  obtain ⟨h1, h2, h3, h4, h5⟩ := h
  simp only at h1 h2 h3 h4 h5
  subst h1 h2 h3 h4 h5
  obtain ⟨id, isFinal, out, after⟩ := last
  rcases hl with ⟨hf, ha⟩ | ⟨hf, i, ha, hi⟩
  · simp only at hf ha
    subst hf ha
    cases exc with
    | some e0 => simp [specSubmission, specAll, specTask, specBody, annIf, St.done, St.announce, tailRan]
    | none =>
      cases out with
      | ok => simp [specSubmission, specAll, specTask, specBody, annIf, St.done, St.announce, St.mark, St.setResult, mainsOfTask, ranOf, tailRan]
      | raise e =>
        cases e <;>
          simp [specSubmission, specAll, specTask, specBody, annIf, St.done, St.announce, St.mark, St.setExc, mainsOfTask, ranOf, tailRan]
  · simp only at hf ha
    subst hf ha
    obtain ⟨iid, ifin, iout⟩ := i
    simp only at hi
    subst hi
    cases exc with
    | some e0 => simp [specSubmission, specAll, specTask, specInner, specBody, annIf, St.done, St.announce, tailRan]
    | none =>
      cases out with
      | ok =>
        cases iout with
        | ok => simp [specSubmission, specAll, specTask, specInner, specBody, annIf, St.done, St.announce, St.mark, St.setResult, mainsOfTask, ranOf, tailRan]
        | raise e =>
          cases e <;>
            simp [specSubmission, specAll, specTask, specInner, specBody, annIf, St.done, St.announce, St.mark, St.setExc, mainsOfTask, ranOf, tailRan]
      | raise e =>
        cases e <;>
          simp [specSubmission, specAll, specTask, specInner, specBody, annIf, St.done, St.announce, St.mark, St.setExc, mainsOfTask, ranOf, tailRan]


end S3V.Serial
