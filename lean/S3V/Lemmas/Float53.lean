/-
Lemmas for S3V.Model.Float53 (C14): the binary64 quotient `fdiv a b` of two positive integers has relative
error at most 2^-53 (`fdiv_err`), is exact when the quotient is an integer below 2^53 (`fdiv_exact`), and
therefore `math.ceil(a / float(b))` is the exact ceiling for a < 2^53 (`fceil_eq`).
-/
import S3V.Model.Float53
import Mathlib.Tactic.Linarith
import Mathlib.Tactic.FieldSimp
import Mathlib.Tactic.Positivity
import Mathlib.Tactic.NormNum
import Mathlib.Tactic.Ring
import Mathlib.Algebra.Order.Field.Power
import Mathlib.Data.Rat.Cast.Order
import Mathlib.Data.Nat.Cast.Field

namespace S3V.Float53

theorem rne_bounds (N D : Nat) (hD : 0 < D) :
    2 * (rne N D * D) ≤ 2 * N + D ∧ 2 * N ≤ 2 * (rne N D * D) + D := by
  have h1 : D * (N / D) + N % D = N := Nat.div_add_mod N D
  have h2 : N % D < D := Nat.mod_lt _ hD
  have h3 : (N / D + 1) * D = D * (N / D) + D := by ring
  have h4 : (N / D) * D = D * (N / D) := by ring
  unfold rne
  split
  · rw [h4]; omega
  · split
    · rw [h3]; omega
    · split
      · rw [h4]; omega
      · rw [h3]; omega

theorem rne_exact (N D : Nat) (hD : 0 < D) (h : D ∣ N) : rne N D = N / D := by
  have : N % D = 0 := Nat.mod_eq_zero_of_dvd h
  unfold rne
  rw [this]
  simp [hD]

theorem scale_eq (a b : Nat) (e : Int) (hb : 0 < b) :
    ((scaleN a e : Nat) : ℚ) / (scaleD b e : Nat) = (a : ℚ) / b * (2 : ℚ) ^ (-e) := by
  have hb' : (b : ℚ) ≠ 0 := by positivity
  unfold scaleN scaleD
  by_cases he : 0 ≤ e
  · rw [if_pos he, if_pos he]
    obtain ⟨n, rfl⟩ := Int.eq_ofNat_of_zero_le he
    simp only [Int.toNat_natCast, zpow_neg, zpow_natCast]
    push_cast
    field_simp
  · rw [if_neg he, if_neg he]
    have : -e = ((-e).toNat : Int) := by omega
    rw [this]
    simp only [Int.toNat_natCast, zpow_natCast]
    push_cast
    field_simp

theorem ldexp_eq (m : Nat) (e : Int) : ldexp m e = (m : ℚ) * (2 : ℚ) ^ e := by
  unfold ldexp
  by_cases he : 0 ≤ e
  · rw [if_pos he]
    obtain ⟨n, rfl⟩ := Int.eq_ofNat_of_zero_le he
    simp only [Int.toNat_natCast, zpow_natCast]
    push_cast; ring
  · rw [if_neg he]
    have h : e = -((-e).toNat : Int) := by omega
    generalize (-e).toNat = n at h
    subst h
    simp only [zpow_neg, zpow_natCast]
    push_cast; ring


theorem log2_bounds (a : Nat) (ha : 0 < a) :
    ((2 : ℚ) ^ (a.log2 : Int) ≤ a) ∧ ((a : ℚ) < (2 : ℚ) ^ ((a.log2 : Int) + 1)) := by
  have h1 : 2 ^ a.log2 ≤ a := Nat.log2_self_le (by omega)
  have h2 : a < 2 ^ (a.log2 + 1) := Nat.lt_log2_self
  constructor
  · rw [zpow_natCast]; exact_mod_cast h1
  · have : ((a.log2 : Int) + 1) = ((a.log2 + 1 : Nat) : Int) := by push_cast; rfl
    rw [this, zpow_natCast]; exact_mod_cast h2

theorem y0_bounds (a b : Nat) (ha : 0 < a) (hb : 0 < b) :
    (2 : ℚ) ^ (52 : Int) < (a : ℚ) / b * (2 : ℚ) ^ (-(expo0 a b)) ∧
    (a : ℚ) / b * (2 : ℚ) ^ (-(expo0 a b)) < (2 : ℚ) ^ (54 : Int) := by
  obtain ⟨ha1, ha2⟩ := log2_bounds a ha
  obtain ⟨hb1, hb2⟩ := log2_bounds b hb
  have hbpos : (0 : ℚ) < b := by exact_mod_cast hb
  have hapos : (0 : ℚ) < a := by exact_mod_cast ha
  have h2 : (2 : ℚ) ≠ 0 := two_ne_zero
  have hpe : (0 : ℚ) < (2 : ℚ) ^ (-(expo0 a b)) := by positivity
  have hp1 : (0 : ℚ) < (2 : ℚ) ^ ((b.log2 : Int) + 1) := by positivity
  have hp2 : (0 : ℚ) < (2 : ℚ) ^ (b.log2 : Int) := by positivity
  unfold expo0 at *
  constructor
  · -- 2^52 = 2^la / 2^(lb+1) * 2^(-e0) < a / b * 2^(-e0)
    have e : (2 : ℚ) ^ (52 : Int) =
        (2 : ℚ) ^ (a.log2 : Int) / (2 : ℚ) ^ ((b.log2 : Int) + 1) *
          (2 : ℚ) ^ (-((a.log2 : Int) - (b.log2 : Int) - 53)) := by
      rw [← zpow_sub₀ h2, ← zpow_add₀ h2]; congr 1; ring
    rw [e]
    apply mul_lt_mul_of_pos_right _ hpe
    rw [div_lt_div_iff₀ hp1 hbpos]
    calc (2 : ℚ) ^ (a.log2 : Int) * b < (2 : ℚ) ^ (a.log2 : Int) * (2 : ℚ) ^ ((b.log2 : Int) + 1) := by
          apply mul_lt_mul_of_pos_left hb2; positivity
      _ ≤ a * (2 : ℚ) ^ ((b.log2 : Int) + 1) := by
          apply mul_le_mul_of_nonneg_right ha1; positivity
  · have e : (2 : ℚ) ^ (54 : Int) =
        (2 : ℚ) ^ ((a.log2 : Int) + 1) / (2 : ℚ) ^ (b.log2 : Int) *
          (2 : ℚ) ^ (-((a.log2 : Int) - (b.log2 : Int) - 53)) := by
      rw [← zpow_sub₀ h2, ← zpow_add₀ h2]; congr 1; ring
    rw [e]
    apply mul_lt_mul_of_pos_right _ hpe
    rw [div_lt_div_iff₀ hbpos hp2]
    calc (a : ℚ) * (2 : ℚ) ^ (b.log2 : Int) < (2 : ℚ) ^ ((a.log2 : Int) + 1) * (2 : ℚ) ^ (b.log2 : Int) := by
          apply mul_lt_mul_of_pos_right ha2; positivity
      _ ≤ (2 : ℚ) ^ ((a.log2 : Int) + 1) * b := by
          apply mul_le_mul_of_nonneg_left hb1; positivity

/-- The scaled quotient lies in the 53-bit binade. -/
theorem expo_spec (a b : Nat) (ha : 0 < a) (hb : 0 < b) :
    (2 : ℚ) ^ (52 : Int) ≤ (a : ℚ) / b * (2 : ℚ) ^ (-(expo a b)) ∧
    (a : ℚ) / b * (2 : ℚ) ^ (-(expo a b)) < (2 : ℚ) ^ (53 : Int) := by
  obtain ⟨hl, hu⟩ := y0_bounds a b ha hb
  have hD : (0 : ℚ) < ((scaleD b (expo0 a b) : Nat) : ℚ) := by
    have : 0 < scaleD b (expo0 a b) := by
      unfold scaleD; split
      · exact Nat.mul_pos hb (Nat.pos_of_ne_zero (by positivity))
      · exact hb
    exact_mod_cast this
  have hs := scale_eq a b (expo0 a b) hb
  unfold expo
  by_cases ht : scaleN a (expo0 a b) < 2 ^ 53 * scaleD b (expo0 a b)
  · rw [if_pos ht]
    refine ⟨le_of_lt hl, ?_⟩
    rw [← hs, div_lt_iff₀ hD]
    have : ((scaleN a (expo0 a b) : Nat) : ℚ) < ((2 ^ 53 * scaleD b (expo0 a b) : Nat) : ℚ) := by
      exact_mod_cast ht
    push_cast at this
    norm_num at this ⊢
    linarith
  · rw [if_neg ht]
    have hge : (2 : ℚ) ^ (53 : Int) ≤ (a : ℚ) / b * (2 : ℚ) ^ (-(expo0 a b)) := by
      rw [← hs, le_div_iff₀ hD]
      have : ((2 ^ 53 * scaleD b (expo0 a b) : Nat) : ℚ) ≤ ((scaleN a (expo0 a b) : Nat) : ℚ) := by
        exact_mod_cast Nat.le_of_not_lt ht
      push_cast at this
      norm_num at this ⊢
      linarith
    have e : (2 : ℚ) ^ (-(expo0 a b + 1)) = (2 : ℚ) ^ (-(expo0 a b)) * (1 / 2) := by
      rw [neg_add, zpow_add₀ (two_ne_zero)]; norm_num
    rw [e, ← mul_assoc]
    norm_num at hge hu ⊢
    constructor <;> linarith


theorem scaleD_pos (b : Nat) (e : Int) (hb : 0 < b) : 0 < scaleD b e := by
  unfold scaleD; split
  · exact Nat.mul_pos hb (Nat.pos_of_ne_zero (by positivity))
  · exact hb

/-- The quotient is within half a unit in the last place: relative error at most `2^-53`. -/
theorem fdiv_err (a b : Nat) (ha : 0 < a) (hb : 0 < b) :
    (a : ℚ) / b - (a : ℚ) / b / 2 ^ 53 ≤ fdiv a b ∧ fdiv a b ≤ (a : ℚ) / b + (a : ℚ) / b / 2 ^ 53 := by
  obtain ⟨hl, _⟩ := expo_spec a b ha hb
  have hs := scale_eq a b (expo a b) hb
  have hDn := scaleD_pos b (expo a b) hb
  have hD : (0 : ℚ) < ((scaleD b (expo a b) : Nat) : ℚ) := by exact_mod_cast hDn
  obtain ⟨r1, r2⟩ := rne_bounds (scaleN a (expo a b)) (scaleD b (expo a b)) hDn
  have r1' : (2 : ℚ) * ((sig a b : Nat) * (scaleD b (expo a b) : Nat)) ≤
      2 * (scaleN a (expo a b) : Nat) + (scaleD b (expo a b) : Nat) := by
    unfold sig; exact_mod_cast r1
  have r2' : (2 : ℚ) * (scaleN a (expo a b) : Nat) ≤
      2 * ((sig a b : Nat) * (scaleD b (expo a b) : Nat)) + (scaleD b (expo a b) : Nat) := by
    unfold sig; exact_mod_cast r2
  have hne : a ≠ 0 := by omega
  unfold fdiv
  rw [if_neg hne, ldexp_eq]
  -- y = N / D, x = y * 2^e
  set y : ℚ := ((scaleN a (expo a b) : Nat) : ℚ) / (scaleD b (expo a b) : Nat) with hy
  have hpe : (0 : ℚ) < (2 : ℚ) ^ (expo a b) := by positivity
  have hx : (a : ℚ) / b = y * (2 : ℚ) ^ (expo a b) := by
    rw [hs, mul_assoc, ← zpow_add₀ (two_ne_zero)]; simp
  have hy52 : (2 : ℚ) ^ (52 : Int) ≤ y := by rw [hs]; exact hl
  have s1 : ((sig a b : Nat) : ℚ) ≤ y + 1 / 2 := by
    rw [hy, div_add' _ _ _ (ne_of_gt hD), le_div_iff₀ hD]; linarith
  have s2 : y - 1 / 2 ≤ ((sig a b : Nat) : ℚ) := by
    rw [hy, div_sub' (ne_of_gt hD), div_le_iff₀ hD]; linarith
  have hy' : (1 : ℚ) / 2 ≤ y / 2 ^ 53 := by
    rw [le_div_iff₀ (by positivity)]; norm_num at hy52 ⊢; linarith
  rw [hx]
  constructor
  · have : y * 2 ^ expo a b - y * 2 ^ expo a b / 2 ^ 53 = (y - y / 2 ^ 53) * 2 ^ expo a b := by ring
    rw [this]
    apply mul_le_mul_of_nonneg_right _ (le_of_lt hpe); linarith
  · have : y * 2 ^ expo a b + y * 2 ^ expo a b / 2 ^ 53 = (y + y / 2 ^ 53) * 2 ^ expo a b := by ring
    rw [this]
    apply mul_le_mul_of_nonneg_right _ (le_of_lt hpe); linarith

/-- A quotient that is an integer below `2^53` is computed exactly. -/
theorem fdiv_exact (a b : Nat) (ha : 0 < a) (ha53 : a < 2 ^ 53) (hb : 0 < b) (hdvd : b ∣ a) :
    fdiv a b = (a : ℚ) / b := by
  obtain ⟨hl, _⟩ := expo_spec a b ha hb
  have hs := scale_eq a b (expo a b) hb
  have hDn := scaleD_pos b (expo a b) hb
  have hD : (0 : ℚ) < ((scaleD b (expo a b) : Nat) : ℚ) := by exact_mod_cast hDn
  have hbq : (0 : ℚ) < b := by exact_mod_cast hb
  have hx53 : (a : ℚ) / b < 2 ^ 53 := by
    have h1 : (a : ℚ) < 2 ^ 53 := by exact_mod_cast ha53
    have h2 : (1 : ℚ) ≤ b := by exact_mod_cast hb
    rw [div_lt_iff₀ hbq]; nlinarith
  have hxpos : (0 : ℚ) < (a : ℚ) / b := by positivity
  -- the exponent is not positive
  have he : expo a b ≤ 0 := by
    by_contra hc
    have h1 : -(expo a b) ≤ -1 := by omega
    have h2 : (2 : ℚ) ^ (-(expo a b)) ≤ (2 : ℚ) ^ (-1 : Int) := zpow_le_zpow_right₀ (by norm_num) h1
    have h3 : (a : ℚ) / b * (2 : ℚ) ^ (-(expo a b)) ≤ (a : ℚ) / b * (2 : ℚ) ^ (-1 : Int) :=
      mul_le_mul_of_nonneg_left h2 (le_of_lt hxpos)
    norm_num at h3 hl
    linarith
  have hdiv : scaleD b (expo a b) ∣ scaleN a (expo a b) := by
    unfold scaleD scaleN
    by_cases h0 : 0 ≤ expo a b
    · have : expo a b = 0 := by omega
      rw [if_pos h0, if_pos h0, this]; simpa using hdvd
    · rw [if_neg h0, if_neg h0]; exact Dvd.dvd.mul_right hdvd _
  have hsig : ((sig a b : Nat) : ℚ) = (a : ℚ) / b * (2 : ℚ) ^ (-(expo a b)) := by
    unfold sig
    rw [rne_exact _ _ hDn hdiv, Nat.cast_div hdiv (ne_of_gt hD), hs]
  have hne : a ≠ 0 := by omega
  unfold fdiv
  rw [if_neg hne, ldexp_eq, hsig, mul_assoc, ← zpow_add₀ (two_ne_zero)]
  simp

/-- `math.ceil(a / float(b))` is the exact ceiling for every `a < 2^53`. -/
theorem fceil_eq (a b m : Nat) (ha53 : a < 2 ^ 53) (hb : 0 < b)
    (h1 : m * b < a) (h2 : a ≤ (m + 1) * b) : fceil a b = (m : Int) + 1 := by
  have ha : 0 < a := by omega
  have hbq : (0 : ℚ) < b := by exact_mod_cast hb
  have haq : (a : ℚ) < 2 ^ 53 := by exact_mod_cast ha53
  have h1q : (m : ℚ) * b + 1 ≤ a := by exact_mod_cast h1
  have h2q : (a : ℚ) ≤ (m + 1) * b := by exact_mod_cast h2
  have key : (m : ℚ) < fdiv a b ∧ fdiv a b ≤ (m : ℚ) + 1 := by
    by_cases hd : b ∣ a
    · rw [fdiv_exact a b ha ha53 hb hd]
      constructor
      · rw [lt_div_iff₀ hbq]; linarith
      · rw [div_le_iff₀ hbq]; linarith
    · have hne : a ≠ (m + 1) * b := fun h => hd ⟨m + 1, by rw [h]; ring⟩
      have h2' : a + 1 ≤ (m + 1) * b := by omega
      have h2q' : (a : ℚ) + 1 ≤ (m + 1) * b := by exact_mod_cast h2'
      obtain ⟨e1, e2⟩ := fdiv_err a b ha hb
      have hsmall : (a : ℚ) / b / 2 ^ 53 < 1 / b := by
        rw [div_div, div_lt_div_iff₀ (by positivity) hbq]; nlinarith
      have hlow : (m : ℚ) + 1 / b ≤ (a : ℚ) / b := by
        rw [le_div_iff₀ hbq, add_mul, one_div, inv_mul_cancel₀ (ne_of_gt hbq)]; linarith
      have hhigh : (a : ℚ) / b + 1 / b ≤ (m : ℚ) + 1 := by
        rw [← add_div, div_le_iff₀ hbq]; linarith
      constructor <;> linarith
  unfold fceil
  apply le_antisymm
  · rw [Rat.ceil_le_iff]; push_cast; exact key.2
  · have : (m : Int) < (fdiv a b).ceil := by rw [Rat.lt_ceil_iff]; push_cast; exact key.1
    omega

theorem fceil_zero (b : Nat) : fceil 0 b = 0 := by
  unfold fceil fdiv
  rw [if_pos rfl]
  exact Rat.ceil_intCast 0

end S3V.Float53
