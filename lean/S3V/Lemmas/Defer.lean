/- Helper lemmas for C16: the sorted queue, the pop loop, one `request_writes` call. -/
import S3V.Model.Defer

namespace S3V.Defer
variable {α : Type}

/-- position `p` lies inside chunk `e` -/
def covers (e : Entry α) (p : Nat) : Prop := e.off ≤ p ∧ p < e.off + e.data.length

/-- chunk `e` carries the object's bytes at its offset -/
def Cons (obj : List α) (e : Entry α) : Prop :=
  e.off + e.data.length ≤ obj.length ∧ e.data = (obj.drop e.off).take e.data.length

/-- `ws` are consecutive writes from `start` to `stop`, each carrying the object's bytes -/
def Tiles (obj : List α) : Nat → List (Entry α) → Nat → Prop
  | start, [], stop => start = stop
  | start, w :: ws, stop => w.off = start ∧ Cons obj w ∧ Tiles obj (start + w.data.length) ws stop

def Sorted (q : List (Entry α)) : Prop := q.Pairwise (fun a b => a.off ≤ b.off)

theorem Tiles_append (obj : List α) (a b c : Nat) (w1 w2 : List (Entry α))
    (h1 : Tiles obj a w1 b) (h2 : Tiles obj b w2 c) : Tiles obj a (w1 ++ w2) c := by
  induction w1 generalizing a with
  | nil => simp only [Tiles] at h1; subst h1; exact h2
  | cons w ws ih =>
    simp only [Tiles, List.cons_append] at h1 ⊢
    exact ⟨h1.1, h1.2.1, ih _ h1.2.2⟩

theorem Tiles_le (obj : List α) (a b : Nat) (ws : List (Entry α)) (h : Tiles obj a ws b) : a ≤ b := by
  induction ws generalizing a with
  | nil => simp only [Tiles] at h; omega
  | cons w ws ih =>
    simp only [Tiles] at h
    have := ih _ h.2.2
    omega

/-- the concatenation of tiling writes is the object's slice `[start, stop)` -/
theorem Tiles_flatten (obj : List α) (a b : Nat) (ws : List (Entry α)) (h : Tiles obj a ws b) :
    (ws.map (·.data)).flatten = (obj.drop a).take (b - a) := by
  induction ws generalizing a with
  | nil => simp only [Tiles] at h; subst h; simp
  | cons w ws ih =>
    simp only [Tiles] at h
    obtain ⟨h1, ⟨hc1, hc2⟩, h3⟩ := h
    have hle := Tiles_le obj _ _ _ h3
    have e := ih _ h3
    simp only [List.map_cons, List.flatten_cons, e]
    rw [hc2, h1]
    have : b - a = w.data.length + (b - (a + w.data.length)) := by omega
    rw [this, List.take_add, List.drop_drop]
    have hl : (List.take w.data.length (List.drop a obj)).length = w.data.length := by
      rw [List.length_take, List.length_drop]; omega
    rw [hl]

theorem mem_insertSorted (e x : Entry α) (q : List (Entry α)) :
    x ∈ insertSorted e q ↔ x = e ∨ x ∈ q := by
  induction q with
  | nil => simp [insertSorted]
  | cons y ys ih =>
    unfold insertSorted
    by_cases h : e.before y
    · simp [h]
    · simp only [h]
      simp only [Bool.false_eq_true, if_false, List.mem_cons, ih]
      constructor
      · rintro (h1 | h1 | h1)
        · right; left; exact h1
        · left; exact h1
        · right; right; exact h1
      · rintro (h1 | h1 | h1)
        · right; left; exact h1
        · left; exact h1
        · right; right; exact h1

theorem sorted_insertSorted (e : Entry α) (q : List (Entry α)) (h : Sorted q) :
    Sorted (insertSorted e q) := by
  induction q with
  | nil => simp [insertSorted, Sorted]
  | cons y ys ih =>
    unfold insertSorted
    unfold Sorted at h ih ⊢
    rw [List.pairwise_cons] at h
    by_cases hb : e.before y
    · simp only [hb, if_true]
      rw [List.pairwise_cons]
      refine ⟨?_, List.pairwise_cons.mpr h⟩
      have hey : e.off ≤ y.off := by
        unfold Entry.before at hb
        simp only [Bool.or_eq_true, decide_eq_true_eq, Bool.and_eq_true, beq_iff_eq] at hb
        omega
      intro z hz
      simp only [List.mem_cons] at hz
      rcases hz with rfl | hz
      · exact hey
      · exact Nat.le_trans hey (h.1 z hz)
    · simp only [hb]
      simp only [Bool.false_eq_true, if_false]
      rw [List.pairwise_cons]
      refine ⟨?_, ih h.2⟩
      have hye : y.off ≤ e.off := by
        unfold Entry.before at hb
        simp only [Bool.or_eq_true, decide_eq_true_eq, Bool.and_eq_true, beq_iff_eq, not_or, not_and] at hb
        omega
      intro z hz
      rw [mem_insertSorted] at hz
      rcases hz with rfl | hz
      · exact hye
      · exact h.1 z hz

/-- trimming a consistent chunk keeps it consistent -/
theorem Cons_drop (obj : List α) (e : Entry α) (k : Nat) (h : Cons obj e) (hk : k ≤ e.data.length) :
    Cons obj { off := e.off + k, data := e.data.drop k } := by
  obtain ⟨h1, h2⟩ := h
  refine ⟨by simp only [List.length_drop]; omega, ?_⟩
  simp only [List.length_drop]
  rw [h2, List.drop_take, List.drop_drop]
  rw [List.length_take, List.length_drop]
  have : e.data.length ≤ obj.length - e.off := by omega
  rw [Nat.min_eq_left this]

/-- The pop loop on a sorted queue of consistent chunks. -/
theorem popReady_spec (obj : List α) (next : Nat) (q : List (Entry α))
    (hs : Sorted q) (hc : ∀ e ∈ q, Cons obj e) :
    next ≤ (popReady next q).1 ∧
    Tiles obj next (popReady next q).2.2 (popReady next q).1 ∧
    (∀ e ∈ (popReady next q).2.1, e ∈ q ∧ (popReady next q).1 < e.off) ∧
    Sorted (popReady next q).2.1 ∧
    (∀ e ∈ q, ∀ p, covers e p → p < (popReady next q).1 ∨ ∃ e' ∈ (popReady next q).2.1, covers e' p) := by
  induction q generalizing next with
  | nil => simp [popReady, Tiles, Sorted]
  | cons e rest ih =>
    unfold Sorted at hs
    rw [List.pairwise_cons] at hs
    have hce := hc e (by simp)
    have hcr : ∀ x ∈ rest, Cons obj x := fun x hx => hc x (by simp [hx])
    unfold popReady
    by_cases h1 : e.off ≤ next
    · rw [if_pos h1]
      by_cases h2 : next - e.off = 0 ∨ next - e.off < e.data.length
      · rw [if_pos h2]
        have hk : next - e.off ≤ e.data.length := by omega
        have hnext : e.off + (next - e.off) = next := by omega
        obtain ⟨i1, i2, i3, i4, i5⟩ := ih (next + (e.data.length - (next - e.off))) hs.2 hcr
        have hcw := Cons_drop obj e (next - e.off) hce hk
        rw [hnext] at hcw
        refine ⟨by simp only; omega, ?_, ?_, i4, ?_⟩
        · simp only [Tiles, List.length_drop]
          exact ⟨trivial, hcw, i2⟩
        · intro x hx
          have := i3 x hx
          exact ⟨by simp [this.1], this.2⟩
        · intro x hx p hp
          simp only [List.mem_cons] at hx
          rcases hx with rfl | hx
          · left
            unfold covers at hp
            simp only
            omega
          · simpa using i5 x hx p hp
      · rw [if_neg h2]
        obtain ⟨i1, i2, i3, i4, i5⟩ := ih next hs.2 hcr
        refine ⟨i1, i2, ?_, i4, ?_⟩
        · intro x hx
          have := i3 x hx
          exact ⟨by simp [this.1], this.2⟩
        · intro x hx p hp
          simp only [List.mem_cons] at hx
          rcases hx with rfl | hx
          · left
            unfold covers at hp
            omega
          · exact i5 x hx p hp
    · rw [if_neg h1]
      refine ⟨Nat.le_refl _, by simp [Tiles], ?_, by unfold Sorted; exact List.pairwise_cons.mpr hs, ?_⟩
      · intro x hx
        refine ⟨hx, ?_⟩
        simp only [List.mem_cons] at hx
        rcases hx with rfl | hx
        · omega
        · have := hs.1 x hx; omega
      · intro x hx p hp
        exact Or.inr ⟨x, hx, hp⟩

end S3V.Defer
