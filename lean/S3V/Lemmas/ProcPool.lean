/- Invariants of the process-pool protocol model (helper lemmas for C19). -/
import S3V.Model.ProcPool

namespace S3V.ProcPool

/-- the worker holds a job of `t` that it has not counted yet -/
def holds (t : Nat) : WPc → Bool
  | .took u => u == t | .running u => u == t | .ran u => u == t | _ => false

def isRan (t : Nat) : WPc → Bool
  | .ran u => u == t | _ => false

/-- the worker is finalizing `t` -/
def isFin (t : Nat) : WPc → Bool
  | .counted0 u => u == t | .finRemove u => u == t | .finRename u => u == t
  | .renameFailed u => u == t | .fsDone u => u == t | _ => false

def cntW (w : Nat) (f : Nat → WPc) (p : WPc → Bool) : Nat := ((List.range w).filter fun i => p (f i)).length

def S.cnt (s : S) (p : WPc → Bool) : Nat := cntW s.w s.wpc p

theorem cntW_upd (w : Nat) (f : Nat → WPc) (i : Nat) (v : WPc) (p : WPc → Bool) (hi : i < w) :
    cntW w (upd f i v) p + (if p (f i) then 1 else 0) = cntW w f p + (if p v then 1 else 0) := by
  unfold cntW
  induction w with
  | zero => omega
  | succ n ih =>
    rw [List.range_succ, List.filter_append, List.filter_append, List.length_append, List.length_append]
    by_cases hin : i = n
    · subst hin
      have h1 : (List.range i).filter (fun k => p (upd f i v k)) = (List.range i).filter (fun k => p (f k)) := by
        apply List.filter_congr
        intro k hk
        have : k ≠ i := by have := List.mem_range.mp hk; omega
        simp [upd, this]
      rw [h1]
      simp only [List.filter_cons, List.filter_nil, upd, if_true]
      cases p v <;> cases p (f i) <;> simp <;> omega
    · have := ih (by omega)
      have h2 : p (upd f i v n) = p (f n) := by
        have : n ≠ i := fun e => hin e.symm
        simp [upd, this]
      simp only [List.filter_cons, List.filter_nil, h2]
      cases p (f n) <;> simp <;> omega

theorem cntW_pos (w : Nat) (f : Nat → WPc) (i : Nat) (p : WPc → Bool) (hi : i < w) (hp : p (f i) = true) :
    1 ≤ cntW w f p := by
  unfold cntW
  have : i ∈ (List.range w).filter fun k => p (f k) := by
    simp [List.mem_filter, hi, hp]
  exact List.length_pos_of_mem this

theorem cntW_zero_of_all (w : Nat) (f : Nat → WPc) (p : WPc → Bool) (h : ∀ i, i < w → p (f i) = false) :
    cntW w f p = 0 := by
  unfold cntW
  rw [List.length_eq_zero_iff, List.filter_eq_nil_iff]
  intro i hi
  simp [h i (List.mem_range.mp hi)]

end S3V.ProcPool

namespace S3V.ProcPool

theorem cntW_frame (w : Nat) (f : Nat → WPc) (i : Nat) (v : WPc) (p : WPc → Bool)
    (h1 : p (f i) = false) (h2 : p v = false) : cntW w (upd f i v) p = cntW w f p := by
  unfold cntW
  congr 1
  apply List.filter_congr
  intro k _
  by_cases e : k = i
  · subst e; simp [upd, h1, h2]
  · simp [upd, e]

theorem cntW_mono (w : Nat) (f : Nat → WPc) (p q : WPc → Bool) (h : ∀ x, p x = true → q x = true) :
    cntW w f p ≤ cntW w f q := by
  unfold cntW
  induction w with
  | zero => simp
  | succ n ih =>
    rw [List.range_succ, List.filter_append, List.filter_append, List.length_append, List.length_append]
    simp only [List.filter_cons, List.filter_nil]
    by_cases hp : p (f n) = true
    · simp [hp, h _ hp]; exact ih
    · simp [hp]; split <;> simp <;> omega

theorem isRan_holds (t : Nat) (x : WPc) (h : isRan t x = true) : holds t x = true := by
  cases x <;> simp_all [isRan, holds]

/-- the per-download part of the invariant, over the numbers it depends on -/
structure TInv (x : PT) (cH cR cF qW qR nt t : Nat) : Prop where
  a : x.taken = x.accounted + cH
  q : x.queued = x.taken + qW
  c : x.queued ≤ x.n
  nn : 1 ≤ x.n
  d : x.announced = true → x.jobs = (x.n : Int) - (x.accounted : Int)
  e : x.exc = false → x.written = x.accounted + cR
  h : x.written ≤ x.accounted + cR
  f : cF + (if x.done = true ∧ x.announced = true then 1 else 0) = (if x.announced = true ∧ x.accounted = x.n then 1 else 0)
  rq : qR = if x.sub = .pending then 1 else 0
  p0 : x.sub = .none ↔ nt ≤ t
  p0' : nt ≤ t → x = {}
  p1 : x.sub = .pending ∨ x.sub = .sizing ∨ x.sub = .allocated ∨ x.sub = .failing ∨ x.sub = .failedDone →
        x.announced = false ∧ x.queued = 0
  p2 : x.sub = .pending ∨ x.sub = .sizing → x.allocated = false ∧ x.done = false ∧ x.subFailed = false ∧ x.temp = false
  p3 : x.sub = .allocated → x.done = false ∧ x.subFailed = false
  p4 : x.sub = .failing ∨ x.sub = .failedDone → x.subFailed = true ∧ x.exc = true ∧ x.temp = false
  p5 : x.sub = .failing → x.done = false
  p6 : x.sub = .putting → x.announced = true ∧ x.queued < x.n
  p7 : x.sub = .queuedAll → x.announced = true ∧ x.queued = x.n
  p8 : x.subFailed = true → x.sub = .failing ∨ x.sub = .failedDone
  p9 : x.done = true → x.announced = false → x.sub = .failedDone
  p10 : x.sub = .failedDone → x.done = true
  g2 : x.renamed = true → x.n ≤ x.written
  g4 : x.done = true → x.temp = false
  g5 : x.done = true → x.exc = false → x.renamed = true
  g6 : x.announced = false → x.renamed = false

def spcLink (s : S) : Prop :=
  match s.spc with
  | .sizing u => (s.t u).sub = .sizing
  | .allocated u => (s.t u).sub = .allocated
  | .putting u => (s.t u).sub = .putting
  | .failing u => (s.t u).sub = .failing
  | _ => True

def wFact (s : S) (i : Nat) : Prop :=
  match s.wpc i with
  | .finRename t => (s.t t).n ≤ (s.t t).written
  | .finRemove t => (s.t t).exc = true
  | .fsDone t => (s.t t).temp = false ∧ ((s.t t).exc = false → (s.t t).renamed = true)
  | _ => True

structure Inv (s : S) : Prop where
  ti : ∀ t, TInv (s.t t) (s.cnt (holds t)) (s.cnt (isRan t)) (s.cnt (isFin t))
        (s.workQ.count (some t)) (s.reqQ.count (some t)) s.nt t
  wb : ∀ i, s.w ≤ i → s.wpc i = .idle
  sl : spcLink s
  sl' : ∀ t, ((s.t t).sub = .sizing → s.spc = .sizing t) ∧ ((s.t t).sub = .allocated → s.spc = .allocated t) ∧
        ((s.t t).sub = .putting → s.spc = .putting t) ∧ ((s.t t).sub = .failing → s.spc = .failing t)
  wf : ∀ i, wFact s i

theorem init_inv (w : Nat) : Inv (S.init w) := by
  refine ⟨?_, ?_, ?_, ?_, ?_⟩
  · intro t
    have c0 : ∀ p : WPc → Bool, p .idle = false → (S.init w).cnt p = 0 := by
      intro p hp
      apply cntW_zero_of_all
      intro i _; simpa [S.init] using hp
    have h1 := c0 (holds t) rfl
    have h2 := c0 (isRan t) rfl
    have h3 := c0 (isFin t) rfl
    rw [h1, h2, h3]
    constructor <;> simp [S.init]
  · intro i _; rfl
  · simp [spcLink, S.init]
  · intro t; simp [S.init]
  · intro i; simp [wFact, S.init]

end S3V.ProcPool
