/- Invariants of the transfer model (M2 / Xfer), each preserved by every step. -/
import S3V.Model.Xfer

namespace S3V.Xfer
open S3V.Coord (Status)

/-- counters: the done callbacks run at most once, the abort is issued at most once -/
structure G1 (x : X) : Prop where
  cb1 : x.cbsPending = true → x.doneCbRuns = 0
  cb2 : x.doneCbRuns ≤ 1
  ab1 : x.abortCount ≤ 1
  ab2 : x.cleanupsPending = true → x.abortOpen = false → x.abortCount = 0
  ab3 : x.abortOpen = true → x.cleanupsPending = true ∧ x.cleanupHolder ≠ none
  ab4 : x.cleanupsPending = true → x.abortRegistered = true
  ab5 : x.abortCount = 1 → x.abortRegistered = true
  ab6 : x.abortBegun = true ↔ 0 < x.abortCount
  ab8 : x.cleanupHolder ≠ none → x.abortCount = 1

theorem g1_init : G1 ({} : X) := by constructor <;> simp

theorem g1_step (cfg : Cfg) (x x' : X) (l : Label) (h : G1 x) (hs : step cfg x l = some x') : G1 x' := by
  obtain ⟨h1, h2, h3, h4, h5, h6, h7, h8, h9⟩ := h
  cases l <;> simp only [step] at hs <;>
    (repeat' (split at hs)) <;>
    (first | cases hs | skip) <;>
    (first
      | exact ⟨h1, h2, h3, h4, h5, h6, h7, h8, h9⟩
      | (constructor <;> simp_all <;> omega))

/-- `done()` is stable, and once cancelled the status can only become success -/
theorem done_step (cfg : Cfg) (x x' : X) (l : Label) (h : x.done = true) (hs : step cfg x l = some x') :
    x'.done = true := by
  cases l <;> simp only [step] at hs <;>
    (repeat' (split at hs)) <;>
    (first | cases hs | skip) <;>
    (first | exact h | (simp_all [X.done, Status.isDone]))

end S3V.Xfer

namespace S3V.Xfer
open S3V.Coord (Status)

theorem depsEnded_iff (x : X) (j : Nat) : depsEnded x j = true ↔ ∀ d ∈ x.deps j, x.ph d = .ended := by
  simp [depsEnded, List.all_eq_true]

theorem othersEnded_iff (x : X) (b : Nat) :
    othersEnded x b = true ↔ ∀ k, k < b → x.known k = true → x.ph k = .ended := by
  simp only [othersEnded, List.all_eq_true, List.mem_range, Bool.or_eq_true, Bool.not_eq_true', beq_iff_eq]
  constructor
  · intro h k hk hkn
    rcases h k hk with h1 | h1
    · rw [h1] at hkn; cases hkn
    · exact h1
  · intro h k hk
    by_cases hkn : x.known k = true
    · right; exact h k hk hkn
    · left; simpa using hkn

/-- structure of the task set and what an active announcer implies about the tasks -/
structure G2 (cfg : Cfg) (x : X) : Prop where
  kb : ∀ k, x.known k = true → k < cfg.bound
  st : ∀ k, x.ph k ≠ .idle → x.known k = true
  ns : x.status = .notStarted → (∀ k, x.known k = false) ∧ x.subRunning = false
  fs : ∀ j, x.known j = true → x.final j = true → x.finalSubmitted = true
  fd : ∀ j k, x.known j = true → x.final j = true → x.known k = true → k ≠ j → k ∈ x.deps j
  dd : ∀ j, x.decided j ≠ .undecided → ∀ d ∈ x.deps j, x.ph d = .ended
  dk : ∀ j, x.decided j ≠ .undecided → x.ph j ≠ .idle
  a0 : x.announced 0 = true → (∀ k, x.known k = false) ∧ x.subRunning = false ∧ x.done = true
  a1 : x.announced 1 = true → x.subFailed = true ∧ ∀ k, x.known k = true → x.ph k = .ended
  a2 : ∀ j, x.announced (j + 2) = true → x.known j = true ∧ x.final j = true ∧
        (x.ph j = .run ∨ x.ph j = .ended) ∧ x.decided j ≠ .undecided

theorem g2_init (cfg : Cfg) : G2 cfg ({} : X) := by constructor <;> simp

end S3V.Xfer

namespace S3V.Xfer
open S3V.Coord (Status)

theorem g2_submit (cfg : Cfg) (x x' : X) (j : Nat) (f : Bool) (d : List Nat) (h : G2 cfg x)
    (hs : step cfg x (.submit j f d) = some x') : G2 cfg x' := by
  obtain ⟨kb, st, ns, fs, fd, dd, dk, a0, a1, a2⟩ := h
  simp only [step] at hs
  split at hs
  · rename_i hg
    cases hs
    obtain ⟨g1, g2, g3, g4, g5, g6, g7, g8⟩ := hg
    have hnk : x.known j = false := by simpa using g5
    have hidle : x.ph j = .idle := by
      by_cases hh : x.ph j = .idle
      · exact hh
      · have := st j hh; rw [hnk] at this; cases this
    constructor
    · intro k hk
      simp only [upd] at hk
      split at hk
      · omega
      · exact kb k hk
    · intro k hk
      simp only [upd]
      split
      · rfl
      · exact st k hk
    · intro hst
      have := (ns hst).2
      simp_all
    · intro i hi hf
      simp only [upd] at hi hf ⊢
      split at hf
      · exact hf
      · simp_all
    · intro i k hi hf hk hne
      simp only [upd] at hi hf hk ⊢
      by_cases hij : i = j
      · subst hij
        simp only [if_true] at hf ⊢
        have hk' : x.known k = true := by
          split at hk
          · omega
          · exact hk
        have := g8 hf
        rw [List.all_eq_true] at this
        have h2 := this k (List.mem_range.mpr (kb k hk'))
        simp [hk'] at h2
        exact h2
      · simp only [hij, if_false] at hi hf ⊢
        have := fs i hi hf
        simp_all
    · intro i hdec dd' hd
      simp only [upd] at hd ⊢
      by_cases hij : i = j
      · subst hij
        exact absurd hidle (dk i hdec)
      · simp only [hij, if_false] at hd
        exact dd i hdec dd' hd
    · exact dk
    · intro h0
      have := a0 h0
      simp_all
    · intro h1
      have := a1 h1
      simp_all
    · intro i hi
      have := a2 i hi
      simp only [upd]
      have hne : i ≠ j := by
        intro e; subst e; rw [hnk] at this; exact absurd this.1 (by simp)
      simp [hne, this]
  · cases hs

/-- changing the phase of one known, not yet ended task preserves the structure -/
theorem g2_ph_change (cfg : Cfg) (x y : X) (j : Nat) (q : Phase) (h : G2 cfg x)
    (hk : x.known j = true) (hq : q ≠ .idle) (hne : x.ph j ≠ .ended)
    (hdk : x.ph j = .idle → x.decided j = .undecided → True)
    (ha : x.announced (j + 2) = true → q = .run ∨ q = .ended)
    (e1 : y.known = x.known) (e2 : y.ph = upd x.ph j q) (e3 : y.status = x.status)
    (e4 : y.final = x.final) (e5 : y.finalSubmitted = x.finalSubmitted) (e6 : y.deps = x.deps)
    (e7 : y.decided = x.decided) (e8 : y.announced = x.announced) (e9 : y.subRunning = x.subRunning)
    (e10 : y.subFailed = x.subFailed) : G2 cfg y := by
  obtain ⟨kb, st, ns, fs, fd, dd, dk, a0, a1, a2⟩ := h
  constructor
  · rw [e1]; exact kb
  · intro k hkk
    rw [e1]
    by_cases hkj : k = j
    · subst hkj; exact hk
    · apply st; rw [e2] at hkk; simpa [upd, hkj] using hkk
  · rw [e3, e1, e9]; exact ns
  · rw [e1, e4, e5]; exact fs
  · rw [e1, e4, e6]; exact fd
  · intro i hi d hd
    rw [e7] at hi; rw [e6] at hd
    have := dd i hi d hd
    rw [e2]; simp only [upd]
    split
    · rename_i e; subst e; exact absurd this hne
    · exact this
  · intro i hi
    rw [e7] at hi
    rw [e2]; simp only [upd]
    split
    · exact hq
    · exact dk i hi
  · rw [e8, e1, e9]
    intro h0
    have := a0 h0
    refine ⟨this.1, this.2.1, ?_⟩
    simp only [X.done] at this ⊢
    rw [e3]; exact this.2.2
  · rw [e8, e10, e1]
    intro h1
    have := a1 h1
    refine ⟨this.1, ?_⟩
    intro k hkk
    have h2 := this.2 k hkk
    rw [e2]; simp only [upd]
    split
    · rename_i e; subst e; exact absurd h2 hne
    · exact h2
  · intro i hi
    rw [e8] at hi
    have := a2 i hi
    rw [e1, e4, e7, e2]
    simp only [upd]
    by_cases hij : i = j
    · subst hij
      simp only [if_true]
      exact ⟨this.1, this.2.1, ha hi, this.2.2.2⟩
    · simp only [hij, if_false]; exact this

set_option maxHeartbeats 1600000 in
theorem g2_step (cfg : Cfg) (x x' : X) (l : Label) (h : G2 cfg x) (hs : step cfg x l = some x') : G2 cfg x' := by
  cases l with
  | submit j f d => exact g2_submit cfg x x' j f d h hs
  | subStart | subDecide _ | onQueued | subEnd | registerAbort _ | mainFail _ | abortBegin _ | abortEnd _ | cleaned _
  | eventSet _ | cbLock _ | cbDone _ | annEnd _ =>
    obtain ⟨kb, st, ns, fs, fd, dd, dk, a0, a1, a2⟩ := h
    simp only [step] at hs
    (repeat' (split at hs)) <;> (first | cases hs | skip) <;> exact ⟨kb, st, ns, fs, fd, dd, dk, a0, a1, a2⟩
  | toQueued | toRunning | subFail | setResult _ | cancel | record _ =>
    obtain ⟨kb, st, ns, fs, fd, dd, dk, a0, a1, a2⟩ := h
    simp only [step] at hs
    (repeat' (split at hs)) <;> (first | cases hs | skip) <;>
    (first
      | exact ⟨kb, st, ns, fs, fd, dd, dk, a0, a1, a2⟩
      | (constructor <;> first
          | assumption
          | (simp_all [upd, X.done, Status.isDone]; done)
          | (intro h0; simp_all [upd, X.done, Status.isDone])))
  | taskStart j =>
    simp only [step] at hs
    split at hs
    · rename_i hg; cases hs
      exact g2_ph_change cfg x _ j .run h (by simpa using hg.1) (by simp) (by rw [hg.2]; simp) (fun _ _ => trivial)
        (fun _ => Or.inl rfl) rfl rfl rfl rfl rfl rfl rfl rfl rfl rfl
    · cases hs
  | reqBegin j =>
    simp only [step] at hs
    split at hs
    · rename_i hg; cases hs
      have hk : x.known j = true := h.st j (by rw [hg.1]; simp)
      exact g2_ph_change cfg x _ j .req h hk (by simp) (by rw [hg.1]; simp) (fun _ _ => trivial)
        (fun ha => by simp_all) rfl rfl rfl rfl rfl rfl rfl rfl rfl rfl
    · cases hs
  | reqEnd j ok =>
    simp only [step] at hs
    split at hs
    · rename_i hg; cases hs
      have hk : x.known j = true := h.st j (by rw [hg]; simp)
      exact g2_ph_change cfg x _ j .run h hk (by simp) (by rw [hg]; simp) (fun _ _ => trivial)
        (fun _ => Or.inl rfl) rfl rfl rfl rfl rfl rfl rfl rfl rfl rfl
    · cases hs
  | taskEnd j =>
    simp only [step] at hs
    split at hs
    · rename_i hg; cases hs
      have hk : x.known j = true := h.st j (by rw [hg.1]; simp)
      exact g2_ph_change cfg x _ j .ended h hk (by simp) (by rw [hg.1]; simp) (fun _ _ => trivial)
        (fun _ => Or.inr rfl) rfl rfl rfl rfl rfl rfl rfl rfl rfl rfl
    · cases hs
  | decide j r =>
    obtain ⟨kb, st, ns, fs, fd, dd, dk, a0, a1, a2⟩ := h
    simp only [step] at hs
    split at hs
    · rename_i hg; cases hs
      obtain ⟨g1, g2, g3, g4⟩ := hg
      have hde := (depsEnded_iff x j).mp g3
      refine ⟨kb, st, ns, fs, fd, ?_, ?_, a0, a1, ?_⟩
      · intro i hi d hd
        by_cases hij : i = j
        · subst hij; exact hde d hd
        · apply dd i _ d hd
          simpa [upd, hij] using hi
      · intro i hi
        by_cases hij : i = j
        · subst hij; rw [g1]; simp
        · apply dk i; simpa [upd, hij] using hi
      · intro i hi
        have := a2 i hi
        refine ⟨this.1, this.2.1, this.2.2.1, ?_⟩
        simp only [upd]
        split
        · split <;> simp
        · exact this.2.2.2
    · cases hs
  | annBegin who =>
    obtain ⟨kb, st, ns, fs, fd, dd, dk, a0, a1, a2⟩ := h
    simp only [step] at hs
    split at hs
    · cases hs
    · rename_i hna
      split at hs
      · rename_i hw
        split at hs
        · rename_i hg; cases hs
          subst hw
          obtain ⟨g1, g2, g3, g4⟩ := hg
          have hoe := (othersEnded_iff x cfg.bound).mp g4
          refine ⟨kb, st, ns, fs, fd, dd, dk, ?_, ?_, ?_⟩
          · intro h0; apply a0; simpa [upd] using h0
          · intro _; exact ⟨g2, fun k hk => hoe k (kb k hk) hk⟩
          · intro i hi; apply a2; simpa [upd] using hi
        · cases hs
      · split at hs
        · rename_i hw2
          split at hs
          · rename_i hg; cases hs
            obtain ⟨g1, g2, g3, g4, g5, g6⟩ := hg
            refine ⟨kb, st, ns, fs, fd, dd, dk, ?_, ?_, ?_⟩
            · intro h0; apply a0
              have : (0 : Nat) ≠ who := by omega
              simpa [upd, this] using h0
            · intro h1; apply a1
              have : (1 : Nat) ≠ who := by omega
              simpa [upd, this] using h1
            · intro i hi
              by_cases hiw : i + 2 = who
              · have e : who - 2 = i := by omega
                rw [e] at g1 g2 g3
                exact ⟨st i (by rw [g1]; simp), g2, Or.inl g1, g3⟩
              · apply a2; simpa [upd, hiw] using hi
          · cases hs
        · cases hs

end S3V.Xfer

