/- The FIFO-queue part of the process-pool invariant: jobs precede shutdown signals, the submitter
exits only after every request was handled, a worker exits only when no job is left. -/
import S3V.Lemmas.ProcPool6

namespace S3V.ProcPool

/-- after a shutdown signal only shutdown signals -/
def sortedQ (q : List (Option Nat)) : Prop := q.Pairwise (fun a b => a = none → b = none)

theorem sortedQ_tail (x : Option Nat) (q : List (Option Nat)) (h : sortedQ (x :: q)) : sortedQ q :=
  (List.pairwise_cons.mp h).2

theorem sortedQ_head_none (q : List (Option Nat)) (h : sortedQ (none :: q)) : ∀ t, some t ∉ q := by
  intro t ht
  have := (List.pairwise_cons.mp h).1 (some t) ht rfl
  cases this

theorem sortedQ_append_none (q : List (Option Nat)) (h : sortedQ q) : sortedQ (q ++ [none]) := by
  unfold sortedQ at *
  rw [List.pairwise_append]
  exact ⟨h, by simp, by intro a _ b hb _; simpa using hb⟩

theorem sortedQ_append_some (q : List (Option Nat)) (t : Nat) (h : sortedQ q) (hn : none ∉ q) : sortedQ (q ++ [some t]) := by
  unfold sortedQ at *
  rw [List.pairwise_append]
  refine ⟨h, by simp, ?_⟩
  intro a ha b _ hb
  rw [hb] at ha
  exact absurd ha hn

structure QInv (s : S) : Prop where
  w1 : sortedQ s.workQ
  w2 : none ∈ s.workQ → s.spc = .exited
  w2b : (∃ i, s.wpc i = .exited) → s.spc = .exited
  w3 : (∃ i, s.wpc i = .exited) → ∀ t, some t ∉ s.workQ
  r1 : sortedQ s.reqQ
  r2 : none ∈ s.reqQ → s.shut ≠ .no
  r3 : s.spc = .exited → s.shut ≠ .no ∧ ∀ t, some t ∉ s.reqQ
  s1 : s.shut = .returned → (∀ i, i < s.w → s.wpc i = .exited) ∧ 0 < s.w
  s2 : ∀ k, s.shut = .signalling k → 0 < s.w ∧ s.spc = .exited

theorem qinit (w : Nat) : QInv (S.init w) := by
  refine ⟨by simp [S.init, sortedQ], by simp [S.init], ?_, ?_, by simp [S.init, sortedQ], by simp [S.init], by simp [S.init],
    by simp [S.init], by simp [S.init]⟩
  · rintro ⟨i, hi⟩; simp [S.init] at hi
  · rintro ⟨i, hi⟩; simp [S.init] at hi

/-- a worker moves between two non-exited states; queues, submitter and shutdown phase unchanged -/
theorem qinv_wmove (s s' : S) (i : Nat) (v : WPc) (hv : v ≠ .exited) (hold : s.wpc i ≠ .exited)
    (h1 : s'.workQ = s.workQ) (h2 : s'.reqQ = s.reqQ) (h3 : s'.spc = s.spc) (h4 : s'.shut = s.shut) (h5 : s'.w = s.w)
    (h6 : s'.wpc = upd s.wpc i v) (hi : i < s.w) (h : QInv s) : QInv s' := by
  obtain ⟨w1, w2, w2b, w3, r1, r2, r3, s1, s2⟩ := h
  have hex : (∃ j, s'.wpc j = .exited) → ∃ j, s.wpc j = .exited := by
    rintro ⟨j, hj⟩
    rw [h6] at hj
    by_cases e : j = i
    · subst e; simp [upd] at hj; exact absurd hj hv
    · simp [upd, e] at hj; exact ⟨j, hj⟩
  refine ⟨by rw [h1]; exact w1, by rw [h1, h3]; exact w2, by rw [h3]; exact fun hx => w2b (hex hx),
    by rw [h1]; exact fun hx => w3 (hex hx), by rw [h2]; exact r1, by rw [h2, h4]; exact r2, by rw [h3, h4, h2]; exact r3, ?_,
    by rw [h4, h5, h3]; exact s2⟩
  rw [h4, h5]
  intro hr
  have := (s1 hr).1 i hi
  exact absurd this hold

/-- the submitter moves between two non-exited states; everything else that matters unchanged -/
theorem qinv_smove (s s' : S) (hnew : s'.spc ≠ .exited) (hold : s.spc ≠ .exited)
    (h1 : s'.workQ = s.workQ) (h2 : s'.reqQ = s.reqQ) (h4 : s'.shut = s.shut) (h5 : s'.w = s.w)
    (h6 : s'.wpc = s.wpc) (h : QInv s) : QInv s' := by
  obtain ⟨w1, w2, w2b, w3, r1, r2, r3, s1, s2⟩ := h
  refine ⟨by rw [h1]; exact w1, ?_, ?_, by rw [h1, h6]; exact w3, by rw [h2]; exact r1, by rw [h2, h4]; exact r2,
    fun hx => absurd hx hnew, by rw [h4, h5, h6]; exact s1, ?_⟩
  · rw [h1]; intro hx; exact absurd (w2 hx) hold
  · rw [h6]; intro hx; exact absurd (w2b hx) hold
  · rw [h4]; intro k hk; exact absurd (s2 k hk).2 hold

/-- nothing the queue invariant reads changes -/
theorem qinv_same (s s' : S) (h1 : s'.workQ = s.workQ) (h2 : s'.reqQ = s.reqQ) (h3 : s'.spc = s.spc) (h4 : s'.shut = s.shut)
    (h5 : s'.w = s.w) (h6 : s'.wpc = s.wpc) (h : QInv s) : QInv s' := by
  obtain ⟨w1, w2, w2b, w3, r1, r2, r3, s1, s2⟩ := h
  exact ⟨by rw [h1]; exact w1, by rw [h1, h3]; exact w2, by rw [h6, h3]; exact w2b, by rw [h6, h1]; exact w3,
    by rw [h2]; exact r1, by rw [h2, h4]; exact r2, by rw [h3, h4, h2]; exact r3, by rw [h4, h5, h6]; exact s1,
    by rw [h4, h5, h3]; exact s2⟩

end S3V.ProcPool
