/- Preservation of the process-pool invariant: worker steps, continued. -/
import S3V.Lemmas.ProcPool4

namespace S3V.ProcPool

theorem inv_wTake (s s' : S) (i : Nat) (h : Inv s) (hs : step s (.wTake i) = some s') : Inv s' := by
  simp only [step] at hs
  split at hs
  · rename_i hg
    obtain ⟨hi, hpc⟩ := hg
    have hI := h
    obtain ⟨ti, wb, sl, sl', wf⟩ := h
    split at hs
    · cases hs
    · rename_i rest hq
      cases hs
      refine ⟨?_, wb_upd s i _ hi wb, sl, sl', ?_⟩
      · intro t
        obtain ⟨c1, c2, c3⟩ := cnt_move s i _ .exited t hi hpc
        simp [holds, isRan, isFin] at c1 c2 c3
        have := ti t
        rw [hq] at this
        simp only [S.cnt] at this ⊢
        rw [c1, c2, c3]
        simpa using this
      · exact wf_others s _ i _ rfl (fun _ => rfl) (fun _ => Nat.le_refl _) (fun _ h => h) (fun _ h => h) (fun _ h => h) wf
          (by simp [wFact, upd])
    · rename_i u rest hq
      cases hs
      have lk := link_frame s { s with wpc := upd s.wpc i (.took u), workQ := rest, t := upd s.t u { s.t u with taken := (s.t u).taken + 1 } } rfl
        (by intro v; by_cases e : v = u <;> simp [upd, e]) sl sl'
      refine ⟨?_, wb_upd s i _ hi wb, lk.1, lk.2, ?_⟩
      · intro t
        by_cases e : t = u
        · subst e
          obtain ⟨c1, c2, c3⟩ := cnt_move s i _ (.took t) t hi hpc
          obtain ⟨a, q, c, nn, d, e, hh, f, rq, p0, p0', p1, p2, p3, p4, p5, p6, p7, p8, p9, p10, g2, g4, g5, g6⟩ := ti t
          simp only [S.cnt] at *
          rw [hq] at q
          simp [holds, isRan, isFin] at c1 c2 c3 q
          simp only [upd, if_true]
          rw [c1, c2, c3]
          have hsub : (s.t t).sub ≠ .none := by
            intro hx
            have h0 := p0' (p0.mp hx)
            rw [h0] at q
            simp at q
          constructor
          case p0' => intro hn; exact absurd (p0.mpr hn) hsub
          all_goals (clear p0' hI ti wf sl sl' wb lk; tinv_field)
        · have r := refs_other u t e
          have hne : ¬ u = t := fun x => e x.symm
          refine ti_other s i _ _ u t _ rest hi hpc e r.2.2.2.2.2.2.2.2.1 r.1 ?_ (ti t)
          rw [hq]; simp [List.count_cons, hne]
      · refine wf_others s _ i _ rfl ?_ ?_ ?_ ?_ ?_ wf (by simp [wFact, upd]) <;> intro v <;> by_cases e : v = u <;> simp [upd, e]
  · cases hs

theorem inv_wDec (s s' : S) (i : Nat) (h : Inv s) (hs : step s (.wDec i) = some s') : Inv s' := by
  simp only [step] at hs
  split at hs
  · rename_i u hpc
    cases hs
    have hI := h
    obtain ⟨ti, wb, sl, sl', wf⟩ := h
    have hf := holds_facts s hI i u (by rw [hpc]; simp [holds])
    obtain ⟨hann, hlt, hF, hnd, hi⟩ := hf
    have hjobs := (ti u).d hann
    have lk := link_frame s { s with wpc := upd s.wpc i (if (s.t u).jobs - 1 = 0 then WPc.counted0 u else WPc.idle), t := upd s.t u { s.t u with jobs := (s.t u).jobs - 1, accounted := (s.t u).accounted + 1 } } rfl
      (by intro v; by_cases e : v = u <;> simp [upd, e]) sl sl'
    refine ⟨?_, wb_upd s i _ hi wb, lk.1, lk.2, ?_⟩
    · intro t
      by_cases e : t = u
      · subst e
        obtain ⟨c1, c2, c3⟩ := cnt_move s i _ (if (s.t t).jobs - 1 = 0 then WPc.counted0 t else WPc.idle) t hi hpc
        obtain ⟨a, q, c, nn, d, e, hh, f, rq, p0, p0', p1, p2, p3, p4, p5, p6, p7, p8, p9, p10, g2, g4, g5, g6⟩ := ti t
        have hsub : (s.t t).sub ≠ .none := sub_ne_none_of_announced s hI t hann
        simp only [S.cnt] at *
        have hdn : ¬((s.t t).done = true ∧ (s.t t).announced = true) := fun x => hnd x.1 x.2
        by_cases hz : (s.t t).jobs - 1 = 0
        · have hlast : (s.t t).accounted + 1 = (s.t t).n := by omega
          simp [hz, holds, isRan, isFin] at c1 c2 c3
          simp only [upd, if_true, hz]
          constructor
          case p0' => intro hn; exact absurd (p0.mpr hn) hsub
          case f =>
            show _ + (if (s.t t).done = true ∧ (s.t t).announced = true then 1 else 0) =
              (if (s.t t).announced = true ∧ (s.t t).accounted + 1 = (s.t t).n then 1 else 0)
            rw [if_neg hdn, if_pos ⟨hann, hlast⟩]; omega
          case d => intro _; simp only []; omega
          all_goals (clear p0' hI ti wf sl sl' wb lk; tinv_field)
        · have hlast : (s.t t).accounted + 1 ≠ (s.t t).n := by omega
          simp [hz, holds, isRan, isFin] at c1 c2 c3
          simp only [upd, if_true, hz]
          constructor
          case p0' => intro hn; exact absurd (p0.mpr hn) hsub
          case f =>
            show _ + (if (s.t t).done = true ∧ (s.t t).announced = true then 1 else 0) =
              (if (s.t t).announced = true ∧ (s.t t).accounted + 1 = (s.t t).n then 1 else 0)
            have hnl : ¬((s.t t).announced = true ∧ (s.t t).accounted + 1 = (s.t t).n) := fun x => hlast x.2
            rw [if_neg hdn, if_neg hnl]
            have : (if False then WPc.counted0 t else WPc.idle) = WPc.idle := if_neg (fun x => x)
            rw [this]; omega
          case d => intro _; simp only []; omega
          all_goals (clear p0' hI ti wf sl sl' wb lk; tinv_field)
      · have r := refs_other u t e
        by_cases hz : (s.t u).jobs - 1 = 0
        · simp only [hz, if_true]
          exact ti_other s i _ _ u t _ s.workQ hi hpc e r.2.2.1 r.2.2.2.1 rfl (ti t)
        · simp only [hz, if_false]
          exact ti_other s i _ _ u t _ s.workQ hi hpc e r.2.2.1 r.2.2.2.2.2.2.2.2.1 rfl (ti t)
    · refine wf_others s _ i _ rfl ?_ ?_ ?_ ?_ ?_ wf ?_
      · intro v; by_cases e : v = u <;> simp [upd, e]
      · intro v; by_cases e : v = u <;> simp [upd, e]
      · intro v; by_cases e : v = u <;> simp [upd, e]
      · intro v; by_cases e : v = u <;> simp [upd, e]
      · intro v; by_cases e : v = u <;> simp [upd, e]
      · by_cases hz : (s.t u).jobs - 1 = 0 <;> simp [wFact, upd, hz]
  · cases hs

end S3V.ProcPool
