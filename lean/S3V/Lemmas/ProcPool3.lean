/- Preservation of the process-pool invariant: submitter steps. -/
import S3V.Lemmas.ProcPool2

namespace S3V.ProcPool

/-- close one field of `TInv` for the touched download from the old fields -/
macro "tinv_field" : tactic =>
  `(tactic| first
    | assumption
    | (simp_all; done)
    | (simp_all; omega)
    | (intros; simp_all; done)
    | (intros; simp_all; omega)
    | omega)

/-- no finalizer while the submitter has not announced the download -/
theorem no_fin_unannounced (s : S) (h : Inv s) (u i : Nat) (hu : (s.t u).announced = false) :
    isFin u (s.wpc i) = false := by
  cases hf : isFin u (s.wpc i)
  · rfl
  · have := (fin_facts s h i u hf).1
    rw [hu] at this; cases this

theorem spcLink_congr (s s' : S) (hspc : s'.spc = s.spc)
    (hsub : ∀ v, (s.t v).sub ≠ .none → (s'.t v).sub = (s.t v).sub) (h : spcLink s) : spcLink s' := by
  unfold spcLink at h ⊢
  rw [hspc]
  cases hs : s.spc <;> simp only [hs] at h ⊢ <;>
    first
    | trivial
    | (rw [hsub _ (by rw [h]; simp)]; exact h)

theorem sl'_step (s : S) (u : Nat) (x' : PT) (spc' : SPc)
    (sl' : ∀ t, ((s.t t).sub = .sizing → s.spc = .sizing t) ∧ ((s.t t).sub = .allocated → s.spc = .allocated t) ∧
        ((s.t t).sub = .putting → s.spc = .putting t) ∧ ((s.t t).sub = .failing → s.spc = .failing t))
    (hact : ∀ t, t ≠ u → (s.t t).sub ≠ .sizing ∧ (s.t t).sub ≠ .allocated ∧ (s.t t).sub ≠ .putting ∧ (s.t t).sub ≠ .failing)
    (hu : (x'.sub = .sizing → spc' = .sizing u) ∧ (x'.sub = .allocated → spc' = .allocated u) ∧
        (x'.sub = .putting → spc' = .putting u) ∧ (x'.sub = .failing → spc' = .failing u)) :
    ∀ t, ((upd s.t u x' t).sub = .sizing → spc' = .sizing t) ∧ ((upd s.t u x' t).sub = .allocated → spc' = .allocated t) ∧
        ((upd s.t u x' t).sub = .putting → spc' = .putting t) ∧ ((upd s.t u x' t).sub = .failing → spc' = .failing t) := by
  intro t
  by_cases e : t = u
  · subst e; simpa [upd] using hu
  · have := hact t e
    simp only [upd, e, if_false]
    exact ⟨fun h => absurd h this.1, fun h => absurd h this.2.1, fun h => absurd h this.2.2.1, fun h => absurd h this.2.2.2⟩

/-- when the submitter is busy with `u`, no other download is in an active submitter phase -/
theorem others_inactive (s : S) (h : Inv s) (u : Nat)
    (hspc : s.spc = .sizing u ∨ s.spc = .allocated u ∨ s.spc = .putting u ∨ s.spc = .failing u) :
    ∀ t, t ≠ u → (s.t t).sub ≠ .sizing ∧ (s.t t).sub ≠ .allocated ∧ (s.t t).sub ≠ .putting ∧ (s.t t).sub ≠ .failing := by
  intro t e
  have := h.sl' t
  refine ⟨fun hx => ?_, fun hx => ?_, fun hx => ?_, fun hx => ?_⟩
  · have := this.1 hx; rcases hspc with h1 | h1 | h1 | h1 <;> rw [h1] at this <;> cases this <;> exact e rfl
  · have := this.2.1 hx; rcases hspc with h1 | h1 | h1 | h1 <;> rw [h1] at this <;> cases this <;> exact e rfl
  · have := this.2.2.1 hx; rcases hspc with h1 | h1 | h1 | h1 <;> rw [h1] at this <;> cases this <;> exact e rfl
  · have := this.2.2.2 hx; rcases hspc with h1 | h1 | h1 | h1 <;> rw [h1] at this <;> cases this <;> exact e rfl

theorem inv_subAlloc (s s' : S) (h : Inv s) (hs : step s .subAlloc = some s') : Inv s' := by
  simp only [step] at hs
  split at hs
  · rename_i u hspc
    cases hs
    have hI := h
    obtain ⟨ti, wb, sl, sl', wf⟩ := h
    have hsub : (s.t u).sub = .sizing := by simpa [spcLink, hspc] using sl
    have hann : (s.t u).announced = false := ((ti u).p1 (Or.inr (Or.inl hsub))).1
    refine ⟨?_, wb, ?_, ?_, ?_⟩
    · intro t
      by_cases e : t = u
      · subst e
        obtain ⟨a, q, c, nn, d, e, hh, f, rq, p0, -, p1, p2, p3, p4, p5, p6, p7, p8, p9, p10, g2, g4, g5, g6⟩ := ti t
        simp only [upd, if_true, S.cnt]
        constructor
        case p0' => intro hn; have := p0.mpr hn; simp [hsub] at this
        all_goals tinv_field
      · simpa [upd, e, S.cnt] using ti t
    · simp [spcLink, upd]
    · exact sl'_step s u _ _ sl' (others_inactive s hI u (Or.inl hspc)) (by simp)
    · intro i
      exact wf_upd_other s _ u _ i rfl rfl (no_fin_unannounced s hI u i hann) (wf i)
  · cases hs

theorem inv_subFail (s s' : S) (h : Inv s) (hs : step s .subFail = some s') : Inv s' := by
  simp only [step] at hs
  split at hs
  · rename_i u hspc
    cases hs
    have hI := h
    obtain ⟨ti, wb, sl, sl', wf⟩ := h
    have hsub : (s.t u).sub = .sizing := by simpa [spcLink, hspc] using sl
    have hann : (s.t u).announced = false := ((ti u).p1 (Or.inr (Or.inl hsub))).1
    refine ⟨?_, wb, ?_, ?_, ?_⟩
    · intro t
      by_cases e : t = u
      · subst e
        obtain ⟨a, q, c, nn, d, e, hh, f, rq, p0, -, p1, p2, p3, p4, p5, p6, p7, p8, p9, p10, g2, g4, g5, g6⟩ := ti t
        simp only [upd, if_true, S.cnt]
        constructor
        case p0' => intro hn; have := p0.mpr hn; simp [hsub] at this
        all_goals tinv_field
      · simpa [upd, e, S.cnt] using ti t
    · simp [spcLink, upd]
    · exact sl'_step s u _ _ sl' (others_inactive s hI u (Or.inl hspc)) (by simp)
    · intro i
      exact wf_upd_other s _ u _ i rfl rfl (no_fin_unannounced s hI u i hann) (wf i)
  · cases hs

theorem inv_subFailDone (s s' : S) (h : Inv s) (hs : step s .subFailDone = some s') : Inv s' := by
  simp only [step] at hs
  split at hs
  · rename_i u hspc
    cases hs
    have hI := h
    obtain ⟨ti, wb, sl, sl', wf⟩ := h
    have hsub : (s.t u).sub = .failing := by simpa [spcLink, hspc] using sl
    have hann : (s.t u).announced = false := ((ti u).p1 (Or.inr (Or.inr (Or.inr (Or.inl hsub))))).1
    refine ⟨?_, wb, ?_, ?_, ?_⟩
    · intro t
      by_cases e : t = u
      · subst e
        obtain ⟨a, q, c, nn, d, e, hh, f, rq, p0, -, p1, p2, p3, p4, p5, p6, p7, p8, p9, p10, g2, g4, g5, g6⟩ := ti t
        simp only [upd, if_true, S.cnt]
        constructor
        case p0' => intro hn; have := p0.mpr hn; simp [hsub] at this
        case f => simp [hann] at f ⊢; exact f
        all_goals tinv_field
      · simpa [upd, e, S.cnt] using ti t
    · simp [spcLink]
    · exact sl'_step s u _ _ sl' (others_inactive s hI u (Or.inr (Or.inr (Or.inr hspc)))) (by simp)
    · intro i
      exact wf_upd_other s _ u _ i rfl rfl (no_fin_unannounced s hI u i hann) (wf i)
  · cases hs

theorem inv_subAnnounce (s s' : S) (h : Inv s) (hs : step s .subAnnounce = some s') : Inv s' := by
  simp only [step] at hs
  split at hs
  · rename_i u hspc
    cases hs
    have hI := h
    obtain ⟨ti, wb, sl, sl', wf⟩ := h
    have hsub : (s.t u).sub = .allocated := by simpa [spcLink, hspc] using sl
    have hann : (s.t u).announced = false := ((ti u).p1 (Or.inr (Or.inr (Or.inl hsub)))).1
    refine ⟨?_, wb, ?_, ?_, ?_⟩
    · intro t
      by_cases e : t = u
      · subst e
        obtain ⟨a, q, c, nn, d, e, hh, f, rq, p0, -, p1, p2, p3, p4, p5, p6, p7, p8, p9, p10, g2, g4, g5, g6⟩ := ti t
        have hq0 := (p1 (Or.inr (Or.inr (Or.inl hsub)))).2
        have hacc : (s.t t).accounted = 0 := by omega
        have hcF : s.cnt (isFin t) = 0 := by
          have f2 := f
          rw [hann] at f2
          simp at f2
          exact f2
        simp only [upd, if_true, S.cnt] at *
        constructor
        case p0' => intro hn; have := p0.mpr hn; simp [hsub] at this
        case f =>
          have hd := (p3 hsub).1
          simp [hcF, hacc, hd]
          omega
        case d => simp [hacc]
        all_goals tinv_field
      · simpa [upd, e, S.cnt] using ti t
    · simp [spcLink, upd]
    · exact sl'_step s u _ _ sl' (others_inactive s hI u (Or.inr (Or.inl hspc))) (by simp)
    · intro i
      exact wf_upd_other s _ u _ i rfl rfl (no_fin_unannounced s hI u i hann) (wf i)
  · cases hs


theorem inv_subPut (s s' : S) (h : Inv s) (hs : step s .subPut = some s') : Inv s' := by
  simp only [step] at hs
  split at hs
  · rename_i u hspc
    split at hs
    · rename_i hlt
      cases hs
      have hI := h
      obtain ⟨ti, wb, sl, sl', wf⟩ := h
      have hsub : (s.t u).sub = .putting := by simpa [spcLink, hspc] using sl
      refine ⟨?_, wb, ?_, ?_, ?_⟩
      · intro t
        by_cases e : t = u
        · subst e
          obtain ⟨a, q, c, nn, d, e, hh, f, rq, p0, -, p1, p2, p3, p4, p5, p6, p7, p8, p9, p10, g2, g4, g5, g6⟩ := ti t
          have hann := (p6 hsub).1
          simp only [upd, if_true, S.cnt, count_append_some] at *
          by_cases hl : (s.t t).queued + 1 = (s.t t).n
          · simp only [hl, if_true]
            constructor
            case p0' => intro hn; have := p0.mpr hn; simp [hsub] at this
            all_goals tinv_field
          · simp only [hl, if_false]
            constructor
            case p0' => intro hn; have := p0.mpr hn; simp [hsub] at this
            all_goals tinv_field
        · have : ¬ u = t := fun x => e x.symm
          simpa [upd, e, S.cnt, count_append_some, this] using ti t
      · by_cases hl : (s.t u).queued + 1 = (s.t u).n <;> simp [spcLink, hl, upd]
      · refine sl'_step s u _ _ sl' (others_inactive s hI u (Or.inr (Or.inr (Or.inl hspc)))) ?_
        by_cases hl : (s.t u).queued + 1 = (s.t u).n <;> simp [hl]
      · intro i
        refine wf_frame s _ i rfl ?_ ?_ ?_ ?_ ?_ (wf i) <;> intro t <;> by_cases e : t = u <;> simp [upd, e]
    · cases hs
  · cases hs

theorem inv_subTake (s s' : S) (h : Inv s) (hs : step s .subTake = some s') : Inv s' := by
  simp only [step] at hs
  split at hs
  · rename_i hidle
    have hI := h
    obtain ⟨ti, wb, sl, sl', wf⟩ := h
    have hin : ∀ t, (s.t t).sub ≠ .sizing ∧ (s.t t).sub ≠ .allocated ∧ (s.t t).sub ≠ .putting ∧ (s.t t).sub ≠ .failing := by
      intro t
      have := sl' t
      rw [hidle] at this
      exact ⟨(fun hx => by cases this.1 hx), (fun hx => by cases this.2.1 hx), (fun hx => by cases this.2.2.1 hx),
        (fun hx => by cases this.2.2.2 hx)⟩
    split at hs
    · cases hs
    · rename_i rest hq
      cases hs
      refine ⟨?_, wb, by simp [spcLink], ?_, wf⟩
      · intro t
        have := ti t
        rw [hq] at this
        simpa [S.cnt] using this
      · intro t
        have := hin t
        exact ⟨fun hx => absurd hx this.1, fun hx => absurd hx this.2.1, fun hx => absurd hx this.2.2.1,
          fun hx => absurd hx this.2.2.2⟩
    · rename_i u rest hq
      cases hs
      have hu := (ti u).rq
      rw [hq] at hu
      simp only [List.count_cons_self] at hu
      have hsub : (s.t u).sub = .pending := by
        by_cases hp : (s.t u).sub = .pending
        · exact hp
        · rw [if_neg hp] at hu; omega
      have hrest : rest.count (some u) = 0 := by rw [if_pos hsub] at hu; omega
      have hann : (s.t u).announced = false := ((ti u).p1 (Or.inl hsub)).1
      refine ⟨?_, wb, ?_, ?_, ?_⟩
      · intro t
        by_cases e : t = u
        · subst e
          obtain ⟨a, q, c, nn, d, e, hh, f, rq, p0, -, p1, p2, p3, p4, p5, p6, p7, p8, p9, p10, g2, g4, g5, g6⟩ := ti t
          simp only [upd, if_true, S.cnt] at *
          constructor
          case p0' => intro hn; have := p0.mpr hn; simp [hsub] at this
          case rq => simp [hrest]
          all_goals tinv_field
        · have := ti t
          rw [hq] at this
          have hne : ¬ u = t := fun x => e x.symm
          simpa [upd, e, S.cnt, List.count_cons, hne] using this
      · simp [spcLink, upd]
      · refine sl'_step s u _ _ sl' (fun t _ => hin t) (by simp)
      · intro i
        exact wf_upd_other s _ u _ i rfl rfl (no_fin_unannounced s hI u i hann) (wf i)
  · cases hs

theorem inv_download (s s' : S) (n : Nat) (h : Inv s) (hs : step s (.download n) = some s') : Inv s' := by
  simp only [step] at hs
  split at hs
  · rename_i hg
    cases hs
    have hI := h
    obtain ⟨ti, wb, sl, sl', wf⟩ := h
    have hfresh : s.t s.nt = {} := (ti s.nt).p0' (Nat.le_refl _)
    have hsubn : (s.t s.nt).sub = .none := by rw [hfresh]
    refine ⟨?_, wb, ?_, ?_, ?_⟩
    · intro t
      by_cases e : t = s.nt
      · subst e
        obtain ⟨a, q, c, nn, d, e, hh, f, rq, p0, -, p1, p2, p3, p4, p5, p6, p7, p8, p9, p10, g2, g4, g5, g6⟩ := ti s.nt
        rw [hfresh] at a q e f rq
        simp at a q e f rq
        clear hfresh hI p1 p2 p3 p4 p5 p6 p7 p8 p9 p10 g2 g4 g5 g6 d hh c nn
        simp only [upd, if_true, S.cnt, count_append_some] at *
        constructor <;> simp_all <;> omega
      · obtain ⟨a, q, c, nn, d, e', hh, f, rq, p0, p0', p1, p2, p3, p4, p5, p6, p7, p8, p9, p10, g2, g4, g5, g6⟩ := ti t
        have hne : ¬ s.nt = t := fun x => e x.symm
        simp only [upd, e, if_false, S.cnt, count_append_some, hne, Nat.add_zero]
        exact ⟨a, q, c, nn, d, e', hh, f, rq, ⟨fun hx => by have := p0.mp hx; omega, fun hx => p0.mpr (by omega)⟩,
          fun hx => p0' (by omega), p1, p2, p3, p4, p5, p6, p7, p8, p9, p10, g2, g4, g5, g6⟩
    · refine spcLink_congr s _ rfl ?_ sl
      intro v hv
      have : v ≠ s.nt := fun x => hv (by rw [x]; exact hsubn)
      simp [upd, this]
    · intro t
      by_cases e : t = s.nt
      · subst e; simp [upd]
      · simpa [upd, e] using sl' t
    · intro i
      exact wf_upd_other s _ s.nt _ i rfl rfl (no_fin_unannounced s hI s.nt i (by rw [hfresh])) (wf i)
  · cases hs

end S3V.ProcPool
