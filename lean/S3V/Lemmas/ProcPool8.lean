/- Preservation of the queue invariant by every step, and the shutdown theorem's core. -/
import S3V.Lemmas.ProcPool7

namespace S3V.ProcPool

theorem mem_tail_of (x y : Option Nat) (q : List (Option Nat)) (h : y ∈ q) : y ∈ x :: q := List.mem_cons_of_mem _ h

theorem qinv_step (s s' : S) (l : Label) (hI : Inv s) (h : QInv s) (hs : step s l = some s') : QInv s' := by
  cases l with
  | download n =>
    simp only [step] at hs
    split at hs
    · rename_i hg
      cases hs
      obtain ⟨w1, w2, w2b, w3, r1, r2, r3, s1, s2⟩ := h
      have hnn : none ∉ s.reqQ := fun hx => r2 hx hg.1
      have hne : s.spc ≠ .exited := fun hx => (r3 hx).1 hg.1
      refine ⟨w1, w2, w2b, w3, sortedQ_append_some _ _ r1 hnn, ?_, fun hx => absurd hx hne, s1, s2⟩
      intro hx
      simp only [List.mem_append, List.mem_singleton] at hx
      rcases hx with hx | hx
      · exact absurd hx hnn
      · cases hx
    · cases hs
  | cancel t =>
    simp only [step] at hs
    split at hs
    · cases hs; exact qinv_same s _ rfl rfl rfl rfl rfl rfl h
    · cases hs
  | cancelAll =>
    simp only [step] at hs
    cases hs; exact qinv_same s _ rfl rfl rfl rfl rfl rfl h
  | shutBegin =>
    simp only [step] at hs
    split at hs
    · rename_i hg
      cases hs
      obtain ⟨w1, w2, w2b, w3, r1, r2, r3, s1, s2⟩ := h
      have hne : s.spc ≠ .exited := fun hx => (r3 hx).1 hg
      exact ⟨w1, w2, w2b, w3, sortedQ_append_none _ r1, fun _ => by simp, fun hx => absurd hx hne, by simp, by simp⟩
    · cases hs
  | shutSignal =>
    simp only [step] at hs
    obtain ⟨w1, w2, w2b, w3, r1, r2, r3, s1, s2⟩ := h
    split at hs
    · rename_i hb
      split at hs
      · rename_i hg
        cases hs
        refine ⟨sortedQ_append_none _ w1, fun _ => hg.1, w2b, ?_, r1, ?_, ?_, by simp, ?_⟩
        · intro hx t ht
          simp only [List.mem_append, List.mem_singleton] at ht
          rcases ht with ht | ht
          · exact w3 hx t ht
          · cases ht
        · intro hx; have := r2 hx; rw [hb] at this; simp
        · intro hx; have := r3 hx; exact ⟨by simp, this.2⟩
        · intro k _; exact ⟨hg.2, hg.1⟩
      · cases hs
    · rename_i k hb
      split at hs
      · rename_i hg
        cases hs
        have hk := s2 k hb
        refine ⟨sortedQ_append_none _ w1, fun _ => hk.2, w2b, ?_, r1, ?_, ?_, by simp, ?_⟩
        · intro hx t ht
          simp only [List.mem_append, List.mem_singleton] at ht
          rcases ht with ht | ht
          · exact w3 hx t ht
          · cases ht
        · intro _; simp
        · intro hx; have := r3 hx; exact ⟨by simp, this.2⟩
        · intro k' _; exact hk
      · cases hs
    · cases hs
  | shutReturn =>
    simp only [step] at hs
    obtain ⟨w1, w2, w2b, w3, r1, r2, r3, s1, s2⟩ := h
    split at hs
    · rename_i k hb
      split at hs
      · rename_i hg
        cases hs
        have hk := s2 k hb
        refine ⟨w1, w2, w2b, w3, r1, fun _ => by simp, fun hx => ⟨by simp, (r3 hx).2⟩, ?_, by simp⟩
        intro _
        refine ⟨?_, hk.1⟩
        intro i hi
        have := hg.2
        unfold allWorkersExited at this
        rw [List.all_eq_true] at this
        have := this i (List.mem_range.mpr hi)
        simpa using this
      · cases hs
    · cases hs
  | subTake =>
    simp only [step] at hs
    split at hs
    · rename_i hidle
      obtain ⟨w1, w2, w2b, w3, r1, r2, r3, s1, s2⟩ := h
      have hne : s.spc ≠ .exited := by rw [hidle]; simp
      split at hs
      · cases hs
      · rename_i rest hq
        cases hs
        rw [hq] at r1 r2
        have hshut := r2 (by simp)
        refine ⟨w1, fun _ => rfl, fun _ => rfl, w3, sortedQ_tail _ _ r1, fun _ => hshut,
          fun _ => ⟨hshut, sortedQ_head_none _ r1⟩, s1, fun k hk => ⟨(s2 k hk).1, rfl⟩⟩
      · rename_i t rest hq
        cases hs
        rw [hq] at r1 r2
        refine ⟨w1, fun hx => absurd (w2 hx) hne, fun hx => absurd (w2b hx) hne, w3, sortedQ_tail _ _ r1,
          fun hx => r2 (List.mem_cons_of_mem _ hx), fun hx => by simp at hx, s1, fun k hk => absurd (s2 k hk).2 hne⟩
    · cases hs
  | subAlloc =>
    simp only [step] at hs
    split at hs
    · rename_i u hspc
      cases hs
      exact qinv_smove s _ (by simp) (by rw [hspc]; simp) rfl rfl rfl rfl rfl h
    · cases hs
  | subFail =>
    simp only [step] at hs
    split at hs
    · rename_i u hspc
      cases hs
      exact qinv_smove s _ (by simp) (by rw [hspc]; simp) rfl rfl rfl rfl rfl h
    · cases hs
  | subFailDone =>
    simp only [step] at hs
    split at hs
    · rename_i u hspc
      cases hs
      exact qinv_smove s _ (by simp) (by rw [hspc]; simp) rfl rfl rfl rfl rfl h
    · cases hs
  | subAnnounce =>
    simp only [step] at hs
    split at hs
    · rename_i u hspc
      cases hs
      exact qinv_smove s _ (by simp) (by rw [hspc]; simp) rfl rfl rfl rfl rfl h
    · cases hs
  | subPut =>
    simp only [step] at hs
    split at hs
    · rename_i u hspc
      split at hs
      · cases hs
        obtain ⟨w1, w2, w2b, w3, r1, r2, r3, s1, s2⟩ := h
        have hne : s.spc ≠ .exited := by rw [hspc]; simp
        have hnn : none ∉ s.workQ := fun hx => hne (w2 hx)
        have hnx : ¬ ∃ i, s.wpc i = .exited := fun hx => hne (w2b hx)
        refine ⟨sortedQ_append_some _ _ w1 hnn, ?_, fun hx => absurd hx hnx, fun hx => absurd hx hnx, r1, r2, ?_, s1, ?_⟩
        · intro hx
          simp only [List.mem_append, List.mem_singleton] at hx
          rcases hx with hx | hx
          · exact absurd hx hnn
          · cases hx
        · intro hx; simp only at hx; split at hx <;> cases hx
        · intro k hk; exact absurd (s2 k hk).2 hne
      · cases hs
    · cases hs
  | wTake i =>
    simp only [step] at hs
    split at hs
    · rename_i hg
      obtain ⟨hi, hpc⟩ := hg
      obtain ⟨w1, w2, w2b, w3, r1, r2, r3, s1, s2⟩ := h
      have hnr : s.shut ≠ .returned := fun hx => by have := (s1 hx).1 i hi; rw [hpc] at this; cases this
      split at hs
      · cases hs
      · rename_i rest hq
        cases hs
        rw [hq] at w1 w2 w3
        have hsp := w2 (by simp)
        refine ⟨sortedQ_tail _ _ w1, fun _ => hsp, fun _ => hsp, fun _ => sortedQ_head_none _ w1, r1, r2, r3,
          fun hx => absurd hx hnr, s2⟩
      · rename_i t rest hq
        cases hs
        rw [hq] at w1 w2 w3
        have hnx : ¬ ∃ j, s.wpc j = .exited := fun hx => w3 hx t (by simp)
        have hex : (∃ j, upd s.wpc i (.took t) j = .exited) → ∃ j, s.wpc j = .exited := by
          rintro ⟨j, hj⟩
          by_cases e : j = i
          · subst e; simp [upd] at hj
          · simp [upd, e] at hj; exact ⟨j, hj⟩
        refine ⟨sortedQ_tail _ _ w1, fun hx => w2 (List.mem_cons_of_mem _ hx), fun hx => absurd (hex hx) hnx,
          fun hx => absurd (hex hx) hnx, r1, r2, r3, fun hx => absurd hx hnr, s2⟩
    · cases hs
  | wCheck i =>
    simp only [step] at hs
    split at hs
    · rename_i u hpc
      cases hs
      have hi : i < s.w := lt_w_of_ne_idle s hI i (by rw [hpc]; simp)
      refine qinv_wmove s _ i (if (s.t u).exc = true then WPc.ran u else WPc.running u) ?_ (by rw [hpc]; simp) rfl rfl rfl rfl rfl rfl hi h
      split <;> simp
    · cases hs
  | wWrite i =>
    simp only [step] at hs
    split at hs
    · rename_i u hpc
      split at hs
      · cases hs
        have hi : i < s.w := lt_w_of_ne_idle s hI i (by rw [hpc]; simp)
        exact qinv_wmove s _ i (.ran u) (by simp) (by rw [hpc]; simp) rfl rfl rfl rfl rfl rfl hi h
      · cases hs
    · cases hs
  | wFail i =>
    simp only [step] at hs
    split at hs
    · rename_i u hpc
      cases hs
      have hi : i < s.w := lt_w_of_ne_idle s hI i (by rw [hpc]; simp)
      exact qinv_wmove s _ i (.ran u) (by simp) (by rw [hpc]; simp) rfl rfl rfl rfl rfl rfl hi h
    · cases hs
  | wDec i =>
    simp only [step] at hs
    split at hs
    · rename_i u hpc
      cases hs
      have hi : i < s.w := lt_w_of_ne_idle s hI i (by rw [hpc]; simp)
      refine qinv_wmove s _ i (if (s.t u).jobs - 1 = 0 then WPc.counted0 u else WPc.idle) ?_ (by rw [hpc]; simp) rfl rfl rfl rfl rfl rfl hi h
      split <;> simp
    · cases hs
  | wFinCheck i =>
    simp only [step] at hs
    split at hs
    · rename_i u hpc
      cases hs
      have hi : i < s.w := lt_w_of_ne_idle s hI i (by rw [hpc]; simp)
      refine qinv_wmove s _ i (if (s.t u).exc = true then WPc.finRemove u else WPc.finRename u) ?_ (by rw [hpc]; simp) rfl rfl rfl rfl rfl rfl hi h
      split <;> simp
    · cases hs
  | wRemove i =>
    simp only [step] at hs
    split at hs
    · rename_i u hpc
      cases hs
      have hi : i < s.w := lt_w_of_ne_idle s hI i (by rw [hpc]; simp)
      exact qinv_wmove s _ i (.fsDone u) (by simp) (by rw [hpc]; simp) rfl rfl rfl rfl rfl rfl hi h
    · cases hs
  | wRename i ok =>
    simp only [step] at hs
    split at hs
    · rename_i u hpc
      have hi : i < s.w := lt_w_of_ne_idle s hI i (by rw [hpc]; simp)
      split at hs
      · cases hs
        exact qinv_wmove s _ i (.fsDone u) (by simp) (by rw [hpc]; simp) rfl rfl rfl rfl rfl rfl hi h
      · cases hs
        exact qinv_wmove s _ i (.renameFailed u) (by simp) (by rw [hpc]; simp) rfl rfl rfl rfl rfl rfl hi h
    · cases hs
  | wRenameExc i =>
    simp only [step] at hs
    split at hs
    · rename_i u hpc
      cases hs
      have hi : i < s.w := lt_w_of_ne_idle s hI i (by rw [hpc]; simp)
      exact qinv_wmove s _ i (.finRemove u) (by simp) (by rw [hpc]; simp) rfl rfl rfl rfl rfl rfl hi h
    · cases hs
  | wDone i =>
    simp only [step] at hs
    split at hs
    · rename_i u hpc
      cases hs
      have hi : i < s.w := lt_w_of_ne_idle s hI i (by rw [hpc]; simp)
      exact qinv_wmove s _ i .idle (by simp) (by rw [hpc]; simp) rfl rfl rfl rfl rfl rfl hi h
    · cases hs

end S3V.ProcPool
