/- Invariants of the transfer model, part 2: announcers, cleanup discipline, no false success. -/
import S3V.Lemmas.Xfer

namespace S3V.Xfer
open S3V.Coord (Status)

/-- success is absorbing; cancelled can only turn into success -/
theorem success_step (cfg : Cfg) (x x' : X) (l : Label) (h : x.status = .success) (hs : step cfg x l = some x') :
    x'.status = .success := by
  cases l <;> simp only [step] at hs <;>
    (repeat' (split at hs)) <;> (first | cases hs | skip) <;>
    (first | exact h | (simp_all [X.done, Status.isDone]))

theorem cancelled_step (cfg : Cfg) (x x' : X) (l : Label) (h : x.status = .cancelled) (hs : step cfg x l = some x') :
    x'.status = .cancelled ∨ x'.status = .success := by
  cases l <;> simp only [step] at hs <;>
    (repeat' (split at hs)) <;> (first | cases hs | skip) <;>
    (first | exact Or.inl h | (simp_all [X.done, Status.isDone]))

/-- misc facts about announcers, the done event and the submission phase -/
structure G3 (x : X) : Prop where
  ad : ∀ who, x.announced who = true → x.done = true
  pa : ∀ who, x.pc who ≠ .finished → x.announced who = true
  pe1 : ∀ who, x.pc who = .eventSet → x.event = true
  pe2 : ∀ who, x.pc who = .cbLock → x.event = true
  ba : x.abortBegun = true → ∃ who, x.announced who = true
  bo : x.abortOpen = true → x.abortBegun = true
  sq : x.subRunning = true → x.status ≠ .queued ∧ x.status ≠ .notStarted
  rk : ∀ k, x.requested k = true → x.ph k ≠ .idle

theorem g3_init : G3 ({} : X) := by constructor <;> simp

theorem pe_upd (pc : Nat → Pc) (v : Nat) (p q : Pc) (ev : Bool) (h : ∀ w, pc w = q → ev = true)
    (hp : p = q → ev = true) : ∀ w, upd pc v p w = q → ev = true := by
  intro w hw; unfold upd at hw; split at hw
  · exact hp hw
  · exact h w hw

set_option maxHeartbeats 6400000 in
theorem g3_step (cfg : Cfg) (x x' : X) (l : Label) (h : G3 x) (hs : step cfg x l = some x') : G3 x' := by
  obtain ⟨ad, pa, pe1, pe2, ba, bo, sq, rk⟩ := h
  cases l with
  | abortBegin who =>
    simp only [step] at hs
    split at hs
    · rename_i hg
      cases hs
      refine ⟨ad, ?_, ?_, ?_, fun _ => ⟨who, hg.1⟩, fun _ => rfl, sq, rk⟩
      · intro w hw
        by_cases hwv : w = who
        · subst hwv; exact hg.1
        · apply pa; simpa [upd, hwv] using hw
      · exact pe_upd x.pc _ _ _ _ pe1 (by simp)
      · exact pe_upd x.pc _ _ _ _ pe2 (by simp)
    · cases hs
  | _ =>
    simp only [step] at hs <;>
    (repeat' (split at hs)) <;> (first | cases hs | skip) <;>
    (first
      | exact ⟨ad, pa, pe1, pe2, ba, bo, sq, rk⟩
      | (constructor <;> first
          | assumption
          | (simp_all [upd, X.done, Status.isDone]; done)
          | (intro w; rename_i v _ ; by_cases hw : w = v <;> simp_all [upd, X.done, Status.isDone]; done)
          | (intro w; simp_all [upd, X.done, Status.isDone]; done)
          | (intro w hw; simp only [upd] at hw ⊢; split at hw <;> (try split) <;> simp_all [X.done, Status.isDone]; done)
          | (intro w hw; simp only [upd] at hw ⊢; (try split) <;> simp_all [X.done, Status.isDone]; done)
          | (intro w; simp only [upd]; split <;> simp_all [X.done, Status.isDone]; done)
          | (intro hh; simp_all [X.done, Status.isDone]; done)
          | (refine pe_upd x.pc _ _ _ _ pe1 ?_; simp_all; done)
          | (refine pe_upd x.pc _ _ _ _ pe2 ?_; simp_all; done)
          | (refine pe_upd x.pc _ _ _ _ pe2 ?_; intro _; rename_i hg _; exact pe1 _ hg.2.1)))

end S3V.Xfer

namespace S3V.Xfer
open S3V.Coord (Status)

/-- once any thread is inside `announce_done`, no task is running a request, and the only task
that can still be running is the announcing final task itself -/
theorem announcer_blocks (cfg : Cfg) (x : X) (g2 : G2 cfg x) (who : Nat) (hw : x.announced who = true) :
    (∀ j, x.ph j ≠ .req) ∧ (∀ j, x.ph j = .run → x.announced (j + 2) = true ∧ x.final j = true) := by
  obtain ⟨kb, st, ns, fs, fd, dd, dk, a0, a1, a2⟩ := g2
  have key : ∀ j, x.ph j = .run ∨ x.ph j = .req → (x.ph j = .run ∧ x.announced (j + 2) = true ∧ x.final j = true) := by
    intro j hj
    have hk : x.known j = true := st j (by rcases hj with h | h <;> rw [h] <;> simp)
    match who, hw with
    | 0, hw =>
      have := (a0 hw).1 j
      rw [this] at hk; cases hk
    | 1, hw =>
      have := (a1 hw).2 j hk
      rcases hj with h | h <;> rw [h] at this <;> cases this
    | i + 2, hw =>
      obtain ⟨hki, hfi, hpi, hdi⟩ := a2 i hw
      by_cases hji : j = i
      · subst hji
        rcases hpi with h | h
        · exact ⟨h, hw, hfi⟩
        · rcases hj with h' | h' <;> rw [h'] at h <;> cases h
      · have hmem := fd i j hki hfi hk hji
        have := dd i hdi j hmem
        rcases hj with h | h <;> rw [h] at this <;> cases this
  refine ⟨?_, ?_⟩
  · intro j hj
    have := (key j (Or.inr hj)).1
    rw [hj] at this; cases this
  · intro j hj
    exact (key j (Or.inl hj)).2

/-- the abort is only issued on a non-success status, and success is then out of reach;
an announcer that has left the cleanup phase saw success or an empty cleanup list -/
structure G4 (x : X) : Prop where
  ns : x.abortBegun = true → x.status ≠ .success
  cl : ∀ who, x.announced who = true → x.pc who ≠ .cleanupLock → x.pc who ≠ .aborting →
        (x.status = .success ∨ x.cleanupsPending = false)

theorem g4_init : G4 ({} : X) := by constructor <;> simp

end S3V.Xfer

namespace S3V.Xfer
open S3V.Coord (Status)

theorem cl_pc_move (x : X) (v : Nat) (p : Pc) (cl : ∀ who, x.announced who = true → x.pc who ≠ .cleanupLock → x.pc who ≠ .aborting →
        (x.status = .success ∨ x.cleanupsPending = false))
    (hv : x.announced v = true) (h1 : x.pc v ≠ .cleanupLock) (h2 : x.pc v ≠ .aborting) :
    ∀ who, x.announced who = true → upd x.pc v p who ≠ .cleanupLock → upd x.pc v p who ≠ .aborting →
        (x.status = .success ∨ x.cleanupsPending = false) := by
  intro w hw a b
  by_cases e : w = v
  · subst e; exact cl w hv h1 h2
  · simp only [upd, e, if_false] at a b; exact cl w hw a b

set_option maxHeartbeats 6400000 in
theorem g4_step (cfg : Cfg) (x x' : X) (l : Label) (h : G4 x) (g2 : G2 cfg x) (g3 : G3 x)
    (hs : step cfg x l = some x') : G4 x' := by
  obtain ⟨ns, cl⟩ := h
  cases l with
  | registerAbort j =>
    simp only [step] at hs
    split at hs
    · rename_i hg
      cases hs
      refine ⟨ns, ?_⟩
      intro who hw _ _
      have := (announcer_blocks cfg x g2 who hw).2 j hg.1
      simp_all
    · cases hs
  | setResult j =>
    simp only [step] at hs
    split at hs
    · rename_i hg
      cases hs
      refine ⟨?_, fun _ _ _ _ => Or.inl rfl⟩
      intro hb
      obtain ⟨who, hw⟩ := g3.ba hb
      have := (announcer_blocks cfg x g2 who hw).2 j hg.1
      simp_all
    · cases hs
  | eventSet who =>
    simp only [step] at hs
    split at hs
    · rename_i hg; cases hs
      exact ⟨ns, cl_pc_move x who _ cl hg.1 (by rw [hg.2]; simp) (by rw [hg.2]; simp)⟩
    · cases hs
  | cbLock who =>
    simp only [step] at hs
    split at hs
    · rename_i hg; cases hs
      exact ⟨ns, cl_pc_move x who _ cl hg.1 (by rw [hg.2.1]; simp) (by rw [hg.2.1]; simp)⟩
    · cases hs
  | annEnd who =>
    simp only [step] at hs
    split at hs
    · rename_i hg; cases hs
      have ha : x.announced who = true := g3.pa who (by rw [hg.1]; simp)
      exact ⟨ns, cl_pc_move x who _ cl ha (by rw [hg.1]; simp) (by rw [hg.1]; simp)⟩
    · cases hs
  | _ =>
    simp only [step] at hs <;>
    (repeat' (split at hs)) <;> (first | cases hs | skip) <;>
    (first
      | exact ⟨ns, cl⟩
      | (constructor <;> first
          | assumption
          | (simp_all [upd, X.done, Status.isDone]; done)
          | (intro w hw h1 h2; simp only [upd] at hw h1 h2 ⊢; (try split at h1) <;> simp_all [X.done, Status.isDone]; done)
          | (intro w hw h1 h2; have := cl w; simp_all [upd, X.done, Status.isDone]; done)
          | (intro w hw; exfalso; have := g3.ad w hw; simp_all [X.done, Status.isDone]; done)))

end S3V.Xfer

namespace S3V.Xfer
open S3V.Coord (Status)

/-- failures are recorded before a task ends, a recorded failure makes the transfer done, and a
final task that decided to run its main saw every other task ended without a failed request -/
structure G5 (x : X) : Prop where
  r1 : ∀ k, x.recorded k = true → x.done = true
  r2 : ∀ k, x.res k = .failed → x.ph k = .ended → x.recorded k = true
  r5 : ∀ k, x.res k ≠ .none → x.decided k = .runMain ∧ x.ph k ≠ .idle ∧ x.ph k ≠ .req
  r6 : ∀ k, x.ph k = .req → x.decided k = .runMain ∧ x.requested k = true
  r7 : ∀ k, x.res k ≠ .none → x.requested k = true
  r3 : ∀ j, x.final j = true → x.decided j = .runMain → ∀ k, x.known k = true → k ≠ j → x.res k ≠ .failed ∧ x.ph k = .ended
  r4 : x.status = .success → ∃ j, x.final j = true ∧ x.decided j = .runMain ∧ x.res j = .ok ∧ x.known j = true

theorem g5_init : G5 ({} : X) := by constructor <;> simp

set_option maxHeartbeats 6400000 in
theorem g5_step (cfg : Cfg) (x x' : X) (l : Label) (h : G5 x) (g2 : G2 cfg x)
    (hs : step cfg x l = some x') : G5 x' := by
  obtain ⟨r1, r2, r5, r6, r7, r3, r4⟩ := h
  obtain ⟨kb, st, ns, fs, fd, dd, dk, a0, a1, a2⟩ := g2
  cases l with
  | submit j f d =>
    simp only [step] at hs
    split at hs
    · rename_i hg; cases hs
      obtain ⟨g1, g2', g3, g4, g5, g6, g7, g8⟩ := hg
      have hnk : x.known j = false := by simpa using g5
      have hidle : x.ph j = .idle := by
        by_cases hh : x.ph j = .idle
        · exact hh
        · have := st j hh; rw [hnk] at this; cases this
      refine ⟨r1, r2, r5, r6, r7, ?_, ?_⟩
      · intro i hf hd k hk hne
        have hpi : x.ph i ≠ .idle := dk i (by rw [hd]; simp)
        have hki : x.known i = true := st i hpi
        have hij : i ≠ j := by intro e; subst e; rw [hnk] at hki; cases hki
        have hfi : x.final i = true := by simpa [upd, hij] using hf
        have := fs i hki hfi
        simp_all
      · intro hsu
        obtain ⟨j0, h1, h2, h3, h4⟩ := r4 hsu
        have hne : j0 ≠ j := by intro e; subst e; rw [hnk] at h4; cases h4
        exact ⟨j0, by simpa [upd, hne] using h1, h2, h3, by simpa [upd, hne] using h4⟩
    · cases hs
  | taskStart j =>
    simp only [step] at hs
    split at hs
    · rename_i hg; cases hs
      obtain ⟨g1, g2'⟩ := hg
      refine ⟨r1, ?_, ?_, ?_, r7, ?_, r4⟩
      · intro k hk hp
        by_cases e : k = j
        · subst e; simp [upd] at hp
        · exact r2 k hk (by simpa [upd, e] using hp)
      · intro k hk
        have := r5 k hk
        by_cases e : k = j
        · subst e; rw [g2'] at this; simp at this
        · simpa [upd, e] using this
      · intro k hk
        by_cases e : k = j
        · subst e; simp [upd] at hk
        · exact r6 k (by simpa [upd, e] using hk)
      · intro i hf hd k hk hne
        have := r3 i hf hd k hk hne
        by_cases e : k = j
        · subst e; rw [g2'] at this; simp at this
        · simpa [upd, e] using this
    · cases hs
  | decide j r =>
    simp only [step] at hs
    split at hs
    · rename_i hg; cases hs
      obtain ⟨g1, g2', g3, g4⟩ := hg
      have hkj : x.known j = true := st j (by rw [g1]; simp)
      have hde := (depsEnded_iff x j).mp g3
      have hresj : x.res j = .none := by
        by_cases e : x.res j = .none
        · exact e
        · have := (r5 j e).1; rw [g2'] at this; cases this
      refine ⟨r1, r2, ?_, ?_, r7, ?_, ?_⟩
      · intro k hk
        by_cases e : k = j
        · subst e; exact absurd hresj hk
        · have := r5 k hk; simpa [upd, e] using this
      · intro k hk
        by_cases e : k = j
        · subst e; rw [g1] at hk; cases hk
        · have := r6 k hk; simpa [upd, e] using this
      · intro i hf hd k hk hne
        by_cases e : i = j
        · subst e
          have hr : r = true := by
            by_cases hr : r = true
            · exact hr
            · simp [upd, hr] at hd
          have hnd : x.done = false := by rw [hr] at g4; simpa using g4
          have hpk := hde k (fd i k hkj hf hk hne)
          refine ⟨?_, hpk⟩
          intro hfail
          have := r1 k (r2 k hfail hpk)
          rw [hnd] at this; cases this
        · exact r3 i hf (by simpa [upd, e] using hd) k hk hne
      · intro hsu
        obtain ⟨j0, h1, h2, h3, h4⟩ := r4 hsu
        have hne : j0 ≠ j := by intro e; subst e; rw [g2'] at h2; cases h2
        exact ⟨j0, h1, by simpa [upd, hne] using h2, h3, h4⟩
    · cases hs
  | reqBegin j =>
    simp only [step] at hs
    split at hs
    · rename_i hg; cases hs
      obtain ⟨g1, g2', g3, g4⟩ := hg
      have hresj : x.res j = .none := by
        by_cases e : x.res j = .none
        · exact e
        · exfalso
          have := r7 j e
          simp_all
      refine ⟨r1, ?_, ?_, ?_, ?_, ?_, r4⟩
      · intro k hk hp
        by_cases e : k = j
        · subst e; simp [upd] at hp
        · exact r2 k hk (by simpa [upd, e] using hp)
      · intro k hk
        by_cases e : k = j
        · subst e; exact absurd hresj hk
        · have := r5 k hk; simpa [upd, e] using this
      · intro k hk
        by_cases e : k = j
        · subst e; exact ⟨g2', by simp [upd]⟩
        · have := r6 k (by simpa [upd, e] using hk); simpa [upd, e] using this
      · intro k hk
        by_cases e : k = j
        · subst e; simp [upd]
        · have := r7 k hk; simpa [upd, e] using this
      · intro i hf hd k hk hne
        have := r3 i hf hd k hk hne
        by_cases e : k = j
        · subst e; rw [g1] at this; simp at this
        · simpa [upd, e] using this
    · cases hs
  | reqEnd j ok =>
    simp only [step] at hs
    split at hs
    · rename_i hg; cases hs
      have hdj := (r6 j hg).1
      have hreq : x.requested j = true := (r6 j hg).2
      refine ⟨r1, ?_, ?_, ?_, ?_, ?_, ?_⟩
      · intro k hk hp
        by_cases e : k = j
        · subst e; simp [upd] at hp
        · exact r2 k (by simpa [upd, e] using hk) (by simpa [upd, e] using hp)
      · intro k hk
        by_cases e : k = j
        · subst e; simp [upd, hdj]
        · have := r5 k (by simpa [upd, e] using hk); simpa [upd, e] using this
      · intro k hk
        by_cases e : k = j
        · subst e; simp [upd] at hk
        · exact r6 k (by simpa [upd, e] using hk)
      · intro k hk
        by_cases e : k = j
        · subst e; exact hreq
        · exact r7 k (by simpa [upd, e] using hk)
      · intro i hf hd k hk hne
        have := r3 i hf hd k hk hne
        by_cases e : k = j
        · subst e; rw [hg] at this; simp at this
        · simpa [upd, e] using this
      · intro hsu
        obtain ⟨j0, h1, h2, h3, h4⟩ := r4 hsu
        have hne : j0 ≠ j := by
          intro e; subst e
          have := (r5 j0 (by rw [h3]; simp)).2.2
          exact this hg
        exact ⟨j0, h1, h2, by simpa [upd, hne] using h3, h4⟩
    · cases hs
  | mainFail j =>
    simp only [step] at hs
    split at hs
    · rename_i hg; cases hs
      obtain ⟨g1, g2', g3, g4, g5⟩ := hg
      have hne : x.res j ≠ .none := by rw [g2']; simp
      refine ⟨r1, ?_, ?_, r6, ?_, ?_, ?_⟩
      · intro k hk hp
        by_cases e : k = j
        · subst e; rw [g1] at hp; cases hp
        · exact r2 k (by simpa [upd, e] using hk) hp
      · intro k hk
        by_cases e : k = j
        · subst e; exact r5 k hne
        · exact r5 k (by simpa [upd, e] using hk)
      · intro k hk
        by_cases e : k = j
        · subst e; exact r7 k hne
        · exact r7 k (by simpa [upd, e] using hk)
      · intro i hf hd k hk hne'
        have := r3 i hf hd k hk hne'
        by_cases e : k = j
        · subst e; rw [g1] at this; simp at this
        · simpa [upd, e] using this
      · intro hsu
        obtain ⟨j0, h1, h2, h3, h4⟩ := r4 hsu
        have hne0 : j0 ≠ j := by
          intro e; subst e
          exact g5 h1 hsu
        exact ⟨j0, h1, h2, by simpa [upd, hne0] using h3, h4⟩
    · cases hs
  | setResult j =>
    simp only [step] at hs
    split at hs
    · rename_i hg; cases hs
      obtain ⟨g1, g2', g3, g4⟩ := hg
      refine ⟨?_, r2, r5, r6, r7, r3, ?_⟩
      · intro k _; simp [X.done, Status.isDone]
      · intro _
        exact ⟨j, g2', (r5 j (by rw [g3]; simp)).1, g3, st j (by rw [g1]; simp)⟩
    · cases hs
  | taskEnd j =>
    simp only [step] at hs
    split at hs
    · rename_i hg; cases hs
      obtain ⟨g1, g2', g3, g4, g5⟩ := hg
      refine ⟨r1, ?_, ?_, ?_, r7, ?_, r4⟩
      · intro k hk hp
        by_cases e : k = j
        · subst e; exact g3 hk
        · exact r2 k hk (by simpa [upd, e] using hp)
      · intro k hk
        have := r5 k hk
        by_cases e : k = j
        · subst e; simp [upd, this.1]
        · simpa [upd, e] using this
      · intro k hk
        by_cases e : k = j
        · subst e; simp [upd] at hk
        · exact r6 k (by simpa [upd, e] using hk)
      · intro i hf hd k hk hne
        have := r3 i hf hd k hk hne
        by_cases e : k = j
        · subst e; rw [g1] at this; simp at this
        · simpa [upd, e] using this
    · cases hs
  | _ =>
    simp only [step] at hs <;>
    (repeat' (split at hs)) <;> (first | cases hs | skip) <;>
    (first
      | exact ⟨r1, r2, r5, r6, r7, r3, r4⟩
      | (constructor <;> first
          | assumption
          | (simp_all [upd, X.done, Status.isDone]; done)
          | (intro k hk; by_cases e : k = _ <;> simp_all [upd, X.done, Status.isDone]; done)))

end S3V.Xfer

namespace S3V.Xfer
/-- a registered abort that is no longer pending has been issued -/
structure G6 (x : X) : Prop where
  rd : x.abortRegistered = true → x.cleanupsPending = false → x.abortCount = 1

theorem g6_init : G6 ({} : X) := by constructor; simp

theorem g6_step (cfg : Cfg) (x x' : X) (l : Label) (h : G6 x) (g1 : G1 x) (hs : step cfg x l = some x') : G6 x' := by
  obtain ⟨rd⟩ := h
  obtain ⟨h1, h2, h3, h4, h5, h6, h7, h8, h9⟩ := g1
  cases l <;> simp only [step] at hs <;>
    (repeat' (split at hs)) <;> (first | cases hs | skip) <;>
    (first
      | exact ⟨rd⟩
      | (constructor; simp_all; done)
      | (constructor; intro a b; simp_all; done)
      | (constructor; intro a b; simp_all; omega))
end S3V.Xfer

namespace S3V.Xfer
open S3V.Coord (Status)

end S3V.Xfer
