/- Preservation of the process-pool invariant: user and submitter steps. -/
import S3V.Lemmas.ProcPool

namespace S3V.ProcPool

theorem TInv_exc (x : PT) (cH cR cF qW qR nt t : Nat) (h : TInv x cH cR cF qW qR nt t) (hs : x.sub ≠ .none) :
    TInv { x with exc := true } cH cR cF qW qR nt t := by
  obtain ⟨a, q, c, nn, d, e, hh, f, rq, p0, p0', p1, p2, p3, p4, p5, p6, p7, p8, p9, p10, g2, g4, g5, g6⟩ := h
  refine ⟨a, q, c, nn, d, by simp, hh, f, rq, p0, ?_, p1, p2, p3, ?_, p5, p6, p7, p8, p9, p10, g2, g4, by simp, g6⟩
  · intro hn; exact absurd (p0.mpr hn) hs
  · intro hp; have := p4 hp; simp [this]

theorem count_append_none (q : List (Option Nat)) (t : Nat) : (q ++ [none]).count (some t) = q.count (some t) := by
  simp [List.count_append]

theorem count_append_some (q : List (Option Nat)) (t u : Nat) :
    (q ++ [some u]).count (some t) = q.count (some t) + (if u = t then 1 else 0) := by
  simp [List.count_append, List.count_cons]

/-- the two submitter-link parts only read `spc` and the history variable -/
theorem link_frame (s s' : S) (hspc : s'.spc = s.spc) (hsub : ∀ u, (s'.t u).sub = (s.t u).sub)
    (sl : spcLink s)
    (sl' : ∀ t, ((s.t t).sub = .sizing → s.spc = .sizing t) ∧ ((s.t t).sub = .allocated → s.spc = .allocated t) ∧
        ((s.t t).sub = .putting → s.spc = .putting t) ∧ ((s.t t).sub = .failing → s.spc = .failing t)) :
    spcLink s' ∧ ∀ t, ((s'.t t).sub = .sizing → s'.spc = .sizing t) ∧ ((s'.t t).sub = .allocated → s'.spc = .allocated t) ∧
        ((s'.t t).sub = .putting → s'.spc = .putting t) ∧ ((s'.t t).sub = .failing → s'.spc = .failing t) := by
  constructor
  · unfold spcLink at sl ⊢
    rw [hspc]
    split <;> simp_all
  · intro t
    rw [hspc, hsub]
    exact sl' t

/-- a worker's fact survives any step that leaves its pc alone and changes the download records
monotonically -/
theorem wf_frame (s s' : S) (i : Nat) (hpc : s'.wpc i = s.wpc i)
    (hn : ∀ u, (s'.t u).n = (s.t u).n) (hw : ∀ u, (s.t u).written ≤ (s'.t u).written)
    (he : ∀ u, (s.t u).exc = true → (s'.t u).exc = true)
    (ht : ∀ u, (s.t u).temp = false → (s'.t u).temp = false)
    (hr : ∀ u, (s.t u).renamed = true → (s'.t u).renamed = true)
    (h : wFact s i) : wFact s' i := by
  unfold wFact at h ⊢
  rw [hpc]
  split
  · rename_i t heq
    rw [heq] at h
    simp only at h
    rw [hn]; exact Nat.le_trans h (hw t)
  · rename_i t heq
    rw [heq] at h
    exact he t h
  · rename_i t heq
    rw [heq] at h
    refine ⟨ht t h.1, fun hx => hr t (h.2 ?_)⟩
    cases hb : (s.t t).exc
    · rfl
    · rw [he t hb] at hx; cases hx
  · trivial

theorem lt_w_of_ne_idle (s : S) (h : Inv s) (i : Nat) (hne : s.wpc i ≠ .idle) : i < s.w := by
  by_cases hi : i < s.w
  · exact hi
  · exact absurd (h.wb i (by omega)) hne

/-- a finalizing worker exists only when every job of the download has been counted -/
theorem fin_facts (s : S) (h : Inv s) (i u : Nat) (hf : isFin u (s.wpc i) = true) :
    (s.t u).announced = true ∧ (s.t u).accounted = (s.t u).n ∧ (s.t u).done = false ∧ s.cnt (holds u) = 0 ∧
    s.cnt (isRan u) = 0 ∧ (s.t u).queued = (s.t u).n ∧ ((s.t u).sub = .putting ∨ (s.t u).sub = .queuedAll) := by
  have hi : i < s.w := lt_w_of_ne_idle s h i (fun e => by rw [e] at hf; simp [isFin] at hf)
  have hc := cntW_pos s.w s.wpc i (isFin u) hi hf
  have ti := h.ti u
  have f := ti.f
  unfold S.cnt at f
  have hann : (s.t u).announced = true ∧ (s.t u).accounted = (s.t u).n := by
    by_cases hx : (s.t u).announced = true ∧ (s.t u).accounted = (s.t u).n
    · exact hx
    · rw [if_neg hx] at f; omega
  have hdone : (s.t u).done = false := by
    cases hd : (s.t u).done
    · rfl
    · rw [if_pos hann, if_pos ⟨hd, hann.1⟩] at f; omega
  have a := ti.a
  have q := ti.q
  have c := ti.c
  have hH : s.cnt (holds u) = 0 := by omega
  have hR : s.cnt (isRan u) = 0 := by
    have := cntW_mono s.w s.wpc (isRan u) (holds u) (isRan_holds u)
    unfold S.cnt at hH ⊢; omega
  refine ⟨hann.1, hann.2, hdone, hH, hR, by omega, ?_⟩
  have p1 := ti.p1
  have p0 := ti.p0
  have p0' := ti.p0'
  cases hs : (s.t u).sub <;> simp_all

/-- a worker that holds a job of `u`: the download was announced and is not done -/
theorem holds_facts (s : S) (h : Inv s) (i u : Nat) (hf : holds u (s.wpc i) = true) :
    (s.t u).announced = true ∧ (s.t u).accounted < (s.t u).n ∧ s.cnt (isFin u) = 0 ∧
    ((s.t u).done = true → (s.t u).announced = true → False) ∧ i < s.w := by
  have hi : i < s.w := lt_w_of_ne_idle s h i (fun e => by rw [e] at hf; simp [holds] at hf)
  have hc := cntW_pos s.w s.wpc i (holds u) hi hf
  have ti := h.ti u
  have a := ti.a
  have q := ti.q
  have c := ti.c
  unfold S.cnt at a
  have hlt : (s.t u).accounted < (s.t u).n := by omega
  have hq : 1 ≤ (s.t u).queued := by omega
  have hann : (s.t u).announced = true := by
    cases hs : (s.t u).sub with
    | none => have := ti.p0' (ti.p0.mp hs); rw [this] at hq; exact absurd hq (by decide)
    | pending => have := (ti.p1 (Or.inl hs)).2; omega
    | sizing => have := (ti.p1 (Or.inr (Or.inl hs))).2; omega
    | allocated => have := (ti.p1 (Or.inr (Or.inr (Or.inl hs)))).2; omega
    | failing => have := (ti.p1 (Or.inr (Or.inr (Or.inr (Or.inl hs))))).2; omega
    | failedDone => have := (ti.p1 (Or.inr (Or.inr (Or.inr (Or.inr hs))))).2; omega
    | putting => exact (ti.p6 hs).1
    | queuedAll => exact (ti.p7 hs).1
  have f := ti.f
  have hne : ¬((s.t u).announced = true ∧ (s.t u).accounted = (s.t u).n) := by omega
  rw [if_neg hne] at f
  have hF : s.cnt (isFin u) = 0 := by
    have f2 := f
    split at f2 <;> omega
  refine ⟨hann, hlt, hF, ?_, hi⟩
  intro hd ha
  rw [if_pos ⟨hd, ha⟩] at f; omega

/-- a worker that is not finalizing `u` does not care what happens to `u`'s record -/
theorem wf_upd_other (s s' : S) (u : Nat) (x' : PT) (i : Nat) (hpc : s'.wpc i = s.wpc i) (ht : s'.t = upd s.t u x')
    (hf : isFin u (s.wpc i) = false) (h : wFact s i) : wFact s' i := by
  unfold wFact at h ⊢
  rw [hpc, ht]
  split
  · rename_i t heq
    rw [heq] at h hf
    have e : t ≠ u := by simpa [isFin] using hf
    simpa [upd, e] using h
  · rename_i t heq
    rw [heq] at h hf
    have e : t ≠ u := by simpa [isFin] using hf
    simpa [upd, e] using h
  · rename_i t heq
    rw [heq] at h hf
    have e : t ≠ u := by simpa [isFin] using hf
    simpa [upd, e] using h
  · trivial

theorem inv_cancel (s s' : S) (t : Nat) (h : Inv s) (hs : step s (.cancel t) = some s') : Inv s' := by
  simp only [step] at hs
  split at hs
  · rename_i ht
    cases hs
    obtain ⟨ti, wb, sl, sl', wf⟩ := h
    have hsub : (s.t t).sub ≠ .none := fun e => by have := (ti t).p0.mp e; omega
    refine ⟨?_, wb, ?_, ?_, ?_⟩
    · intro u
      by_cases e : u = t
      · subst e; simpa [upd, S.cnt] using TInv_exc _ _ _ _ _ _ _ _ (ti u) hsub
      · simpa [upd, e, S.cnt] using ti u
    · unfold spcLink at sl ⊢
      simp only
      split <;> simp_all [upd] <;> (split <;> simp_all)
    · intro u
      have := sl' u
      by_cases e : u = t
      · subst e; simpa [upd] using this
      · simpa [upd, e] using this
    · intro i
      have := wf i
      unfold wFact at this ⊢
      simp only
      split <;> simp_all [upd] <;> (split <;> simp_all)
  · cases hs


theorem inv_cancelAll (s s' : S) (h : Inv s) (hs : step s .cancelAll = some s') : Inv s' := by
  simp only [step] at hs
  cases hs
  obtain ⟨ti, wb, sl, sl', wf⟩ := h
  have hsubs : ∀ u, ((if u < s.nt ∧ (s.t u).done = false then { s.t u with exc := true } else s.t u) : PT).sub = (s.t u).sub := by
    intro u; split <;> rfl
  have lk := link_frame s { s with t := fun k => if k < s.nt ∧ (s.t k).done = false then { s.t k with exc := true } else s.t k }
    rfl hsubs sl sl'
  refine ⟨?_, wb, lk.1, lk.2, ?_⟩
  · intro u
    simp only [S.cnt]
    split
    · rename_i hu
      have hsub : (s.t u).sub ≠ .none := fun e => by have := (ti u).p0.mp e; omega
      exact TInv_exc _ _ _ _ _ _ _ _ (ti u) hsub
    · exact ti u
  · intro i
    refine wf_frame s _ i rfl ?_ ?_ ?_ ?_ ?_ (wf i)
    · intro u; simp only; split <;> rfl
    · intro u; simp only; split <;> simp
    · intro u hu; simp only; split <;> simp [hu]
    · intro u hu; simp only; split <;> simp [hu]
    · intro u hu; simp only; split <;> simp [hu]

theorem inv_shutBegin (s s' : S) (h : Inv s) (hs : step s .shutBegin = some s') : Inv s' := by
  simp only [step] at hs
  split at hs
  · cases hs
    obtain ⟨ti, wb, sl, sl', wf⟩ := h
    refine ⟨?_, wb, sl, sl', wf⟩
    intro u
    simpa [S.cnt, count_append_none] using ti u
  · cases hs

theorem inv_shutSignal (s s' : S) (h : Inv s) (hs : step s .shutSignal = some s') : Inv s' := by
  simp only [step] at hs
  obtain ⟨ti, wb, sl, sl', wf⟩ := h
  split at hs
  · split at hs
    · cases hs
      refine ⟨?_, wb, sl, sl', wf⟩
      intro u
      simpa [S.cnt, count_append_none] using ti u
    · cases hs
  · split at hs
    · cases hs
      refine ⟨?_, wb, sl, sl', wf⟩
      intro u
      simpa [S.cnt, count_append_none] using ti u
    · cases hs
  · cases hs

theorem inv_shutReturn (s s' : S) (h : Inv s) (hs : step s .shutReturn = some s') : Inv s' := by
  simp only [step] at hs
  obtain ⟨ti, wb, sl, sl', wf⟩ := h
  split at hs
  · split at hs
    · cases hs; exact ⟨ti, wb, sl, sl', wf⟩
    · cases hs
  · cases hs

end S3V.ProcPool
