/- Helper lemmas for C02 / C09 (download part): chunk lists of an attempt, their events. -/
import S3V.Model.Download

namespace S3V.Download

theorem scriptedChunks_spec (io rem : Nat) (script : List Nat) :
    (scriptedChunks io rem script).1.sum + (scriptedChunks io rem script).2 = rem ∧
    ∀ c ∈ (scriptedChunks io rem script).1, 0 < c ∧ c ≤ io := by
  induction script generalizing rem with
  | nil => simp [scriptedChunks]
  | cons s ss ih =>
    unfold scriptedChunks
    by_cases h : min (min s io) rem = 0
    · rw [if_pos h]; simp
    · rw [if_neg h]
      obtain ⟨i1, i2⟩ := ih (rem - min (min s io) rem)
      refine ⟨?_, ?_⟩
      · simp only [List.sum_cons]; omega
      · intro c hc
        simp only [List.mem_cons] at hc
        rcases hc with rfl | hc
        · omega
        · exact i2 c hc

theorem fullChunks_spec (io fuel rem : Nat) (hio : 0 < io) (hf : rem ≤ fuel) :
    (fullChunks io fuel rem).sum = rem ∧ ∀ c ∈ fullChunks io fuel rem, 0 < c ∧ c ≤ io := by
  induction fuel generalizing rem with
  | zero =>
    have : rem = 0 := by omega
    subst this; simp [fullChunks]
  | succ fuel ih =>
    unfold fullChunks
    by_cases hz : rem = 0 ∨ io = 0
    · rw [if_pos hz]
      have : rem = 0 := by omega
      simp [this]
    · rw [if_neg hz]
      obtain ⟨i1, i2⟩ := ih (rem - min io rem) (by omega)
      refine ⟨by simp only [List.sum_cons]; omega, ?_⟩
      intro c hc
      simp only [List.mem_cons] at hc
      rcases hc with rfl | hc
      · omega
      · exact i2 c hc

/-- the chunks of an attempt are positive, at most `io_chunksize`, never exceed the range, and
cover it completely when the stream ended with EOF -/
theorem attemptChunks_spec (io len : Nat) (a : Attempt) (hio : 0 < io) :
    (attemptChunks io len a).sum ≤ len ∧ (a.ending = .eof → (attemptChunks io len a).sum = len) ∧
    ∀ c ∈ attemptChunks io len a, 0 < c ∧ c ≤ io := by
  obtain ⟨s1, s2⟩ := scriptedChunks_spec io len a.script
  unfold attemptChunks
  cases he : a.ending with
  | eof =>
    simp only
    obtain ⟨f1, f2⟩ := fullChunks_spec io (scriptedChunks io len a.script).2
      (scriptedChunks io len a.script).2 hio (Nat.le_refl _)
    refine ⟨by rw [List.sum_append]; omega, fun _ => by rw [List.sum_append]; omega, ?_⟩
    intro c hc
    rw [List.mem_append] at hc
    rcases hc with h | h
    · exact s2 c h
    · exact f2 c h
  | retryable => exact ⟨by simp only; omega, (fun h => by cases h), s2⟩
  | fatal => exact ⟨by simp only; omega, (fun h => by cases h), s2⟩

/-- writes of consecutive chunks tile `[cur, cur + Σ)` -/
def TilesFrom : Nat → List (Nat × Nat) → Nat → Prop
  | a, [], b => a = b
  | a, (o, l) :: ws, b => o = a ∧ TilesFrom (a + l) ws b

theorem chunkEvents_writes (cur : Nat) (cs : List Nat) :
    TilesFrom cur (writesOf (chunkEvents cur cs)) (cur + cs.sum) ∧
    progressOf (chunkEvents cur cs) = cs.map (fun (c : Nat) => (c : Int)) ∧
    requestsOf (chunkEvents cur cs) = 0 := by
  induction cs generalizing cur with
  | nil => simp [chunkEvents, writesOf, progressOf, requestsOf, TilesFrom]
  | cons c cs ih =>
    obtain ⟨i1, i2, i3⟩ := ih (cur + c)
    simp only [chunkEvents, writesOf, progressOf, requestsOf, TilesFrom, List.map_cons, List.sum_cons]
    refine ⟨⟨trivial, ?_⟩, by rw [i2], i3⟩
    have : cur + (c + cs.sum) = cur + c + cs.sum := by omega
    rw [this]; exact i1

theorem writesOf_append (a b : List Event) : writesOf (a ++ b) = writesOf a ++ writesOf b := by
  induction a with
  | nil => rfl
  | cons e es ih => cases e <;> simp [writesOf, ih]

theorem progressOf_append (a b : List Event) : progressOf (a ++ b) = progressOf a ++ progressOf b := by
  induction a with
  | nil => rfl
  | cons e es ih => cases e <;> simp [progressOf, ih]

theorem requestsOf_append (a b : List Event) : requestsOf (a ++ b) = requestsOf a + requestsOf b := by
  induction a with
  | nil => simp [requestsOf]
  | cons e es ih => cases e <;> simp [requestsOf, ih] <;> omega

/-- every write of a tiling lies inside `[a,b)`'s closure and the tiling covers every position -/
theorem TilesFrom_cover (a b : Nat) (ws : List (Nat × Nat)) (h : TilesFrom a ws b) :
    a ≤ b ∧ (∀ w ∈ ws, a ≤ w.1 ∧ w.1 + w.2 ≤ b) ∧
    (∀ p, a ≤ p → p < b → ∃ w ∈ ws, w.1 ≤ p ∧ p < w.1 + w.2) := by
  induction ws generalizing a with
  | nil => simp only [TilesFrom] at h; subst h; exact ⟨Nat.le_refl _, by simp, fun p h1 h2 => by omega⟩
  | cons w ws ih =>
    obtain ⟨o, l⟩ := w
    simp only [TilesFrom] at h
    obtain ⟨h1, h2⟩ := h
    subst h1
    obtain ⟨i1, i2, i3⟩ := ih _ h2
    refine ⟨by omega, ?_, ?_⟩
    · intro w hw
      simp only [List.mem_cons] at hw
      rcases hw with rfl | hw
      · simp; omega
      · have := i2 w hw; omega
    · intro p hp1 hp2
      by_cases hlt : p < o + l
      · exact ⟨(o, l), by simp, by simpa using hp1, by simpa using hlt⟩
      · obtain ⟨w, hw, hc⟩ := i3 p (by omega) hp2
        exact ⟨w, by simp [hw], hc⟩

end S3V.Download
