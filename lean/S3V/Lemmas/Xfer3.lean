/- Invariants of the transfer model, part 3: history facts and the combined invariant. -/
import S3V.Lemmas.Xfer2

namespace S3V.Xfer
open S3V.Coord (Status)

theorem upd_self {β : Type} (f : Nat → β) (k : Nat) (v : β) : upd f k v k = v := by simp [upd]

/-- more history facts: the done callbacks ran only for an announcer; tasks exist only once the
submission reached `running` -/
structure G7 (x : X) : Prop where
  ca : 0 < x.doneCbRuns → ∃ who, x.announced who = true
  ks : ∀ j, x.known j = true → x.subRunning = true
  fr : x.status = .failed → (∃ k, x.recorded k = true) ∨ x.subFailed = true
  cs : x.status = .cancelled → x.cancelSeen = true

theorem g7_init : G7 ({} : X) := by constructor <;> simp

theorem g7_step (cfg : Cfg) (x x' : X) (l : Label) (h : G7 x) (g3 : G3 x) (hs : step cfg x l = some x') : G7 x' := by
  obtain ⟨ca, ks, fr, cs⟩ := h
  cases l with
  | cbDone who =>
    simp only [step] at hs
    split at hs
    · rename_i hg; cases hs
      exact ⟨fun _ => ⟨who, g3.pa who (by rw [hg.1]; simp)⟩, ks, fr, cs⟩
    · cases hs
  | annBegin who =>
    simp only [step] at hs
    (repeat' (split at hs)) <;> (first | cases hs | skip) <;>
    (first
      | exact ⟨fun _ => ⟨who, upd_self x.announced who true⟩, ks, fr, cs⟩
      | exact ⟨fun _ => ⟨1, upd_self x.announced 1 true⟩, ks, fr, cs⟩)
  | cancel =>
    simp only [step] at hs
    (repeat' (split at hs)) <;> (first | cases hs | skip) <;>
    (first
      | exact ⟨ca, ks, fr, cs⟩
      | exact ⟨fun _ => ⟨0, upd_self x.announced 0 true⟩, ks, (fun h => by cases h), (fun _ => rfl)⟩
      | exact ⟨ca, ks, (fun h => by cases h), (fun _ => rfl)⟩)
  | _ =>
    simp only [step] at hs <;>
    (repeat' (split at hs)) <;> (first | cases hs | skip) <;>
    (first
      | exact ⟨ca, ks, fr, cs⟩
      | (constructor <;> first
          | assumption
          | (simp_all [upd, X.done, Status.isDone]; done)
          | (intro k hk; simp only [upd] at hk; split at hk <;> simp_all; done)
          | (intro _; rename_i j hg _; exact Or.inl ⟨j, upd_self x.recorded j true⟩)
          | (intro hh; rcases fr hh with ⟨k, h1⟩ | h1
             · left; refine ⟨k, ?_⟩; simp only [upd]; (try split) <;> simp_all
             · right; exact h1)))


/-- all invariants together, for every reachable state -/
structure Inv (cfg : Cfg) (x : X) : Prop where
  g1 : G1 x
  g2 : G2 cfg x
  g3 : G3 x
  g4 : G4 x
  g5 : G5 x
  g6 : G6 x
  g7 : G7 x

theorem inv_init (cfg : Cfg) : Inv cfg ({} : X) := ⟨g1_init, g2_init cfg, g3_init, g4_init, g5_init, g6_init, g7_init⟩

theorem inv_step (cfg : Cfg) (x x' : X) (l : Label) (h : Inv cfg x) (hs : step cfg x l = some x') : Inv cfg x' :=
  ⟨g1_step cfg x x' l h.g1 hs, g2_step cfg x x' l h.g2 hs, g3_step cfg x x' l h.g3 hs,
   g4_step cfg x x' l h.g4 h.g2 h.g3 hs, g5_step cfg x x' l h.g5 h.g2 hs,
   g6_step cfg x x' l h.g6 h.g1 hs, g7_step cfg x x' l h.g7 h.g3 hs⟩

theorem inv_run (cfg : Cfg) (x x' : X) (ls : List Label) (h : Inv cfg x) (hr : run cfg x ls = some x') : Inv cfg x' := by
  induction ls generalizing x with
  | nil => simp only [run, Option.some.injEq] at hr; exact hr ▸ h
  | cons l ls ih =>
    simp only [run] at hr
    cases hs : step cfg x l with
    | none => simp [hs] at hr
    | some x1 => simp only [hs] at hr; exact ih x1 (inv_step cfg x x1 l h hs) hr

theorem reachable_inv (cfg : Cfg) (ls : List Label) (x : X) (hr : run cfg {} ls = some x) : Inv cfg x :=
  inv_run cfg {} x ls (inv_init cfg) hr


theorem announced_of_cb (x : X) (cfg : Cfg) (inv : Inv cfg x) (h : x.doneCbRuns = 1) : ∃ who, x.announced who = true :=
  inv.g7.ca (by omega)

theorem subRunning_of_known (cfg : Cfg) (x : X) (inv : Inv cfg x) (j : Nat) (hk : x.known j = true) :
    x.subRunning = true := inv.g7.ks j hk

end S3V.Xfer
