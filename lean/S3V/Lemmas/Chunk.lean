/- Helper lemmas for C09 / C01: one-step progress accounting of ReadFileChunk, aggregator. -/
import S3V.Model.Chunk

namespace S3V.Chunk
variable {α : Type}

def optVal : Option Int → Int
  | none => 0
  | some v => v

theorem sum_opt (o : Option Int) : (optList o).sum = optVal o := by
  cases o <;> simp [optVal, optList]

theorem mem_optList (o : Option Int) (d : Int) : d ∈ optList o ↔ o = some d := by
  cases o <;> simp [optList]; exact eq_comm

/-- the window never changes -/
theorem step_window (c : Rfc α) (o : Op) : (step c o).1.window = c.window := by
  cases o with
  | read a => rfl
  | seek w wh => simp only [step]; split <;> rfl
  | enable => rfl
  | disable => rfl
  | close => rfl

theorem step_size (c : Rfc α) (o : Op) : (step c o).1.size = c.size := by
  unfold Rfc.size; rw [step_window]

theorem readLen_le (c : Rfc α) (a : Option Nat) : c.readLen a ≤ c.size - c.pos := by
  cases a <;> simp [Rfc.readLen] <;> omega

/-- a read returns exactly the next bytes of the window, as many as it asked for (the
underlying file reads fully), and never leaves the window -/
theorem read_data_length (c : Rfc α) (a : Option Nat) :
    (step c (.read a)).2.data.length = c.readLen a := by
  have := readLen_le c a
  simp only [step, List.length_take, List.length_drop, Rfc.size] at *
  omega

/-- **One step of progress accounting.** Whatever the operation, the value reported (0 when the
callbacks are not invoked) is the change of the bounded position if callbacks are enabled, and
0 if they are disabled. -/
theorem step_progress (c : Rfc α) (o : Op) :
    optVal (step c o).2.progress =
      if c.enabled then ((step c o).1.bounded : Int) - (c.bounded : Int) else 0 := by
  cases o with
  | read a =>
    have hL := readLen_le c a
    simp only [step, Rfc.bounded, Rfc.size] at *
    generalize c.readLen a = L at *
    by_cases he : c.enabled = true
    · simp only [he, true_and, if_true]
      by_cases hz : L = 0
      · simp [hz, optVal]
      · simp only [hz, ne_eq, not_false_eq_true, if_true, optVal]
        omega
    · simp [he, optVal]
  | seek w wh =>
    simp only [step]
    by_cases hw : wh > 2
    · simp [hw, optVal]
    · simp only [hw, if_false]
      by_cases he : c.enabled = true
      · simp only [he, true_and, if_true]
        generalize c.seekTarget w wh = t
        simp only [Rfc.bounded, Rfc.size]
        by_cases hz : max (min t ↑c.window.length) 0 - ((min c.pos c.window.length : Nat) : Int) = 0
        · simp only [hz, ne_eq, not_true_eq_false, if_false, optVal]; omega
        · simp only [hz, ne_eq, not_false_eq_true, if_true, optVal]; omega
      · simp [he, optVal]
  | enable => simp [step, optVal, Rfc.bounded, Rfc.size]
  | disable => simp [step, optVal, Rfc.bounded, Rfc.size]
  | close => simp [step, optVal, Rfc.bounded, Rfc.size]

/-- net movement of the bounded position during operations performed while callbacks are
disabled -/
def disabledDelta (c : Rfc α) : List Op → Int
  | [] => 0
  | o :: os =>
    (if c.enabled then 0 else ((step c o).1.bounded : Int) - (c.bounded : Int)) +
      disabledDelta (step c o).1 os

end S3V.Chunk
