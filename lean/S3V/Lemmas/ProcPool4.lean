/- Preservation of the process-pool invariant: worker steps. -/
import S3V.Lemmas.ProcPool3

namespace S3V.ProcPool

theorem wb_upd (s : S) (i : Nat) (v : WPc) (hi : i < s.w) (wb : ∀ j, s.w ≤ j → s.wpc j = .idle) :
    ∀ j, s.w ≤ j → upd s.wpc i v j = .idle := by
  intro j hj
  have : j ≠ i := by omega
  simpa [upd, this] using wb j hj

/-- facts of the other workers survive a worker step (records only change monotonically) -/
theorem wf_others (s s' : S) (i : Nat) (v : WPc) (hw : s'.wpc = upd s.wpc i v)
    (hn : ∀ u, (s'.t u).n = (s.t u).n) (hwr : ∀ u, (s.t u).written ≤ (s'.t u).written)
    (he : ∀ u, (s.t u).exc = true → (s'.t u).exc = true)
    (ht : ∀ u, (s.t u).temp = false → (s'.t u).temp = false)
    (hr : ∀ u, (s.t u).renamed = true → (s'.t u).renamed = true)
    (wf : ∀ j, wFact s j) (own : wFact s' i) : ∀ j, wFact s' j := by
  intro j
  by_cases e : j = i
  · subst e; exact own
  · exact wf_frame s s' j (by rw [hw]; simp [upd, e]) hn hwr he ht hr (wf j)

/-- the three counts for download `t` after worker `i` moved from `old` to `new` -/
theorem cnt_move (s : S) (i : Nat) (old new : WPc) (t : Nat) (hi : i < s.w) (hpc : s.wpc i = old) :
    cntW s.w (upd s.wpc i new) (holds t) + (if holds t old then 1 else 0) = cntW s.w s.wpc (holds t) + (if holds t new then 1 else 0) ∧
    cntW s.w (upd s.wpc i new) (isRan t) + (if isRan t old then 1 else 0) = cntW s.w s.wpc (isRan t) + (if isRan t new then 1 else 0) ∧
    cntW s.w (upd s.wpc i new) (isFin t) + (if isFin t old then 1 else 0) = cntW s.w s.wpc (isFin t) + (if isFin t new then 1 else 0) := by
  have c1 := cntW_upd s.w s.wpc i new (holds t) hi
  have c2 := cntW_upd s.w s.wpc i new (isRan t) hi
  have c3 := cntW_upd s.w s.wpc i new (isFin t) hi
  rw [hpc] at c1 c2 c3
  exact ⟨c1, c2, c3⟩

theorem inv_wCheck (s s' : S) (i : Nat) (h : Inv s) (hs : step s (.wCheck i) = some s') : Inv s' := by
  simp only [step] at hs
  split at hs
  · rename_i u hpc
    cases hs
    have hI := h
    obtain ⟨ti, wb, sl, sl', wf⟩ := h
    have hi : i < s.w := lt_w_of_ne_idle s hI i (by rw [hpc]; simp)
    refine ⟨?_, wb_upd s i _ hi wb, sl, sl', ?_⟩
    · intro t
      obtain ⟨c1, c2, c3⟩ := cnt_move s i _ (if (s.t u).exc = true then WPc.ran u else WPc.running u) t hi hpc
      by_cases e : t = u
      · subst e
        obtain ⟨a, q, c, nn, d, e, hh, f, rq, p0, p0', p1, p2, p3, p4, p5, p6, p7, p8, p9, p10, g2, g4, g5, g6⟩ := ti t
        simp only [S.cnt] at *
        cases hx : (s.t t).exc <;> simp [hx, holds, isRan, isFin] at c1 c2 c3 ⊢
        · rw [c1, c2, c3]
          exact ⟨a, q, c, nn, d, e, hh, f, rq, p0, p0', p1, p2, p3, p4, p5, p6, p7, p8, p9, p10, g2, g4, g5, g6⟩
        · rw [c1, c2, c3]
          exact ⟨a, q, c, nn, d, by simp [hx], by omega, f, rq, p0, p0', p1, p2, p3, p4, p5, p6, p7, p8, p9, p10, g2, g4, g5, g6⟩
      · have hne : ¬ u = t := fun x => e x.symm
        cases hx : (s.t u).exc <;> simp [hx, holds, isRan, isFin, hne] at c1 c2 c3 ⊢ <;>
          (simp only [S.cnt]; rw [c1, c2, c3]; exact ti t)
    · refine wf_others s _ i _ rfl (fun _ => rfl) (fun _ => Nat.le_refl _) (fun _ h => h) (fun _ h => h) (fun _ h => h) wf ?_
      cases hx : (s.t u).exc <;> simp [wFact, upd, hx]
  · cases hs


theorem sub_ne_none_of_announced (s : S) (h : Inv s) (t : Nat) (ha : (s.t t).announced = true) : (s.t t).sub ≠ .none := by
  intro hx
  have h0 := (h.ti t).p0' ((h.ti t).p0.mp hx)
  rw [h0] at ha
  cases ha

/-- shared shape of a worker step that touches download `u`: the other downloads -/
theorem ti_other (s : S) (i : Nat) (old new : WPc) (u t : Nat) (x' : PT) (wq : List (Option Nat)) (hi : i < s.w)
    (hpc : s.wpc i = old) (e : t ≠ u)
    (ho : holds t old = false ∧ isRan t old = false ∧ isFin t old = false)
    (hn : holds t new = false ∧ isRan t new = false ∧ isFin t new = false)
    (hq : wq.count (some t) = s.workQ.count (some t))
    (h : TInv (s.t t) (s.cnt (holds t)) (s.cnt (isRan t)) (s.cnt (isFin t)) (s.workQ.count (some t)) (s.reqQ.count (some t)) s.nt t) :
    TInv (upd s.t u x' t) (cntW s.w (upd s.wpc i new) (holds t)) (cntW s.w (upd s.wpc i new) (isRan t))
      (cntW s.w (upd s.wpc i new) (isFin t)) (wq.count (some t)) (s.reqQ.count (some t)) s.nt t := by
  obtain ⟨c1, c2, c3⟩ := cnt_move s i old new t hi hpc
  simp only [ho.1, ho.2.1, ho.2.2, hn.1, hn.2.1, hn.2.2] at c1 c2 c3
  simp only [Bool.false_eq_true, if_false, Nat.add_zero] at c1 c2 c3
  rw [c1, c2, c3, hq]
  simpa [upd, e, S.cnt] using h

theorem refs_other (u t : Nat) (e : t ≠ u) :
    (holds t (.took u) = false ∧ isRan t (.took u) = false ∧ isFin t (.took u) = false) ∧
    (holds t (.running u) = false ∧ isRan t (.running u) = false ∧ isFin t (.running u) = false) ∧
    (holds t (.ran u) = false ∧ isRan t (.ran u) = false ∧ isFin t (.ran u) = false) ∧
    (holds t (.counted0 u) = false ∧ isRan t (.counted0 u) = false ∧ isFin t (.counted0 u) = false) ∧
    (holds t (.finRemove u) = false ∧ isRan t (.finRemove u) = false ∧ isFin t (.finRemove u) = false) ∧
    (holds t (.finRename u) = false ∧ isRan t (.finRename u) = false ∧ isFin t (.finRename u) = false) ∧
    (holds t (.renameFailed u) = false ∧ isRan t (.renameFailed u) = false ∧ isFin t (.renameFailed u) = false) ∧
    (holds t (.fsDone u) = false ∧ isRan t (.fsDone u) = false ∧ isFin t (.fsDone u) = false) ∧
    (holds t .idle = false ∧ isRan t .idle = false ∧ isFin t .idle = false) ∧
    (holds t .exited = false ∧ isRan t .exited = false ∧ isFin t .exited = false) := by
  have : ¬ u = t := fun x => e x.symm
  simp [holds, isRan, isFin, this]

theorem inv_wWrite (s s' : S) (i : Nat) (h : Inv s) (hs : step s (.wWrite i) = some s') : Inv s' := by
  simp only [step] at hs
  split at hs
  · rename_i u hpc
    split at hs
    · cases hs
      have hI := h
      obtain ⟨ti, wb, sl, sl', wf⟩ := h
      have hi : i < s.w := lt_w_of_ne_idle s hI i (by rw [hpc]; simp)
      have lk := link_frame s { s with wpc := upd s.wpc i (.ran u), t := upd s.t u { s.t u with written := (s.t u).written + 1 } } rfl
        (by intro v; by_cases e : v = u <;> simp [upd, e]) sl sl'
      refine ⟨?_, wb_upd s i _ hi wb, lk.1, lk.2, ?_⟩
      · intro t
        by_cases e : t = u
        · subst e
          obtain ⟨c1, c2, c3⟩ := cnt_move s i _ (.ran t) t hi hpc
          obtain ⟨a, q, c, nn, d, e, hh, f, rq, p0, p0', p1, p2, p3, p4, p5, p6, p7, p8, p9, p10, g2, g4, g5, g6⟩ := ti t
          simp only [S.cnt] at *
          simp [holds, isRan, isFin] at c1 c2 c3
          simp only [upd, if_true]
          rw [c1, c2, c3]
          have hsub : (s.t t).sub ≠ .none := sub_ne_none_of_announced s hI t (holds_facts s hI i t (by rw [hpc]; simp [holds])).1
          constructor
          case p0' => intro hn; exact absurd (p0.mpr hn) hsub
          all_goals (clear p0' hI ti wf sl sl' wb lk; tinv_field)
        · have r := refs_other u t e
          exact ti_other s i _ _ u t _ s.workQ hi hpc e r.2.1 r.2.2.1 rfl (ti t)
      · refine wf_others s _ i _ rfl ?_ ?_ ?_ ?_ ?_ wf (by simp [wFact, upd]) <;> intro v <;> by_cases e : v = u <;> simp [upd, e]
    · cases hs
  · cases hs

theorem inv_wFail (s s' : S) (i : Nat) (h : Inv s) (hs : step s (.wFail i) = some s') : Inv s' := by
  simp only [step] at hs
  split at hs
  · rename_i u hpc
    cases hs
    have hI := h
    obtain ⟨ti, wb, sl, sl', wf⟩ := h
    have hi : i < s.w := lt_w_of_ne_idle s hI i (by rw [hpc]; simp)
    have lk := link_frame s { s with wpc := upd s.wpc i (.ran u), t := upd s.t u { s.t u with exc := true } } rfl
      (by intro v; by_cases e : v = u <;> simp [upd, e]) sl sl'
    refine ⟨?_, wb_upd s i _ hi wb, lk.1, lk.2, ?_⟩
    · intro t
      by_cases e : t = u
      · subst e
        obtain ⟨c1, c2, c3⟩ := cnt_move s i _ (.ran t) t hi hpc
        obtain ⟨a, q, c, nn, d, e, hh, f, rq, p0, p0', p1, p2, p3, p4, p5, p6, p7, p8, p9, p10, g2, g4, g5, g6⟩ := ti t
        simp only [S.cnt] at *
        simp [holds, isRan, isFin] at c1 c2 c3
        simp only [upd, if_true]
        rw [c1, c2, c3]
        have hsub : (s.t t).sub ≠ .none := sub_ne_none_of_announced s hI t (holds_facts s hI i t (by rw [hpc]; simp [holds])).1
        constructor
        case p0' => intro hn; exact absurd (p0.mpr hn) hsub
        all_goals (clear p0' hI ti wf sl sl' wb lk; tinv_field)
      · have r := refs_other u t e
        exact ti_other s i _ _ u t _ s.workQ hi hpc e r.2.1 r.2.2.1 rfl (ti t)
    · refine wf_others s _ i _ rfl ?_ ?_ ?_ ?_ ?_ wf (by simp [wFact, upd]) <;> intro v <;> by_cases e : v = u <;> simp [upd, e]
  · cases hs

end S3V.ProcPool
