/- Helper lemmas for C12 (assoc-list bookkeeping, drain loop, invariant preservation). -/
import S3V.Model.Sema

namespace S3V.Sema

/-- Per-tag well-formedness: the window is `[lowest,next)`, `pending` holds distinct tokens
strictly inside it, and the lowest token itself is never pending (the window slid promptly). -/
structure TagInv (ts : TagSt) : Prop where
  le      : ts.lowest ≤ ts.next
  pos     : 0 < ts.next
  inside  : ∀ p ∈ ts.pending, ts.lowest < p ∧ p < ts.next
  nodup   : ts.pending.Nodup

structure Inv (cap : Nat) (s : Sws) : Prop where
  tagsInv : ∀ t ts, lookup s.tags t = some ts → TagInv ts
  cap_eq  : s.count + width s.tags = cap
  keys    : (s.tags.map Prod.fst).Nodup

theorem keys_update (tags : List (Nat × TagSt)) (t : Nat) (v : TagSt)
    (h : (tags.map Prod.fst).Nodup) : ((update tags t v).map Prod.fst).Nodup ∧
      ∀ k, k ∈ (update tags t v).map Prod.fst → k = t ∨ k ∈ tags.map Prod.fst := by
  induction tags with
  | nil => simp [update]
  | cons hd tl ih =>
    obtain ⟨k, w⟩ := hd
    unfold update
    by_cases hk : k = t
    · simp only [hk, if_true]
      refine ⟨by simpa [hk] using h, ?_⟩
      intro k' hk'
      simp only [List.map_cons, List.mem_cons] at hk' ⊢
      rcases hk' with h1 | h1
      · left; exact h1
      · right; right; exact h1
    · simp only [hk, if_false]
      simp only [List.map_cons, List.nodup_cons] at h
      obtain ⟨ih1, ih2⟩ := ih h.2
      refine ⟨?_, ?_⟩
      · simp only [List.map_cons, List.nodup_cons]
        refine ⟨?_, ih1⟩
        intro hm
        rcases ih2 k hm with h1 | h1
        · exact hk h1
        · exact h.1 h1
      · intro k' hk'
        simp only [List.map_cons, List.mem_cons] at hk' ⊢
        rcases hk' with h1 | h1
        · right; left; exact h1
        · rcases ih2 k' h1 with h2 | h2
          · left; exact h2
          · right; right; exact h2

theorem lookup_of_mem (tags : List (Nat × TagSt)) (h : (tags.map Prod.fst).Nodup)
    (p : Nat × TagSt) (hp : p ∈ tags) : lookup tags p.1 = some p.2 := by
  induction tags with
  | nil => simp at hp
  | cons hd tl ih =>
    obtain ⟨k, w⟩ := hd
    simp only [List.map_cons, List.nodup_cons] at h
    simp only [List.mem_cons] at hp
    unfold lookup
    rcases hp with rfl | hp
    · simp
    · have : k ≠ p.1 := by
        intro e
        apply h.1
        rw [e]
        exact List.mem_map_of_mem hp
      simp only [this, if_false]
      exact ih h.2 hp

theorem drain_ge (fuel lo : Nat) (pending : List Nat) : lo ≤ (drain fuel lo pending).1 := by
  induction fuel generalizing lo pending with
  | zero => simp [drain]
  | succ fuel ih =>
    unfold drain
    by_cases hm : lo ∈ pending
    · rw [if_pos hm]
      have := ih (lo + 1) (pending.erase lo)
      simp only; omega
    · rw [if_neg hm]; simp

/-- every token skipped by the drain loop was pending -/
theorem drain_between (fuel lo : Nat) (pending : List Nat) (j : Nat) (h1 : lo ≤ j)
    (h2 : j < (drain fuel lo pending).1) : j ∈ pending := by
  induction fuel generalizing lo pending with
  | zero => simp [drain] at h2; omega
  | succ fuel ih =>
    unfold drain at h2
    by_cases hm : lo ∈ pending
    · rw [if_pos hm] at h2
      simp only at h2
      by_cases hj : j = lo
      · rw [hj]; exact hm
      · exact List.mem_of_mem_erase (ih (lo + 1) (pending.erase lo) (by omega) h2)
    · rw [if_neg hm] at h2
      simp only at h2; omega

/-- the drain loop stops at a token that was not pending -/
theorem drain_stop (fuel lo : Nat) (pending : List Nat) (hfuel : pending.length ≤ fuel) :
    (drain fuel lo pending).1 ∉ pending := by
  induction fuel generalizing lo pending with
  | zero =>
    have : pending = [] := List.eq_nil_of_length_eq_zero (by omega)
    subst this; simp
  | succ fuel ih =>
    unfold drain
    by_cases hm : lo ∈ pending
    · rw [if_pos hm]
      simp only
      have hlen : (pending.erase lo).length ≤ fuel := by
        rw [List.length_erase_of_mem hm]; omega
      have := ih (lo + 1) (pending.erase lo) hlen
      have hge := drain_ge fuel (lo + 1) (pending.erase lo)
      intro hp
      apply this
      exact (List.mem_erase_of_ne (by omega)).mpr hp
    · rw [if_neg hm]; exact hm

theorem lookup_update_same (tags : List (Nat × TagSt)) (t : Nat) (v : TagSt) :
    lookup (update tags t v) t = some v := by
  induction tags with
  | nil => simp [update, lookup]
  | cons hd tl ih =>
    obtain ⟨k, w⟩ := hd
    unfold update
    by_cases h : k = t
    · simp [h, lookup]
    · simp [h, lookup, ih]

theorem lookup_update_other (tags : List (Nat × TagSt)) (t u : Nat) (v : TagSt) (h : u ≠ t) :
    lookup (update tags t v) u = lookup tags u := by
  induction tags with
  | nil => simp [update, lookup]; intro h'; exact absurd h'.symm h
  | cons hd tl ih =>
    obtain ⟨k, w⟩ := hd
    unfold update
    by_cases hk : k = t
    · subst hk
      have : ¬ k = u := fun e => h e.symm
      simp [lookup, this]
    · simp only [hk, if_false]
      unfold lookup
      by_cases hu : k = u
      · simp [hu]
      · simp [hu, ih]

theorem width_update_none (tags : List (Nat × TagSt)) (t : Nat) (v : TagSt)
    (h : lookup tags t = none) : width (update tags t v) = width tags + (v.next - v.lowest) := by
  induction tags with
  | nil => simp [update, width]
  | cons hd tl ih =>
    obtain ⟨k, w⟩ := hd
    unfold lookup at h
    by_cases hk : k = t
    · simp [hk] at h
    · simp only [hk, if_false] at h
      unfold update
      simp only [hk, if_false, width]
      rw [ih h]; omega

theorem width_update_some (tags : List (Nat × TagSt)) (t : Nat) (ts v : TagSt)
    (h : lookup tags t = some ts) :
    width (update tags t v) + (ts.next - ts.lowest) = width tags + (v.next - v.lowest) := by
  induction tags with
  | nil => simp [lookup] at h
  | cons hd tl ih =>
    obtain ⟨k, w⟩ := hd
    unfold lookup at h
    by_cases hk : k = t
    · simp only [hk, if_true, Option.some.injEq] at h
      subst h
      unfold update
      simp only [hk, if_true, width]; omega
    · simp only [hk, if_false] at h
      unfold update
      simp only [hk, if_false, width]
      have := ih h; omega

/-- The drain loop: from a state where every pending token is `≥ lo` and `< nx`, distinct,
it stops at `lo' = lo + freed ≤ nx` (given `lo ≤ nx`) with `lo'` not pending and the rest
strictly above `lo'`. -/
theorem drain_spec (fuel lo nx : Nat) (pending : List Nat)
    (hfuel : pending.length ≤ fuel) (hle : lo ≤ nx)
    (hin : ∀ p ∈ pending, lo ≤ p ∧ p < nx) (hnd : pending.Nodup) :
    let r := drain fuel lo pending
    r.1 = lo + r.2.2 ∧ r.1 ≤ nx ∧ r.1 ∉ r.2.1 ∧
    (∀ p ∈ r.2.1, r.1 < p ∧ p < nx) ∧ r.2.1.Nodup ∧
    (∀ p, p ∈ r.2.1 → p ∈ pending) ∧ r.2.1.length + r.2.2 = pending.length := by
  induction fuel generalizing lo pending with
  | zero =>
    have : pending = [] := List.eq_nil_of_length_eq_zero (by omega)
    subst this
    unfold drain
    exact ⟨by simp, hle, by simp, by simp, by simp, by simp, by simp⟩
  | succ fuel ih =>
    unfold drain
    by_cases hmem : lo ∈ pending
    · rw [if_pos hmem]
      have hlt := (hin lo hmem).2
      have hlen : (pending.erase lo).length ≤ fuel := by
        rw [List.length_erase_of_mem hmem]; omega
      have hin' : ∀ p ∈ pending.erase lo, lo + 1 ≤ p ∧ p < nx := by
        intro p hp
        have hp' := List.mem_of_mem_erase hp
        have hne : p ≠ lo := by
          intro e; subst e
          exact (List.Nodup.mem_erase_iff hnd).mp hp |>.1 rfl
        have := hin p hp'
        omega
      have hnd' : (pending.erase lo).Nodup := hnd.erase lo
      obtain ⟨h1, h2, h3, h4, h5, h6, h7⟩ := ih (lo + 1) (pending.erase lo) hlen (by omega) hin' hnd'
      refine ⟨by simp only; omega, h2, h3, h4, h5, ?_, ?_⟩
      · intro p hp; exact List.mem_of_mem_erase (h6 p hp)
      · simp only
        rw [List.length_erase_of_mem hmem] at h7
        have : 0 < pending.length := List.length_pos_of_mem hmem
        omega
    · rw [if_neg hmem]
      refine ⟨by simp, hle, hmem, ?_, hnd, fun p hp => hp, by simp⟩
      intro p hp
      have := hin p hp
      have : p ≠ lo := fun e => hmem (e ▸ hp)
      omega

theorem init_inv (cap : Nat) : Inv cap (Sws.init cap) :=
  ⟨by intro t ts h; simp [Sws.init, lookup] at h, by simp [Sws.init, width], by simp [Sws.init]⟩

theorem acquire_inv (cap : Nat) (s : Sws) (t : Nat) (h : Inv cap s) : Inv cap (acquire s t).1 := by
  unfold acquire
  by_cases hc : s.count = 0
  · simp [hc, h]
  · simp only [hc, if_false]
    cases hl : lookup s.tags t with
    | none =>
      simp only
      refine ⟨?_, ?_, (keys_update _ _ _ h.keys).1⟩
      · intro u us hu
        by_cases hut : u = t
        · subst hut
          rw [lookup_update_same] at hu
          cases hu
          exact ⟨by simp, by simp, by simp, by simp⟩
        · rw [lookup_update_other _ _ _ _ hut] at hu
          exact h.tagsInv u us hu
      · simp only
        rw [width_update_none _ _ _ hl]
        have := h.cap_eq
        simp; omega
    | some ts =>
      simp only
      have hts := h.tagsInv t ts hl
      refine ⟨?_, ?_, (keys_update _ _ _ h.keys).1⟩
      · intro u us hu
        by_cases hut : u = t
        · subst hut
          rw [lookup_update_same] at hu
          cases hu
          refine ⟨by simp; have := hts.le; omega, by simp, ?_, hts.nodup⟩
          intro p hp
          have := hts.inside p hp
          simp; omega
        · rw [lookup_update_other _ _ _ _ hut] at hu
          exact h.tagsInv u us hu
      · simp only
        have := width_update_some s.tags t ts { ts with next := ts.next + 1 } hl
        have hc2 := h.cap_eq
        have := hts.le
        simp only at *
        omega

theorem release_inv (cap : Nat) (s : Sws) (t k : Nat) (h : Inv cap s) :
    Inv cap (release s t k).1 := by
  unfold release
  cases hl : lookup s.tags t with
  | none => simpa using h
  | some ts =>
    have hts := h.tagsInv t ts hl
    simp only
    by_cases h1 : k = ts.lowest ∧ k < ts.next
    · rw [if_pos h1]
      have hd := drain_spec ts.pending.length (ts.lowest + 1) ts.next ts.pending (Nat.le_refl _)
        (by omega) (fun p hp => by have := hts.inside p hp; omega) hts.nodup
      simp only at hd
      obtain ⟨d1, d2, d3, d4, d5, d6, d7⟩ := hd
      refine ⟨?_, ?_, (keys_update _ _ _ h.keys).1⟩
      · intro u us hu
        by_cases hut : u = t
        · subst hut
          rw [lookup_update_same] at hu
          cases hu
          exact ⟨d2, hts.pos, d4, d5⟩
        · rw [lookup_update_other _ _ _ _ hut] at hu
          exact h.tagsInv u us hu
      · have := width_update_some s.tags t ts
          { ts with lowest := (drain ts.pending.length (ts.lowest + 1) ts.pending).1,
                    pending := (drain ts.pending.length (ts.lowest + 1) ts.pending).2.1 } hl
        have hc2 := h.cap_eq
        simp only at *
        omega
    · rw [if_neg h1]
      by_cases h2 : ts.lowest < k ∧ k < ts.next ∧ k ∉ ts.pending
      · rw [if_pos h2]
        refine ⟨?_, ?_, (keys_update _ _ _ h.keys).1⟩
        · intro u us hu
          by_cases hut : u = t
          · subst hut
            rw [lookup_update_same] at hu
            cases hu
            refine ⟨hts.le, hts.pos, ?_, ?_⟩
            · intro p hp
              simp only [List.mem_cons] at hp
              rcases hp with rfl | hp
              · exact ⟨h2.1, h2.2.1⟩
              · exact hts.inside p hp
            · exact List.nodup_cons.mpr ⟨h2.2.2, hts.nodup⟩
          · rw [lookup_update_other _ _ _ _ hut] at hu
            exact h.tagsInv u us hu
        · have := width_update_some s.tags t ts { ts with pending := k :: ts.pending } hl
          have hc2 := h.cap_eq
          simp only at *
          omega
      · rw [if_neg h2]
        exact h

theorem step_inv (cap : Nat) (s : Sws) (o : Op) (h : Inv cap s) : Inv cap (step s o).1 := by
  cases o with
  | acquire t => exact acquire_inv cap s t h
  | release t k => exact release_inv cap s t k h

theorem run_inv (cap : Nat) (s : Sws) (ops : List Op) (h : Inv cap s) : Inv cap (run s ops) := by
  induction ops generalizing s with
  | nil => exact h
  | cons o ops ih => exact ih _ (step_inv cap s o h)

end S3V.Sema
