/- Parsing / printing helpers for the line-protocol driver (no logic here). -/
namespace S3V.Driver

def optNat? (s : String) : Option (Option Nat) :=
  if s = "-" then some none else (s.toNat?).map some

def showOptInt : Option Int → String
  | none => ""
  | some i => toString i

def joinWith (sep : String) (xs : List String) : String := sep.intercalate xs

def parseNats? (xs : List String) : Option (List Nat) := xs.mapM String.toNat?

/-- comma separated naturals; "" or "-" is the empty list -/
def parseNatList? (s : String) : Option (List Nat) :=
  if s = "" ∨ s = "-" then some [] else (s.splitOn ",").mapM String.toNat?

def parseIntList? (s : String) : Option (List Int) :=
  if s = "" ∨ s = "-" then some [] else (s.splitOn ",").mapM String.toInt?

def showNatList (xs : List Nat) : String := joinWith "," (xs.map toString)
def showIntList (xs : List Int) : String := joinWith "," (xs.map toString)

end S3V.Driver
