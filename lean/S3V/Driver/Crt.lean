import S3V.Model.Crt
import S3V.Driver.Util
namespace S3V.Driver
open S3V.Crt

def parseKind? : String → Option Kind
  | "upload" => some .upload
  | "dlpath" => some .downloadPath
  | "dlstream" => some .downloadStream
  | "delete" => some .delete
  | _ => none

def parseBool? : String → Option Bool
  | "1" => some true
  | "0" => some false
  | _ => none

def showEv : Ev → String
  | .fsRename => "rename"
  | .fsRemove => "remove"
  | .subscribers => "subs"
  | .release => "release"
  | .eventSet => "event"

def showFs : Fs → String
  | .untouched => "-"
  | .tempPresent => "temp"
  | .renamed => "renamed"
  | .removed => "removed"

def showT (x : T) : String :=
  s!"out={if x.outstanding then 1 else 0} rel={x.released} log={joinWith "," (x.log.map showEv)} fs={showFs x.fs} failed={if x.failed then 1 else 0}"

def crtStep (c : Crt) (toks : List String) : Crt × String :=
  match toks with
  | ["init", cap, ff] => match cap.toNat?, parseBool? ff with
    | some cap, some ff => (Crt.init cap ff, "ok")
    | _, _ => (c, "bad-op")
  | ["submit", k, f] => match parseKind? k, parseBool? f with
    | some k, some f => match step c (.submit k f) with
      | some c' => (c', s!"free={c'.free} {showT (c'.t c.n)}")
      | none => (c, "blocked")
    | _, _ => (c, "bad-op")
  | ["complete", i, e, r] => match i.toNat?, parseBool? e, parseBool? r with
    | some i, some e, some r => match step c (.complete i e r) with
      | some c' => (c', s!"free={c'.free} {showT (c'.t i)}")
      | none => (c, "not-enabled")
    | _, _, _ => (c, "bad-op")
  | ["shutdown"] => match step c .shutdownReturn with
    | some c' => (c', "returned")
    | none => (c, "waits")
  | ["show", i] => match i.toNat? with
    | some i => (c, s!"free={c.free} {showT (c.t i)}")
    | none => (c, "bad-op")
  | ["free"] => (c, s!"free={c.free} outstanding={outstandingCount c} n={c.n}")
  | _ => (c, "bad-op")

end S3V.Driver
