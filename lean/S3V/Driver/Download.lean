import S3V.Model.Download
import S3V.Driver.Util
namespace S3V.Driver
open S3V.Download

def parseAttempt (s : String) : Option Attempt :=
  match s.splitOn ":" with
  | [sc, e] =>
    match parseNatList? sc, e with
    | some script, "e" => some { script := script, ending := .eof }
    | some script, "r" => some { script := script, ending := .retryable }
    | some script, "f" => some { script := script, ending := .fatal }
    | _, _ => none
  | _ => none

def showEvent : Event → String
  | .request => "GET"
  | .progress v => s!"p{v}"
  | .write o l => s!"w{o}+{l}"

def showOutcome : Outcome → String
  | .ok => "ok" | .retriesExceeded => "retries-exceeded" | .fatal => "fatal"

/-- `dl get <io> <start> <len> <maxAttempts> <attempt;attempt;…>` -/
def dlStep (toks : List String) : String :=
  match toks with
  | ["get", io, start, len, mx, atts] =>
    match io.toNat?, start.toNat?, len.toNat?, mx.toNat?, (atts.splitOn ";").mapM parseAttempt with
    | some io, some start, some len, some mx, some atts =>
      if io = 0 then "bad-op" else
      let r := getObject io start len mx atts
      joinWith " " (r.1.map showEvent) ++ " => " ++ showOutcome r.2
    | _, _, _, _, _ => "bad-op"
  | _ => "bad-op"

end S3V.Driver
