import S3V.Model.Upload
import S3V.Driver.Util
namespace S3V.Driver
open S3V.Upload

def showParts (ps : List (List Nat)) : String := joinWith "|" (ps.map showNatList)

/-- `up ns <threshold> <chunk> <data> <script>` / `up slices <data> <start> <chunk> <n>` -/
def upStep (toks : List String) : String :=
  match toks with
  | ["ns", thr, chunk, data, script] =>
    match thr.toNat?, chunk.toNat?, parseNatList? data, parseNatList? script with
    | some thr, some chunk, some data, some script =>
      if chunk = 0 then "bad-op" else
      let r := NS.choose ({ data := data, script := script } : Src Nat) thr
      if r.1 then s!"mp=1 parts={showParts (NS.parts (data.length + 1) r.2 chunk)}"
      else s!"mp=0 body={showNatList r.2.putBody}"
    | _, _, _, _ => "bad-op"
  | ["slices", data, start, chunk, n] =>
    match parseNatList? data, start.toNat?, chunk.toNat?, n.toNat? with
    | some data, some start, some chunk, some n => showParts (slices (data.drop start) chunk n)
    | _, _, _, _ => "bad-op"
  | _ => "bad-op"

end S3V.Driver
