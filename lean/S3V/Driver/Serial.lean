import S3V.Model.Serial
import S3V.Driver.Util
namespace S3V.Driver
open S3V.Serial

def parseOut? : String → Option Out
  | "ok" => some .ok
  | "ord" => some (.raise .ordinary)
  | "base" => some (.raise .base)
  | _ => none

def parseFlag? : String → Option Bool
  | "1" => some true
  | "0" => some false
  | _ => none

/-- `id,final,out` or `id,final,out,id2,final2,out2` (a task called as the first one's done callback) -/
def parseTask? (s : String) : Option Task :=
  match s.splitOn "," with
  | [i, f, o] => do
    let i ← i.toNat?; let f ← parseFlag? f; let o ← parseOut? o
    pure { id := i, isFinal := f, out := o }
  | [i, f, o, i2, f2, o2] => do
    let i ← i.toNat?; let f ← parseFlag? f; let o ← parseOut? o
    let i2 ← i2.toNat?; let f2 ← parseFlag? f2; let o2 ← parseOut? o2
    pure { id := i, isFinal := f, out := o, after := some { id := i2, isFinal := f2, out := o2 } }
  | _ => none

def showExc : Option Exc → String
  | none => "none"
  | some .ordinary => "ord"
  | some .base => "base"

/-- `serial run <task>;<task>;…` on the tables generated from the source -/
def serialStep (toks : List String) : String :=
  match toks with
  | ["run", plan] =>
    match ((plan.splitOn ";").filter (· ≠ "")).mapM parseTask? with
    | some tasks =>
      let r := manager Tables.current tasks
      s!"exc={showExc r.1.exc} success={if r.1.success then 1 else 0} announced={r.1.announced} cleaned={if r.1.cleaned then 1 else 0} permits={r.1.permits} ran={showNatList r.1.ran} raised={showExc r.2}"
    | none => "bad-op"
  | ["run"] =>
    let r := manager Tables.current []
    s!"exc={showExc r.1.exc} success={if r.1.success then 1 else 0} announced={r.1.announced} cleaned={if r.1.cleaned then 1 else 0} permits={r.1.permits} ran={showNatList r.1.ran} raised={showExc r.2}"
  | _ => "bad-op"

end S3V.Driver
