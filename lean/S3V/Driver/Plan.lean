import S3V.Model.Plan
import S3V.Model.Float53
import S3V.Driver.Util
namespace S3V.Driver
open S3V.Plan

def showRange (r : Range) : String := s!"{r.start}-{showOptInt r.stop}"

/-- `plan …` lines. Division by a zero chunk size is what the real code rejects
(ZeroDivisionError); it is reported, never defaulted. -/
def planStep (toks : List String) : String :=
  match toks with
  | ["ceil", a, b] =>
    match a.toNat?, b.toNat? with
    | some a, some b => if b = 0 then "zero-div" else toString (ceilDiv a b)
    | _, _ => "bad-op"
  | ["fdiv", a, b] =>
    match a.toNat?, b.toNat? with
    | some a, some b =>
      if b = 0 then "zero-div" else s!"{(Float53.fdiv a b).num}/{(Float53.fdiv a b).den}"
    | _, _ => "bad-op"
  | ["fceil", a, b] =>
    match a.toNat?, b.toNat? with
    | some a, some b => if b = 0 then "zero-div" else toString (Float53.fceil a b)
    | _, _ => "bad-op"
  | ["multipart", s, t] =>
    match s.toNat?, t.toNat? with
    | some s, some t => if isMultipart s t then "1" else "0"
    | _, _ => "bad-op"
  | ["range", ps, i, n, tot] =>
    match ps.toNat?, i.toNat?, n.toNat?, optNat? tot with
    | some ps, some i, some n, some tot => showRange (rangeParam ps i n tot)
    | _, _, _, _ => "bad-op"
  | ["adjust", c, s] =>
    match c.toNat?, optNat? s with
    | some c, some s =>
      if c = 0 ∧ s.isSome then "zero-div" else toString (adjust c s)
    | _, _ => "bad-op"
  | ["up", s, c] =>
    match s.toNat?, c.toNat? with
    | some s, some c =>
      if c = 0 then "zero-div" else
      joinWith "," ((uploadParts s c).map fun p => s!"{p.number}:{p.start}:{p.len}")
    | _, _ => "bad-op"
  | ["down", s, c] =>
    match s.toNat?, c.toNat? with
    | some s, some c =>
      if c = 0 then "zero-div" else
      joinWith "," ((downloadParts s c).map fun p => s!"{showRange p.1}@{p.2}")
    | _, _ => "bad-op"
  | ["copy", s, c] =>
    match s.toNat?, c.toNat? with
    | some s, some c =>
      if c = 0 then "zero-div" else
      joinWith "," ((copyParts s c).map fun p => s!"{p.1}:{showRange p.2.1}:{p.2.2}")
    | _, _ => "bad-op"
  | _ => "bad-op"

end S3V.Driver
