import S3V.Model.Chunk
import S3V.Driver.Util
namespace S3V.Driver
open S3V.Chunk

structure ChunkD where
  rfc : Rfc Nat := { window := [] }
  agg : Agg := { threshold := 1 }

def showOptInt' : Option Int → String
  | none => "-"
  | some v => toString v

def chunkStep (d : ChunkD) (toks : List String) : ChunkD × String :=
  match toks with
  | ["chunk", "new", bytes, en] =>
    match parseNatList? bytes with
    | some w => ({ d with rfc := { window := w, enabled := en = "1" } }, "ok")
    | none => (d, "bad-op")
  | ["chunk", "read", n] =>
    match optNat? n with
    | some a =>
      let r := step d.rfc (.read a)
      ({ d with rfc := r.1 }, s!"data={showNatList r.2.data} prog={showOptInt' r.2.progress}")
    | none => (d, "bad-op")
  | ["chunk", "seek", w, wh] =>
    match w.toInt?, wh.toNat? with
    | some w, some wh =>
      let r := step d.rfc (.seek w wh)
      if r.2.error then (d, "value-error") else ({ d with rfc := r.1 }, s!"prog={showOptInt' r.2.progress}")
    | _, _ => (d, "bad-op")
  | ["chunk", "enable"] => ({ d with rfc := (step d.rfc .enable).1 }, "ok")
  | ["chunk", "disable"] => ({ d with rfc := (step d.rfc .disable).1 }, "ok")
  | ["chunk", "close"] =>
    let r := step d.rfc .close
    ({ d with rfc := r.1 }, s!"flushed={if r.2.flushed then 1 else 0}")
  | ["chunk", "tell"] => (d, toString d.rfc.pos)
  | ["chunk", "len"] => (d, toString d.rfc.size)
  | ["agg", "new", t] => match t.toNat? with
    | some t => ({ d with agg := { threshold := t } }, "ok")
    | none => (d, "bad-op")
  | ["agg", "call", v] => match v.toInt? with
    | some v => let r := d.agg.call v; ({ d with agg := r.1 }, showOptInt' r.2)
    | none => (d, "bad-op")
  | ["agg", "flush"] => let r := d.agg.flush; ({ d with agg := r.1 }, showOptInt' r.2)
  | _ => (d, "bad-op")

end S3V.Driver
