import S3V.Model.Defer
import S3V.Driver.Util
namespace S3V.Driver
open S3V.Defer

def showWrites (ws : List (Entry Nat)) : String :=
  joinWith ";" (ws.map fun w => s!"{w.off}:{showNatList w.data}")

def deferStep (q : DQ Nat) (toks : List String) : DQ Nat × String :=
  match toks with
  | ["new"] => (DQ.init, "ok")
  | ["req", off, bytes] =>
    match off.toNat?, parseNatList? bytes with
    | some off, some bs => let r := requestWrites q off bs; (r.1, showWrites r.2)
    | _, _ => (q, "bad-op")
  | ["next"] => (q, toString q.next)
  | ["queued"] => (q, joinWith "," (q.queue.map fun e => s!"{e.off}+{e.data.length}"))
  | _ => (q, "bad-op")

end S3V.Driver
