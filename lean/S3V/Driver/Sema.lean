import S3V.Model.Sema
import S3V.Driver.Util
namespace S3V.Driver
open S3V.Sema

structure SemaD where
  sws  : Sws := Sws.init 0
  tsem : Tsem := { count := 0 }
  cci  : Cci := Cci.init
  b    : BState := BState.init 0

def showOut : Out → String
  | .token n => s!"token {n}"
  | .ok => "ok"
  | .noResources => "no-resources"
  | .valueError => "value-error"
  | .wouldBlock => "would-block"

def showCciOut : CciOut → String
  | .ok => "ok"
  | .runtimeError => "runtime-error"
  | .fired => "fired"

def showPairs (xs : List (Nat × Nat)) : String :=
  joinWith "," (xs.map fun p => s!"{p.1}:{p.2}")

def semaStep (d : SemaD) (toks : List String) : SemaD × String :=
  match toks with
  | ["sema", "new", c] => match c.toNat? with
    | some c => ({ d with sws := Sws.init c }, "ok")
    | none => (d, "bad-op")
  | ["sema", "acq", t] => match t.toNat? with
    | some t => let r := acquire d.sws t; ({ d with sws := r.1 }, showOut r.2)
    | none => (d, "bad-op")
  | ["sema", "rel", t, k] => match t.toNat?, k.toNat? with
    | some t, some k => let r := release d.sws t k; ({ d with sws := r.1 }, showOut r.2)
    | _, _ => (d, "bad-op")
  | ["sema", "count"] => (d, toString d.sws.count)
  | ["tsem", "new", c] => match c.toNat? with
    | some c => ({ d with tsem := { count := c } }, "ok")
    | none => (d, "bad-op")
  | ["tsem", "acq"] => let r := d.tsem.acquire; ({ d with tsem := r.1 }, showOut r.2)
  | ["tsem", "rel"] => let r := d.tsem.release; ({ d with tsem := r.1 }, showOut r.2)
  | ["cci", "new"] => ({ d with cci := Cci.init }, "ok")
  | ["cci", "inc"] => let r := d.cci.increment; ({ d with cci := r.1 }, showCciOut r.2)
  | ["cci", "dec"] => let r := d.cci.decrement; ({ d with cci := r.1 }, showCciOut r.2)
  | ["cci", "fin"] => let r := d.cci.finalize; ({ d with cci := r.1 }, showCciOut r.2)
  | ["cci", "count"] => (d, toString d.cci.count)
  | ["bsema", "new", c] => match c.toNat? with
    | some c => ({ d with b := BState.init c }, "ok")
    | none => (d, "bad-op")
  | ["bsema", "acq", th, t] => match th.toNat?, t.toNat? with
    | some th, some t => match bstep d.b (.acquire th t) with
      | some (b', o) => ({ d with b := b' }, showOut o)
      | none => (d, "not-enabled")
    | _, _ => (d, "bad-op")
  | ["bsema", "rel", t, k] => match t.toNat?, k.toNat? with
    | some t, some k => match bstep d.b (.release t k) with
      | some (b', o) => ({ d with b := b' }, showOut o)
      | none => (d, "not-enabled")
    | _, _ => (d, "bad-op")
  | ["bsema", "wake", th, t] => match th.toNat?, t.toNat? with
    | some th, some t => match bstep d.b (.wake th t) with
      | some (b', o) => ({ d with b := b' }, showOut o)
      | none => (d, "not-enabled")
    | _, _ => (d, "bad-op")
  | ["bsema", "state"] =>
    (d, s!"count={d.b.sws.count} waiting={showPairs d.b.waiting} notified={showPairs d.b.notified}")
  | _ => (d, "bad-op")

end S3V.Driver
