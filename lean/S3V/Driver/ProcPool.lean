import S3V.Model.ProcPool
import S3V.Driver.Util
namespace S3V.Driver
open S3V.ProcPool

def b01 (b : Bool) : String := if b then "1" else "0"

def ppBool? : String → Option Bool
  | "1" => some true
  | "0" => some false
  | _ => none

def showWPc : WPc → String
  | .idle => "idle" | .took t => s!"took{t}" | .running t => s!"running{t}" | .ran t => s!"ran{t}"
  | .counted0 t => s!"counted0-{t}" | .finRemove t => s!"finRemove{t}" | .finRename t => s!"finRename{t}"
  | .renameFailed t => s!"renameFailed{t}" | .fsDone t => s!"fsDone{t}" | .exited => "exited"

def ppParse (toks : List String) : Option Label :=
  match toks with
  | ["download", n] => n.toNat?.map .download
  | ["cancel", t] => t.toNat?.map .cancel
  | ["cancelAll"] => some .cancelAll
  | ["shutBegin"] => some .shutBegin
  | ["shutSignal"] => some .shutSignal
  | ["shutReturn"] => some .shutReturn
  | ["subTake"] => some .subTake
  | ["subAlloc"] => some .subAlloc
  | ["subFail"] => some .subFail
  | ["subFailDone"] => some .subFailDone
  | ["subAnnounce"] => some .subAnnounce
  | ["subPut"] => some .subPut
  | ["wTake", i] => i.toNat?.map .wTake
  | ["wCheck", i] => i.toNat?.map .wCheck
  | ["wWrite", i] => i.toNat?.map .wWrite
  | ["wFail", i] => i.toNat?.map .wFail
  | ["wDec", i] => i.toNat?.map .wDec
  | ["wFinCheck", i] => i.toNat?.map .wFinCheck
  | ["wRemove", i] => i.toNat?.map .wRemove
  | ["wRename", i, ok] => match i.toNat?, ppBool? ok with
    | some i, some ok => some (.wRename i ok)
    | _, _ => none
  | ["wRenameExc", i] => i.toNat?.map .wRenameExc
  | ["wDone", i] => i.toNat?.map .wDone
  | _ => none

/-- what the implementation can observe of a step: the value a monitor call returned -/
def ppObs (s s' : S) : Label → String
  | .subTake => match s'.spc with
    | .exited => "shutdown"
    | .sizing t => s!"request {t}"
    | _ => "?"
  | .wTake i => match s'.wpc i with
    | .exited => "shutdown"
    | .took t => s!"job {t}"
    | _ => "?"
  | .wCheck i => match s'.wpc i with
    | .ran _ => "skip"
    | _ => "run"
  | .wDec i => match s.wpc i with
    | .ran t => s!"remaining {(s'.t t).jobs}"
    | _ => "?"
  | .wFinCheck i => match s'.wpc i with
    | .finRemove _ => "remove"
    | _ => "rename"
  | _ => "ok"

def ppStep (s : S) (toks : List String) : S × String :=
  match toks with
  | ["init", w] => match w.toNat? with
    | some w => (S.init w, "ok")
    | none => (s, "bad-op")
  | ["show", t] => match t.toNat? with
    | some t => let x := s.t t
      (s, s!"done={b01 x.done} exc={b01 x.exc} temp={b01 x.temp} renamed={b01 x.renamed} written={x.written} accounted={x.accounted} queued={x.queued} jobs={x.jobs}")
    | none => (s, "bad-op")
  | ["workers"] => (s, joinWith "," ((List.range s.w).map fun i => showWPc (s.wpc i)))
  | ["queues"] => (s, s!"req={s.reqQ.length} work={s.workQ.length}")
  | _ => match ppParse toks with
    | none => (s, "bad-op")
    | some l => match step s l with
      | none => (s, "not-enabled")
      | some s' => (s', ppObs s s' l)

end S3V.Driver
