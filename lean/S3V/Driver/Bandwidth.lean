import S3V.Model.Bandwidth
import S3V.Driver.Util
namespace S3V.Driver
open S3V.Bandwidth

def parseRat? (s : String) : Option Rat :=
  match s.splitOn "/" with
  | [p] => p.toInt?.map fun i => (i : Rat)
  | [p, q] => match p.toInt?, q.toNat? with
    | some p, some q => if q = 0 then none else some ((p : Rat) / (q : Rat))
    | _, _ => none
  | _ => none

def showRat (r : Rat) : String := s!"{r.num}/{r.den}"

def showRate : Rate → String
  | .inf => "inf"
  | .fin r => showRat r

/-- is the projected rate within 1e-9 (relative) of the limit?  (float vs exact arithmetic may
then decide differently; such cases are reported as ties and not compared) -/
def isTie (b : Bucket) (amt : Nat) (now : Rat) : Bool :=
  match projected b amt now with
  | .inf => false
  | .fin p => decide ((if p - b.maxRate < 0 then b.maxRate - p else p - b.maxRate) * 1000000000 < b.maxRate)

def bwStep (b : Bucket) (toks : List String) : Bucket × String :=
  match toks with
  | ["new", m] => match parseRat? m with
    | some m => ({ maxRate := m }, "ok")
    | none => (b, "bad-op")
  | ["consume", amt, tok, now] => match amt.toNat?, tok.toNat?, parseRat? now with
    | some amt, some tok, some now =>
      let tie := !(isScheduled b tok) && isTie b amt now
      let r := consume b amt tok now
      (r.1, (match r.2 with | .granted => "granted" | .refused d => s!"refused {showRat d}") ++ (if tie then " tie" else ""))
    | _, _, _ => (b, "bad-op")
  | ["abandon", tok] => match tok.toNat? with
    | some tok => (abandon b tok, "ok")
    | none => (b, "bad-op")
  | "stream" :: amt :: tok :: its => match amt.toNat?, tok.toNat?, its.mapM (fun (x : String) =>
        match x.splitOn ":" with
        | [n, e] => match parseRat? n with
          | some n => some (n, e == "1")
          | none => none
        | _ => none) with
    | some amt, some tok, some its =>
      let r := streamLoop b amt tok its
      (r.1, "ev=" ++ joinWith "," (r.2.map fun e => match e with
        | .consumed => "consumed" | .slept _ => "slept" | .raisedTransferError => "raised"))
    | _, _, _ => (b, "bad-op")
  | ["state"] => (b, s!"total={showRat b.totalWait} sched={showNatList (b.sched.map (·.token))} rate={showRate b.rate}")
  | _ => (b, "bad-op")

end S3V.Driver
