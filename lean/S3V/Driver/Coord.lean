import S3V.Model.Coord
import S3V.Driver.Util
namespace S3V.Driver
open S3V.Coord

def showStatus : Status → String
  | .notStarted => "not-started" | .queued => "queued" | .running => "running"
  | .success => "success" | .failed => "failed" | .cancelled => "cancelled"

def showCoordOut : Out → String
  | .ok => "ok" | .runtimeError => "runtime-error" | .notDoneError => "not-done-error"

def showOptNat : Option Nat → String
  | none => "-" | some n => toString n

def coordState (c : Coord) : String :=
  s!"{showStatus c.status} exc={showOptNat c.exc} res={showOptNat c.result} ev={if c.event then 1 else 0} " ++
  s!"cl={showNatList c.ranCleanups} dn={showNatList c.ranDone}"

def coordStep (c : Coord) (toks : List String) : Coord × String :=
  let ap (o : Op) : Coord × String := let r := step c o; (r.1, showCoordOut r.2)
  match toks with
  | ["new"] => ({}, "ok")
  | ["set-result", r] => match r.toNat? with | some r => ap (.setResult r) | none => (c, "bad-op")
  | ["set-exception", e, ov] => match e.toNat?, ov.toNat? with
    | some e, some ov => ap (.setException e (ov != 0))
    | _, _ => (c, "bad-op")
  | ["cancel", e] => match e.toNat? with | some e => ap (.cancel e) | none => (c, "bad-op")
  | ["to-queued"] => ap .toQueued
  | ["to-running"] => ap .toRunning
  | ["announce"] => ap .announceDone
  | ["add-done", i] => match i.toNat? with | some i => ap (.addDoneCallback i) | none => (c, "bad-op")
  | ["add-cleanup", i] => match i.toNat? with | some i => ap (.addFailureCleanup i) | none => (c, "bad-op")
  | ["future-set-exception", e] => match e.toNat? with
    | some e => ap (.futureSetException e) | none => (c, "bad-op")
  | ["state"] => (c, coordState c)
  | ["done"] => (c, if c.done then "1" else "0")
  | ["result"] => (c, match resultOf c with
      | .blocks => "blocks" | .raises e => s!"raises {e}" | .returns r => s!"returns {showOptNat r}")
  | _ => (c, "bad-op")

end S3V.Driver
