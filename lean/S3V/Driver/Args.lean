import S3V.Model.Args
import S3V.Driver.Util
namespace S3V.Driver
open S3V.Args

def opName : Op → String
  | .head => "head_object" | .get => "get_object" | .put => "put_object"
  | .create => "create_multipart_upload" | .uploadPart => "upload_part"
  | .uploadPartCopy => "upload_part_copy" | .complete => "complete_multipart_upload"
  | .copyObject => "copy_object" | .delete => "delete_object"

def insertSortedStr (x : String) : List String → List String
  | [] => [x]
  | y :: ys => if x ≤ y then x :: y :: ys else y :: insertSortedStr x ys

def sortStrs (xs : List String) : List String := xs.foldr insertSortedStr []

def showCalls (cs : List Call) : String :=
  joinWith "|" (cs.map fun c =>
    s!"{opName c.op}:" ++ joinWith "," (sortStrs (c.args.map fun p => s!"{p.1}={p.2}")))

def parseDict (s : String) : Dict :=
  if s = "-" ∨ s = "" then [] else
  (s.splitOn ",").filterMap fun kv =>
    match kv.splitOn "=" with
    | [k, v] => some (k, v)
    | _ => none

/-- `args <mode> <k=v,k=v|->` -/
def argsStep (toks : List String) : String :=
  match toks with
  | [mode, d] =>
    let d := parseDict d
    match mode with
    | "upload-single" => showCalls (uploadSingle d)
    | "upload-multipart" => showCalls (uploadMultipart d)
    | "download" => showCalls (downloadCalls d false)
    | "download-known" => showCalls (downloadCalls d true)
    | "copy-single" => showCalls (copySingle d false)
    | "copy-multipart" => showCalls (copyMultipart d false)
    | "delete" => showCalls (deleteCalls d)
    | "legacy-upload-single" => showCalls (legacyUploadSingle d)
    | "legacy-upload-multipart" => showCalls (legacyUploadMultipart d)
    | "legacy-download" => showCalls (legacyDownload d)
    | "processpool" => showCalls (processpoolDownload d false)
    | "default-checksum" => joinWith "," (sortStrs ((setDefaultChecksum d).map fun p => s!"{p.1}={p.2}"))
    | _ => "bad-op"
  | _ => "bad-op"

end S3V.Driver
