import S3V.Model.Exec
import S3V.Model.Xfer
import S3V.Model.Fs2
import S3V.Driver.Util
namespace S3V.Driver

structure M2D where
  ex   : S3V.Exec.Exec := S3V.Exec.Exec.init 0 0
  xcfg : S3V.Xfer.Cfg := { bound := 0 }
  x    : S3V.Xfer.X := {}
  fs   : S3V.Fs2.Fs := {}

def bool? (s : String) : Option Bool := if s = "1" then some true else if s = "0" then some false else none

def parseXLabel (toks : List String) : Option S3V.Xfer.Label :=
  match toks with
  | ["subStart"] => some .subStart
  | ["subDecide", b] => (bool? b).map .subDecide
  | ["toQueued"] => some .toQueued
  | ["onQueued"] => some .onQueued
  | ["toRunning"] => some .toRunning
  | ["submit", j, f, d] => do some (.submit (← j.toNat?) (← bool? f) (← parseNatList? d))
  | ["subFail"] => some .subFail
  | ["subEnd"] => some .subEnd
  | ["taskStart", j] => j.toNat?.map .taskStart
  | ["decide", j, b] => do some (.decide (← j.toNat?) (← bool? b))
  | ["reqBegin", j] => j.toNat?.map .reqBegin
  | ["reqEnd", j, b] => do some (.reqEnd (← j.toNat?) (← bool? b))
  | ["registerAbort", j] => j.toNat?.map .registerAbort
  | ["record", j] => j.toNat?.map .record
  | ["mainFail", j] => j.toNat?.map .mainFail
  | ["setResult", j] => j.toNat?.map .setResult
  | ["taskEnd", j] => j.toNat?.map .taskEnd
  | ["cancel"] => some .cancel
  | ["annBegin", w] => w.toNat?.map .annBegin
  | ["abortBegin", w] => w.toNat?.map .abortBegin
  | ["abortEnd", w] => w.toNat?.map .abortEnd
  | ["cleaned", w] => w.toNat?.map .cleaned
  | ["eventSet", w] => w.toNat?.map .eventSet
  | ["cbLock", w] => w.toNat?.map .cbLock
  | ["cbDone", w] => w.toNat?.map .cbDone
  | ["annEnd", w] => w.toNat?.map .annEnd
  | _ => none

def showStatus2 : S3V.Coord.Status → String
  | .notStarted => "not-started" | .queued => "queued" | .running => "running"
  | .success => "success" | .failed => "failed" | .cancelled => "cancelled"

def parseFsLabel (toks : List String) : Option S3V.Fs2.Label :=
  match toks with
  | ["openTemp"] => some .openTemp
  | ["queueWrite"] => some .queueWrite
  | ["getsDone"] => some .getsDone
  | ["pickWrite", b] => (bool? b).map .pickWrite
  | ["writeEnd", b] => (bool? b).map .writeEnd
  | ["fail"] => some .fail
  | ["pickFinal", b] => (bool? b).map .pickFinal
  | ["rename", b] => (bool? b).map .rename
  | ["cleanup"] => some .cleanup
  | _ => none

def showContent : S3V.Fs2.Content → String
  | .absentOrPrevious => "previous" | .complete => "complete" | .partial_ => "partial"

def m2Step (d : M2D) (toks : List String) : M2D × String :=
  match toks with
  | ["exec", "new", cap, w] => match cap.toNat?, w.toNat? with
    | some c, some w => ({ d with ex := S3V.Exec.Exec.init c w }, "ok")
    | _, _ => (d, "bad-op")
  | ["exec", "submit", j, deps] => match j.toNat?, parseNatList? deps with
    | some j, some ds => match S3V.Exec.step d.ex (.submit j ds) with
      | some e => ({ d with ex := e }, "ok")
      | none => (d, "not-enabled")
    | _, _ => (d, "bad-op")
  | ["exec", "pick", j] => match j.toNat? with
    | some j => match S3V.Exec.step d.ex (.pick j) with
      | some e => ({ d with ex := e }, "ok")
      | none => (d, "not-enabled")
    | none => (d, "bad-op")
  | ["exec", "finish", j] => match j.toNat? with
    | some j => match S3V.Exec.step d.ex (.finish j) with
      | some e => ({ d with ex := e }, "ok")
      | none => (d, "not-enabled")
    | none => (d, "bad-op")
  | ["exec", "state"] => (d, s!"free={d.ex.free} queued={d.ex.queue.length} running={d.ex.running.length}")
  | ["xfer", "new", b] => match b.toNat? with
    | some b => ({ d with xcfg := { bound := b }, x := {} }, "ok")
    | none => (d, "bad-op")
  | ["xfer", "status"] =>
    (d, s!"{showStatus2 d.x.status} aborts={d.x.abortCount} doneCbs={d.x.doneCbRuns} event={if d.x.event then 1 else 0}")
  | "xfer" :: rest => match parseXLabel rest with
    | some l => match S3V.Xfer.step d.xcfg d.x l with
      | some x' => ({ d with x := x' }, "ok")
      | none => (d, "not-enabled")
    | none => (d, "bad-op")
  | ["fs2", "new"] => ({ d with fs := {} }, "ok")
  | ["fs2", "state"] => (d, s!"final={showContent d.fs.final} temp={if d.fs.temp = .absent then "absent" else "present"}")
  | "fs2" :: rest => match parseFsLabel rest with
    | some l => match S3V.Fs2.step d.fs l with
      | some f => ({ d with fs := f }, "ok")
      | none => (d, "not-enabled")
    | none => (d, "bad-op")
  | _ => (d, "bad-op")

end S3V.Driver
