/-
C14 — part planning tiles the object and respects S3 limits.
Only property theorems live here (the core-Lean part; `Props/C14.lean` adds the float computation, whose
proofs use Mathlib tactics, so that the files importing these theorems stay Mathlib-free). Quantifiers: every size, chunk size, threshold (unbounded Nat).
-/
import S3V.Model.Plan

namespace S3V.C14
open S3V.Plan

/-! ### ceilDiv facts -/

theorem ceilDiv_spec (a b : Nat) (hb : 0 < b) :
    (ceilDiv a b - 1) * b < a ∨ a = 0 := by
  unfold ceilDiv
  by_cases ha : a = 0
  · right; exact ha
  · left
    have h1 : (a + b - 1) / b * b ≤ a + b - 1 := Nat.div_mul_le_self _ _
    have hpos : 1 ≤ (a + b - 1) / b := (Nat.le_div_iff_mul_le hb).mpr (by omega)
    have : ((a + b - 1) / b - 1) * b = (a + b - 1) / b * b - b := by
      rw [Nat.sub_mul]; simp
    omega

theorem le_ceilDiv_mul (a b : Nat) (hb : 0 < b) : a ≤ ceilDiv a b * b := by
  unfold ceilDiv
  have := Nat.lt_div_mul_add (a := a + b - 1) hb
  omega

theorem ceilDiv_zero (b : Nat) (hb : 0 < b) : ceilDiv 0 b = 0 := by
  unfold ceilDiv; simp; omega

theorem ceilDiv_pos (a b : Nat) (hb : 0 < b) (ha : 0 < a) : 0 < ceilDiv a b := by
  unfold ceilDiv
  exact (Nat.le_div_iff_mul_le hb).mpr (by omega)

theorem ceilDiv_anti (a b c : Nat) (hb : 0 < b) (hbc : b ≤ c) : ceilDiv a c ≤ ceilDiv a b := by
  have hc : 0 < c := by omega
  unfold ceilDiv
  rw [Nat.div_le_iff_le_mul_add_pred hc]
  have h1 := Nat.lt_div_mul_add (a := a + b - 1) hb
  have h2 : (a + b - 1) / b * b ≤ (a + b - 1) / b * c := Nat.mul_le_mul_left _ hbc
  rw [Nat.mul_comm c]
  omega

theorem ceilDiv_mono (a a' b : Nat) (h : a ≤ a') : ceilDiv a b ≤ ceilDiv a' b := by
  unfold ceilDiv; exact Nat.div_le_div_right (by omega)

/-- `ceilDiv` really is the ceiling: the least `n` with `a ≤ n*b`. -/
theorem ceilDiv_least (a b n : Nat) (hb : 0 < b) (h : a ≤ n * b) : ceilDiv a b ≤ n := by
  unfold ceilDiv
  rw [Nat.div_le_iff_le_mul_add_pred hb, Nat.mul_comm]
  omega

/-! ### multipart decision -/

/-- A transfer is multipart exactly when `size ≥ multipart_threshold`. -/
theorem multipart_iff (size thr : Nat) : isMultipart size thr = true ↔ thr ≤ size := by
  simp [isMultipart]

/-! ### download / copy ranges tile `[0,size)` -/

/-- Ranges for `i < n = ⌈size/c⌉`: part `i` starts at `i*c`; every part but the last ends at
`(i+1)*c - 1`, i.e. exactly one byte before the next start; the last is open ended (downloads)
or ends at `size-1` (copies); the last part starts inside the object and the object ends
inside the last part. -/
theorem ranges_tile (size c : Nat) (hc : 0 < c) (hs : 0 < size) (total : Option Nat) :
    let n := ceilDiv size c
    (∀ i, i < n → (rangeParam c i n total).start = i * c) ∧
    (∀ i, i + 1 < n →
        (rangeParam c i n total).stop = some (((rangeParam c (i+1) n total).start : Int) - 1)) ∧
    (rangeParam c (n - 1) n total).stop = total.map (fun t => (t : Int) - 1) ∧
    (n - 1) * c < size ∧ size ≤ n * c := by
  intro n
  have hn : 0 < n := ceilDiv_pos size c hc hs
  refine ⟨?_, ?_, ?_, ?_, ?_⟩
  · intro i _; unfold rangeParam; split <;> rfl
  · intro i hi
    have h1 : ¬ (i + 1 = n) := by omega
    unfold rangeParam
    rw [if_neg h1]
    have : (i + 1) * c = i * c + c := by rw [Nat.add_mul]; simp
    split <;> simp [this]
  · unfold rangeParam
    have : n - 1 + 1 = n := by omega
    rw [if_pos this]
  · rcases ceilDiv_spec size c hc with h | h
    · exact h
    · omega
  · exact le_ceilDiv_mul size c hc

/-- Download plan: `start_index` of part `i` equals the start of its Range, so every GET
writes at the offset it fetched from. -/
theorem download_start_index (size c : Nat) (p : Range × Nat) (hp : p ∈ downloadParts size c) :
    p.1.start = p.2 := by
  unfold downloadParts at hp
  simp only [List.mem_map, List.mem_range] at hp
  obtain ⟨i, _, rfl⟩ := hp
  unfold rangeParam; split <;> rfl

theorem downloadParts_length (size c : Nat) : (downloadParts size c).length = ceilDiv size c := by
  simp [downloadParts]

/-! ### upload parts tile the source -/

theorem uploadParts_length (size c : Nat) : (uploadParts size c).length = ceilDiv size c := by
  simp [uploadParts]

/-- Part numbers are `1..n` in order, part `k` starts where part `k-1` ended, starts at 0. -/
theorem upload_parts_consecutive (size c : Nat) (hc : 0 < c) (i : Nat)
    (hi : i < ceilDiv size c) :
    ∃ p, (uploadParts size c)[i]? = some p ∧ p.number = i + 1 ∧ p.start = c * i ∧
      (i + 1 < ceilDiv size c → p.len = c) ∧
      (i + 1 = ceilDiv size c → p.start + p.len = size) ∧ 0 < p.len := by
  refine ⟨{ number := i + 1, start := c * i, len := min (size - c * i) c }, ?_, rfl, rfl, ?_, ?_, ?_⟩
  · simp [uploadParts, hi]
  · intro h
    -- (i+1) < n  ⇒ (i+1)*c < size
    have h1 : (ceilDiv size c - 1) * c < size ∨ size = 0 := ceilDiv_spec size c hc
    have hz : size ≠ 0 := by
      intro hz; rw [hz, ceilDiv_zero c hc] at hi; omega
    have h2 : (i + 1) * c ≤ (ceilDiv size c - 1) * c := Nat.mul_le_mul_right _ (by omega)
    have : (i + 1) * c = c * i + c := by rw [Nat.add_mul, Nat.mul_comm]; simp
    simp only
    omega
  · intro h
    have h1 := le_ceilDiv_mul size c hc
    have h0 : (ceilDiv size c - 1) * c < size ∨ size = 0 := ceilDiv_spec size c hc
    have hz : size ≠ 0 := by
      intro hz; rw [hz, ceilDiv_zero c hc] at hi; omega
    have e1 : ceilDiv size c = i + 1 := h.symm
    rw [e1] at h1 h0
    have : (i + 1) * c = c * i + c := by rw [Nat.add_mul, Nat.mul_comm]; simp
    simp only [Nat.add_sub_cancel] at h0
    rw [Nat.mul_comm i c] at h0
    simp only
    omega
  · have h0 : (ceilDiv size c - 1) * c < size ∨ size = 0 := ceilDiv_spec size c hc
    have hz : size ≠ 0 := by
      intro hz; rw [hz, ceilDiv_zero c hc] at hi; omega
    have h2 : i * c ≤ (ceilDiv size c - 1) * c := Nat.mul_le_mul_right _ (by omega)
    rw [Nat.mul_comm i c] at h2
    simp only
    omega

/-- The lengths of the upload parts sum to the size: no gap, no overlap (with
`upload_parts_consecutive`: each part starts at the sum of the previous lengths). -/
theorem upload_parts_sum (size c : Nat) (hc : 0 < c) :
    ((uploadParts size c).map (·.len)).sum = size := by
  -- generalised: sum over first k parts = min (k*c) size
  have key : ∀ k, ((List.range k).map fun i => min (size - c * i) c).sum = min (k * c) size := by
    intro k
    induction k with
    | zero => simp
    | succ k ih =>
      rw [List.range_succ, List.map_append, List.sum_append, ih]
      simp only [List.map_cons, List.map_nil, List.sum_cons, List.sum_nil, Nat.add_zero]
      have : (k + 1) * c = k * c + c := by rw [Nat.add_mul]; simp
      rw [this, Nat.mul_comm c k]
      omega
  have := key (ceilDiv size c)
  have h1 := le_ceilDiv_mul size c hc
  unfold uploadParts
  rw [List.map_map]
  simp only [Function.comp_def]
  rw [this]; omega

/-! ### copy part sizes -/

/-- Progress sizes of the copy parts are positive for every part and sum to the size. -/
theorem copy_sizes_sum (size c : Nat) (hc : 0 < c) (hs : 0 < size) :
    (((List.range (ceilDiv size c)).map fun i => copyPartSize c i (ceilDiv size c) size).sum : Int)
      = size := by
  have hn := ceilDiv_pos size c hc hs
  -- sum over first k < n parts = k*c ; last = size - (n-1)*c
  have key : ∀ k, k < ceilDiv size c →
      (((List.range k).map fun i => copyPartSize c i (ceilDiv size c) size).sum : Int) = (k * c : Nat) := by
    intro k hk
    induction k with
    | zero => simp
    | succ k ih =>
      rw [List.range_succ, List.map_append, List.sum_append, ih (by omega)]
      have hne : ¬ (k + 1 = ceilDiv size c) := by omega
      simp only [List.map_cons, List.map_nil, List.sum_cons, List.sum_nil, copyPartSize, if_neg hne]
      have : (k + 1) * c = k * c + c := by rw [Nat.add_mul]; simp
      rw [this]; simp
  obtain ⟨m, hm⟩ : ∃ m, ceilDiv size c = m + 1 := ⟨ceilDiv size c - 1, by omega⟩
  rw [hm, List.range_succ, List.map_append, List.sum_append]
  have := key m (by omega)
  rw [hm] at this
  rw [this]
  simp only [List.map_cons, List.map_nil, List.sum_cons, List.sum_nil, copyPartSize, if_pos]
  rcases ceilDiv_spec size c hc with h | h
  · rw [hm] at h; simp at h; omega
  · omega

/-- Each copy part's progress size equals the byte length of its `CopySourceRange`. -/
theorem copy_size_matches_range (size c i : Nat) (hc : 0 < c) (hi : i < ceilDiv size c) :
    let n := ceilDiv size c
    ∃ e, (rangeParam c i n (some size)).stop = some e ∧
      copyPartSize c i n size = e - (rangeParam c i n (some size)).start + 1 := by
  intro n
  unfold rangeParam copyPartSize
  by_cases h : i + 1 = n
  · simp only [if_pos h, Option.map]
    exact ⟨_, rfl, by omega⟩
  · simp only [if_neg h]
    exact ⟨_, rfl, by
      have : ((i * c + c : Nat) : Int) = (i*c : Nat) + (c : Nat) := by omega
      omega⟩

/-! ### chunk size adjustment -/

theorem adjustLimits_in (mn mx c : Nat) (h : mn ≤ mx) :
    mn ≤ adjustLimits mn mx c ∧ adjustLimits mn mx c ≤ mx := by
  unfold adjustLimits; split
  · omega
  · split <;> omega

theorem adjustMaxParts_ge (mp c size : Nat) : c ≤ adjustMaxParts mp c size := by
  fun_induction adjustMaxParts mp c size with
  | case1 c h ih => omega
  | case2 c h => omega

/-- After the doubling loop the part count is within the limit (for a positive chunk size). -/
theorem adjustMaxParts_parts (mp c size : Nat) (hc : 0 < c) (hmp : 0 < mp) :
    ceilDiv size (adjustMaxParts mp c size) ≤ mp := by
  fun_induction adjustMaxParts mp c size with
  | case1 c h ih => exact ih (by omega)
  | case2 c h => omega

theorem adjustMaxParts_id (mp c size : Nat) (h : ceilDiv size c ≤ mp) :
    adjustMaxParts mp c size = c := by
  unfold adjustMaxParts
  rw [dif_neg]; omega

/-- The effective part size lies in `[5 MiB, 5 GiB]` — for known and unknown sizes. -/
theorem adjust_in_limits (mn mx mp c : Nat) (size : Option Nat) (h : mn ≤ mx) :
    mn ≤ adjustWith mn mx mp c size ∧ adjustWith mn mx mp c size ≤ mx := by
  unfold adjustWith; split <;> exact adjustLimits_in _ _ _ h

/-- `n ≤ max_parts` for every known size up to `mx * mp'` where `⌈sizeLimit/mx⌉ ≤ mp`
(instantiated below with S3's numbers: 5 TiB / 5 GiB = 1024 ≤ 10 000). -/
theorem adjust_parts_le_general (mn mx mp c size lim : Nat) (hc : 0 < c) (hmp : 0 < mp)
    (hmn : 0 < mn) (_hmm : mn ≤ mx) (hs : size ≤ lim) (hl : ceilDiv lim mx ≤ mp) :
    ceilDiv size (adjustWith mn mx mp c (some size)) ≤ mp := by
  unfold adjustWith adjustLimits
  have h1 := adjustMaxParts_parts mp c size hc hmp
  have h0 := adjustMaxParts_ge mp c size
  simp only
  split
  · exact Nat.le_trans (ceilDiv_mono size lim mx hs) hl
  · split
    · exact Nat.le_trans (ceilDiv_anti size _ mn (by omega) (by omega)) h1
    · exact h1

/-- "Changed only when a limit requires it", direction 1: a chunk size that already satisfies
all three limits is returned unchanged. -/
theorem adjust_minimal_id (mn mx mp c size : Nat)
    (h1 : mn ≤ c) (h2 : c ≤ mx) (h3 : ceilDiv size c ≤ mp) :
    adjustWith mn mx mp c (some size) = c := by
  unfold adjustWith
  simp only
  rw [adjustMaxParts_id mp c size h3]
  unfold adjustLimits
  rw [if_neg (by omega), if_neg (by omega)]

theorem adjust_minimal_id_unknown (mn mx mp c : Nat) (h1 : mn ≤ c) (h2 : c ≤ mx) :
    adjustWith mn mx mp c none = c := by
  unfold adjustWith adjustLimits
  simp only
  rw [if_neg (by omega), if_neg (by omega)]

/-- Direction 2: whenever the result differs from the configured value, the configured value
violates one of the three limits. -/
theorem adjust_minimal (mn mx mp c size : Nat)
    (h : adjustWith mn mx mp c (some size) ≠ c) :
    c < mn ∨ mx < c ∨ mp < ceilDiv size c := by
  by_cases h1 : mn ≤ c
  · by_cases h2 : c ≤ mx
    · by_cases h3 : ceilDiv size c ≤ mp
      · exact absurd (adjust_minimal_id mn mx mp c size h1 h2 h3) h
      · right; right; omega
    · right; left; omega
  · left; omega

/-! ### the same with the constants read from /repo (Gen.Consts) -/

/-- S3's numbers as extracted from the source on this run make the general theorems apply:
min ≤ max, both positive, and 5 TiB / max ≤ max_parts. If someone edits the constants so that
this fails, this `decide` fails and C14 is re-examined. -/
theorem consts_ok :
    0 < Gen.adjusterMinSize ∧ Gen.adjusterMinSize ≤ Gen.adjusterMaxSize ∧
    0 < Gen.adjusterMaxParts ∧ ceilDiv (5 * 2^40) Gen.adjusterMaxSize ≤ Gen.adjusterMaxParts := by
  decide +kernel

/-- The S3 limits the property names, checked against the extracted constants. -/
theorem consts_are_s3_limits :
    Gen.adjusterMinSize = 5 * 2^20 ∧ Gen.adjusterMaxSize = 5 * 2^30 ∧ Gen.adjusterMaxParts = 10000 := by
  decide +kernel

/-- For uploads and copies the effective part size lies within `[5 MiB, 5 GiB]` and
`n ≤ 10 000` for every size up to 5 TiB, every positive configured chunk size. -/
theorem adjust_parts_le (c size : Nat) (hc : 0 < c) (hs : size ≤ 5 * 2^40) :
    Gen.adjusterMinSize ≤ adjust c (some size) ∧ adjust c (some size) ≤ Gen.adjusterMaxSize ∧
    ceilDiv size (adjust c (some size)) ≤ Gen.adjusterMaxParts := by
  obtain ⟨h1, h2, h3, h4⟩ := consts_ok
  have := adjust_in_limits Gen.adjusterMinSize Gen.adjusterMaxSize Gen.adjusterMaxParts c (some size) h2
  exact ⟨this.1, this.2,
    adjust_parts_le_general _ _ _ c size (5 * 2^40) hc h3 h1 h2 hs h4⟩

theorem adjust_unchanged (c size : Nat) (h1 : Gen.adjusterMinSize ≤ c)
    (h2 : c ≤ Gen.adjusterMaxSize) (h3 : ceilDiv size c ≤ Gen.adjusterMaxParts) :
    adjust c (some size) = c := adjust_minimal_id _ _ _ c size h1 h2 h3

theorem adjust_changed_only_if_needed (c size : Nat) (h : adjust c (some size) ≠ c) :
    c < Gen.adjusterMinSize ∨ Gen.adjusterMaxSize < c ∨ Gen.adjusterMaxParts < ceilDiv size c :=
  adjust_minimal _ _ _ c size h

/-! ### D13 (recorded finding): with an unknown size nothing bounds the part count. -/

/-- Counter-example kept next to the bound: a non-seekable stream of `10000·5MiB + 1` bytes and
unknown size is planned with the 5 MiB part size and therefore 10 001 parts. -/
theorem unknown_size_exceeds_parts :
    Gen.adjusterMaxParts < ceilDiv (10000 * (5 * 2^20) + 1) (adjust 1 none) := by
  decide +kernel

/-! ### non-vacuity -/
example : 0 < (8 : Nat) ∧ (20 : Nat) ≤ 5 * 2^40 := by decide
example : (uploadParts 20 8).map (·.len) = [8, 8, 4] := by decide
example : downloadParts 20 8 =
    [({ start := 0, stop := some 7 }, 0), ({ start := 8, stop := some 15 }, 8),
     ({ start := 16, stop := none }, 16)] := by decide
example : adjust (8 * 2^20) (some (5 * 2^40)) = 1024 * 2^20 := by decide +kernel

end S3V.C14
