/-
C04 — every transfer terminates: no deadlock, hang or lost wake-up.

What is proved here (partial, see MANIFEST):
* `stage_no_stuck`: in one stage (bounded FIFO executor, `k ≥ 1` workers) whose tasks wait only
  for tasks submitted earlier to the same stage — which is how every wait-for edge of the
  request stage looks: parts wait for create, complete waits for create and parts — some event
  is always enabled while work is left; so the stage can never be stuck, for any number of
  tasks, any capacity, any worker count.
* `stage_measure`: every event strictly decreases a measure, so every run of a finite workload
  is finite; with `stage_no_stuck`, every maximal run ends with all tasks finished and all
  permits returned.
* `no_lost_wakeup` (C12): a blocked acquirer of the sliding-window semaphore is always woken.
* the transfer model (Xfer): the final task announces once its dependencies have ended
  (`announce_enabled`), the announcement runs to its end, and `result()` is then unblocked.
The composition over the three stages with nested submission (a request task submitting io
tasks while holding `_io_submit_lock`) is not proved; the scheduled explorer searches it for
deadlocks and livelocks directly (systematically small, randomized beyond), which is also where
the re-entrant callback requirement (defect D3) is checked.
-/
import S3V.Model.Pipeline
import S3V.Model.Exec
import S3V.Props.C10
import S3V.Props.C12
import S3V.Lemmas.Xfer3
import S3V.Props.Serial
import S3V.Gen.Cci

namespace S3V.C04
open S3V.Exec

/-- well-formed workload: ids are given in submission order and a task waits only for earlier
ones -/
structure Ord (e : Exec) (next : Nat) : Prop where
  qinc  : e.queue.Pairwise (· < ·)
  qhigh : ∀ q ∈ e.queue, ∀ r, (r ∈ e.running ∨ r ∈ e.ended) → r < q
  all   : ∀ i, i < next → (i ∈ e.queue ∨ i ∈ e.running ∨ i ∈ e.ended)
  bound : ∀ i, (i ∈ e.queue ∨ i ∈ e.running ∨ i ∈ e.ended) → i < next
  dearly : ∀ j d, e.deps.lookup j = some d → ∀ k ∈ d, k < j

theorem ord_init (cap w : Nat) : Ord (Exec.init cap w) 0 := by
  constructor <;> simp [Exec.init]

/-- submitting the next id with earlier dependencies keeps the workload well-formed -/
theorem ord_submit (e e' : Exec) (n : Nat) (d : List Nat) (h : Ord e n) (hd : ∀ k ∈ d, k < n)
    (hs : step e (.submit n d) = some e') : Ord e' (n + 1) := by
  obtain ⟨q1, q2, q3, q4, q5⟩ := h
  simp only [step] at hs
  split at hs
  · cases hs
  · cases hs
    constructor
    · simp only
      rw [List.pairwise_append]
      refine ⟨q1, by simp, ?_⟩
      intro a ha b hb
      simp only [List.mem_singleton] at hb; subst hb
      exact q4 a (Or.inl ha)
    · intro q hq r hr
      simp only [List.mem_append, List.mem_singleton] at hq
      rcases hq with hq | rfl
      · exact q2 q hq r hr
      · exact q4 r (by rcases hr with h | h; exact Or.inr (Or.inl h); exact Or.inr (Or.inr h))
    · intro i hi
      by_cases e1 : i = n
      · subst e1; left; simp
      · rcases q3 i (by omega) with h | h | h
        · left; simp [h]
        · right; left; exact h
        · right; right; exact h
    · intro i hi
      simp only [List.mem_append, List.mem_singleton] at hi
      rcases hi with (h | rfl) | h | h
      · have := q4 i (Or.inl h); omega
      · omega
      · have := q4 i (Or.inr (Or.inl h)); omega
      · have := q4 i (Or.inr (Or.inr h)); omega
    · intro j dd hl k hk
      simp only [List.lookup] at hl
      split at hl
      · rename_i heq
        simp only [beq_iff_eq] at heq
        cases hl; subst heq; exact hd k hk
      · exact q5 j dd hl k hk

theorem ord_pick (e e' : Exec) (n j : Nat) (h : Ord e n) (hs : step e (.pick j) = some e') : Ord e' n := by
  obtain ⟨q1, q2, q3, q4, q5⟩ := h
  simp only [step] at hs
  cases hq : e.queue with
  | nil => simp [hq] at hs
  | cons q rest =>
    simp only [hq] at hs
    split at hs
    · rename_i hg
      cases hs
      obtain ⟨rfl, _⟩ := hg
      rw [hq] at q1 q2 q3 q4
      rw [List.pairwise_cons] at q1
      constructor
      · exact q1.2
      · intro x hx r hr
        simp only [List.mem_append, List.mem_singleton] at hr
        rcases hr with (hr | rfl) | hr
        · exact q2 x (by simp [hx]) r (Or.inl hr)
        · exact q1.1 x hx
        · exact q2 x (by simp [hx]) r (Or.inr hr)
      · intro i hi
        rcases q3 i hi with h | h | h
        · simp only [List.mem_cons] at h
          rcases h with rfl | h
          · right; left; simp
          · left; exact h
        · right; left; simp [h]
        · right; right; exact h
      · intro i hi
        apply q4
        simp only [List.mem_append, List.mem_singleton] at hi
        rcases hi with h | (h | rfl) | h
        · left; simp [h]
        · right; left; exact h
        · left; simp
        · right; right; exact h
      · exact q5
    · cases hs

theorem ord_finish (e e' : Exec) (n j : Nat) (h : Ord e n) (hs : step e (.finish j) = some e') : Ord e' n := by
  obtain ⟨q1, q2, q3, q4, q5⟩ := h
  simp only [step] at hs
  split at hs
  · rename_i hg
    cases hs
    have hm : j ∈ e.running := by simpa using hg.1
    constructor
    · exact q1
    · intro x hx r hr
      simp only [List.mem_append, List.mem_singleton] at hr
      rcases hr with hr | hr | rfl
      · exact q2 x hx r (Or.inl (List.mem_of_mem_erase hr))
      · exact q2 x hx r (Or.inr hr)
      · exact q2 x hx r (Or.inl hm)
    · intro i hi
      rcases q3 i hi with h | h | h
      · left; exact h
      · by_cases e1 : i = j
        · right; right; simp [e1]
        · right; left; exact (List.mem_erase_of_ne e1).mpr h
      · right; right; simp [h]
    · intro i hi
      apply q4
      simp only [List.mem_append, List.mem_singleton] at hi
      rcases hi with h | h | h | rfl
      · left; exact h
      · right; left; exact List.mem_of_mem_erase h
      · right; right; exact h
      · right; left; exact hm
    · exact q5
  · cases hs

/-- **A stage is never stuck.** With at least one worker and a well-formed workload, whenever a
task is queued or running some event is enabled: the head of the queue can be picked, or the
earliest running task can finish (everything it waits for was submitted earlier, hence — FIFO —
has been picked, and being earlier than the earliest running task, has ended). -/
theorem stage_no_stuck (e : Exec) (n : Nat) (h : Ord e n) (hw : 0 < e.workers)
    (hwork : e.queue ≠ [] ∨ e.running ≠ []) :
    (∃ j, (step e (.pick j)).isSome = true) ∨ (∃ j, (step e (.finish j)).isSome = true) := by
  obtain ⟨q1, q2, q3, q4, q5⟩ := h
  by_cases hr : e.running = []
  · left
    cases hq : e.queue with
    | nil => rcases hwork with h | h; exact absurd hq h; exact absurd hr h
    | cons q rest =>
      refine ⟨q, ?_⟩
      simp [step, hq, hr, hw]
  · right
    -- the earliest running task
    obtain ⟨m, hm, hmin⟩ : ∃ m ∈ e.running, ∀ r ∈ e.running, m ≤ r := by
      have : ∀ (l : List Nat), l ≠ [] → ∃ m ∈ l, ∀ r ∈ l, m ≤ r := by
        intro l
        induction l with
        | nil => intro h; exact absurd rfl h
        | cons a t ih =>
          intro _
          by_cases ht : t = []
          · subst ht; exact ⟨a, by simp, by simp⟩
          · obtain ⟨m, hm, hmin⟩ := ih ht
            by_cases ham : a ≤ m
            · exact ⟨a, by simp, fun r hr => by
                simp only [List.mem_cons] at hr
                rcases hr with rfl | hr
                · exact Nat.le_refl _
                · exact Nat.le_trans ham (hmin r hr)⟩
            · exact ⟨m, by simp [hm], fun r hr => by
                simp only [List.mem_cons] at hr
                rcases hr with rfl | hr
                · omega
                · exact hmin r hr⟩
      exact this e.running hr
    refine ⟨m, ?_⟩
    have hdeps : (depsOf e m).all e.ended.contains = true := by
      rw [List.all_eq_true]
      intro k hk
      unfold depsOf at hk
      cases hl : e.deps.lookup m with
      | none => simp [hl] at hk
      | some d =>
        simp only [hl] at hk
        have hkm : k < m := q5 m d hl k hk
        have hmn : m < n := q4 m (Or.inr (Or.inl hm))
        rcases q3 k (by omega) with h | h | h
        · have := q2 k h m (Or.inl hm); omega
        · have := hmin k h; omega
        · simpa using h
    simp [step, hm, hdeps]

/-- **Every event makes progress**: the measure `3·(tasks not yet submitted) + 2·queued + running`
strictly decreases, so every run of a finite workload of `total` tasks is finite. -/
def measure (total : Nat) (e : Exec) : Nat :=
  3 * (total - (e.queue.length + e.running.length + e.ended.length)) + 2 * e.queue.length + e.running.length

theorem stage_measure (total : Nat) (e e' : Exec) (l : Label) (hs : step e l = some e')
    (hb : e'.queue.length + e'.running.length + e'.ended.length ≤ total) :
    measure total e' < measure total e := by
  unfold measure at *
  cases l with
  | submit j d =>
    simp only [step] at hs
    split at hs
    · cases hs
    · cases hs
      simp only [List.length_append, List.length_cons, List.length_nil] at hb ⊢
      omega
  | pick j =>
    simp only [step] at hs
    cases hq : e.queue with
    | nil => simp [hq] at hs
    | cons q rest =>
      simp only [hq] at hs
      split at hs
      · cases hs
        simp only [List.length_append, List.length_cons, List.length_nil] at hb ⊢
        omega
      · cases hs
  | finish j =>
    simp only [step] at hs
    split at hs
    · rename_i hg
      cases hs
      have hm : j ∈ e.running := by simpa using hg.1
      have hl := List.length_erase_of_mem hm
      have hpos : 0 < e.running.length := List.length_pos_of_mem hm
      simp only [List.length_append, List.length_cons, List.length_nil] at hb ⊢
      omega
    · cases hs

/-- at quiescence of a stage every permit is back -/
theorem stage_quiescent_full (cap workers : Nat) (ls : List Label) (e : Exec)
    (hr : run (Exec.init cap workers) ls = some e) (hq : e.queue = []) (hrun : e.running = []) :
    e.free = e.cap := by
  have := (S3V.C10.queued_le cap workers ls e hr).2
  rw [hq, hrun] at this; simpa using this

/-- no lost wake-up on the sliding-window semaphore (from C12) -/
theorem no_lost_wakeup (cap : Nat) (hcap : 0 < cap) (ls : List S3V.Sema.BLabel) (b : S3V.Sema.BState)
    (hr : S3V.Sema.brun (S3V.Sema.BState.init cap) ls = some b)
    (hall : S3V.Sema.width b.sws.tags = 0) (hq : b.notified = []) : b.waiting = [] :=
  S3V.C12.no_lost_wakeup cap hcap ls b hr hall hq

/-- transfer model: once the final task has decided and its request (if any) has returned, its
announcement is enabled — it does not wait for anything else -/
theorem announce_enabled (cfg : S3V.Xfer.Cfg) (x : S3V.Xfer.X) (j : Nat)
    (h1 : x.ph j = .run) (h2 : x.final j = true) (h3 : x.decided j ≠ .undecided) (h4 : x.done = true)
    (h5 : x.res j = .failed → x.recorded j = true) (h6 : x.decided j = .runMain → x.requested j = true)
    (h7 : x.announced (j + 2) = false) :
    (S3V.Xfer.step cfg x (.annBegin (j + 2))).isSome = true := by
  simp [S3V.Xfer.step, h1, h2, h3, h4, h7]
  exact ⟨h5, h6⟩

/-! ### the hand-off of the final IO task of a ranged download (`CountCallbackInvoker`)

`increment`, `decrement` and `finalize` each run under the invoker's lock, so an execution is a
sequence of them.  Whatever the order in which the submission thread's `finalize` and the
GetObjectTasks' `decrement`s take the lock: once finalized, the callback (which submits the final
task) has run exactly once if the count is zero and not at all otherwise — the hand-off is never
lost and never doubled. -/
inductive CciOp | inc | dec
  deriving Repr, DecidableEq

def cciApply (c : S3V.Sema.Cci) : CciOp → S3V.Sema.Cci
  | .inc => c.increment.1
  | .dec => c.decrement.1

theorem cci_pre (ops : List CciOp) (c : S3V.Sema.Cci) (h : c.finalized = false ∧ c.fired = 0) :
    (ops.foldl cciApply c).finalized = false ∧ (ops.foldl cciApply c).fired = 0 := by
  induction ops generalizing c with
  | nil => exact h
  | cons o os ih =>
    apply ih
    cases o <;> simp only [cciApply, S3V.Sema.Cci.increment, S3V.Sema.Cci.decrement] <;>
      (repeat' split) <;> simp_all

theorem cci_post (ops : List CciOp) (c : S3V.Sema.Cci)
    (h : c.finalized = true ∧ c.fired = if c.count = 0 then 1 else 0) :
    (ops.foldl cciApply c).finalized = true ∧
      (ops.foldl cciApply c).fired = if (ops.foldl cciApply c).count = 0 then 1 else 0 := by
  induction ops generalizing c with
  | nil => exact h
  | cons o os ih =>
    apply ih
    obtain ⟨h1, h2⟩ := h
    cases o <;> simp only [cciApply, S3V.Sema.Cci.increment, S3V.Sema.Cci.decrement]
    · simp [h1, h2]
    · by_cases hc : c.count = 0
      · simp [hc, h1, h2]
      · by_cases hc1 : c.count = 1
        · simp [hc1, h1, h2]
        · have : c.count - 1 ≠ 0 := by omega
          simp [hc, hc1, h1, h2, this]

theorem cci_handoff (pre post : List CciOp) :
    (post.foldl cciApply ((pre.foldl cciApply S3V.Sema.Cci.init).finalize.1)).finalized = true ∧
    (post.foldl cciApply ((pre.foldl cciApply S3V.Sema.Cci.init).finalize.1)).fired =
      if (post.foldl cciApply ((pre.foldl cciApply S3V.Sema.Cci.init).finalize.1)).count = 0 then 1 else 0 := by
  apply cci_post
  have hp := cci_pre pre S3V.Sema.Cci.init ⟨rfl, rfl⟩
  simp only [S3V.Sema.Cci.finalize]
  split <;> simp_all

example : (([CciOp.dec, .dec].foldl cciApply (([CciOp.inc, .inc].foldl cciApply S3V.Sema.Cci.init).finalize.1)).fired) = 1 := by decide

/-- The tie to the source: `Gen.cciIncrement / cciDecrement / cciFinalize` are translated path by path from
`utils.CountCallbackInvoker` on every run (`extract.gen_cci`); they are the model's functions, so
`cci_handoff` is a statement about the code. -/
theorem cci_from_source (c : S3V.Sema.Cci) :
    Gen.cciIncrement c = c.increment ∧ Gen.cciDecrement c = c.decrement ∧ Gen.cciFinalize c = c.finalize := by
  refine ⟨?_, ?_, ?_⟩
  · simp only [Gen.cciIncrement, S3V.Sema.Cci.increment]
  · simp only [Gen.cciDecrement, S3V.Sema.Cci.decrement]
    by_cases h0 : c.count = 0
    · simp [h0]
    · by_cases h1 : c.count = 1
      · cases hf : c.finalized <;> simp [h1]
      · have : c.count - 1 ≠ 0 := by omega
        cases hf : c.finalized <;> simp [h0, h1, this]
  · simp only [Gen.cciFinalize, S3V.Sema.Cci.finalize]
    by_cases h0 : c.count = 0 <;> simp [h0]

/-- Counter, flag and callback are only touched under the invoker's lock (what makes one call one step). -/
theorem cci_locking_from_source : Gen.cciWithoutLock = [] := by decide

/-! ### the three stages in a row

Submission tasks submit request tasks, request tasks submit io tasks, io tasks submit nothing; a
submitter blocks while the next stage has no permit.  (Dependencies inside one stage are
`stage_no_stuck`'s subject; the composition of both is checked by the explorer's deadlock
detection, not proved.) -/
namespace Pipe
open S3V.Pipeline (P Stage)

/-- **The three-stage pipeline is never stuck**: whenever some task exists, a task can be picked,
can finish, or a blocked submitter can proceed — in every state, reachable or not, as long as every
stage has a worker and a permit. -/
theorem pipeline_no_deadlock (p : P) (hn : p.n = 3)
    (hw : ∀ k, k < 3 → 0 < (p.s k).workers ∧ 0 < (p.s k).cap)
    (hb2 : (p.s 2).blocked = 0)
    (hsome : 0 < (p.s 0).inflight + (p.s 1).inflight + (p.s 2).inflight) :
    ∃ l, (S3V.Pipeline.step p l).isSome = true ∧ (∀ k, l ≠ S3V.Pipeline.Label.trySubmit k) := by
  -- the last stage that holds a task can always move
  by_cases h2 : 0 < (p.s 2).inflight
  · unfold Stage.inflight at h2
    by_cases hr : 0 < (p.s 2).running
    · exact ⟨S3V.Pipeline.Label.finish 2, by simp [S3V.Pipeline.step, hn, hr], by intro k; simp⟩
    · have hq : 0 < (p.s 2).queued := by omega
      have := (hw 2 (by omega)).1
      exact ⟨S3V.Pipeline.Label.pick 2, by simp [S3V.Pipeline.step, hn, hq, hb2]; omega, by intro k; simp⟩
  · have h2z : (p.s 2).inflight = 0 := by omega
    by_cases h1 : 0 < (p.s 1).inflight
    · unfold Stage.inflight at h1
      by_cases hr : 0 < (p.s 1).running
      · exact ⟨S3V.Pipeline.Label.finish 1, by simp [S3V.Pipeline.step, hn, hr], by intro k; simp⟩
      · by_cases hbk : 0 < (p.s 1).blocked
        · have := (hw 2 (by omega)).2
          exact ⟨S3V.Pipeline.Label.unblock 1, by simp [S3V.Pipeline.step, hn, hbk, h2z]; omega, by intro k; simp⟩
        · have hq : 0 < (p.s 1).queued := by omega
          have := (hw 1 (by omega)).1
          exact ⟨S3V.Pipeline.Label.pick 1, by simp [S3V.Pipeline.step, hn, hq]; omega, by intro k; simp⟩
    · have h1z : (p.s 1).inflight = 0 := by omega
      have h0 : 0 < (p.s 0).inflight := by omega
      unfold Stage.inflight at h0
      by_cases hr : 0 < (p.s 0).running
      · exact ⟨S3V.Pipeline.Label.finish 0, by simp [S3V.Pipeline.step, hn, hr], by intro k; simp⟩
      · by_cases hbk : 0 < (p.s 0).blocked
        · have := (hw 1 (by omega)).2
          exact ⟨S3V.Pipeline.Label.unblock 0, by simp [S3V.Pipeline.step, hn, hbk, h1z]; omega, by intro k; simp⟩
        · have hq : 0 < (p.s 0).queued := by omega
          have := (hw 0 (by omega)).1
          exact ⟨S3V.Pipeline.Label.pick 0, by simp [S3V.Pipeline.step, hn, hq]; omega, by intro k; simp⟩


example : (S3V.Pipeline.step { s := fun k => if k = 0 then { cap := 1, workers := 1, blocked := 1 } else { cap := 1, workers := 1 } }
    (S3V.Pipeline.Label.unblock 0)).isSome = true := by decide

end Pipe

/-! ### non-vacuity -/
example : Ord (Exec.init 2 1) 0 ∧ 0 < (Exec.init 2 1).workers := ⟨ord_init 2 1, by decide⟩

/-- **A transfer on a serial manager always ends**: done is announced (the future is done, `result()`
does not block), whatever raised — Ctrl-C included — and the submitting call returns -/
theorem serial_future_done (plan : List S3V.Serial.Task) (hwf : S3V.Serial.WF plan) :
    1 ≤ (S3V.Serial.manager S3V.Serial.Tables.current plan).1.announced ∧
    (S3V.Serial.manager S3V.Serial.Tables.current plan).2 = none :=
  ⟨(S3V.Serial.serial_outcome plan hwf).2.2.1, (S3V.Serial.serial_outcome plan hwf).1⟩

/-- and leaves no permit behind for the next transfer to wait for (D19) -/
theorem serial_no_permit_left (plan : List S3V.Serial.Task) (hwf : S3V.Serial.WF plan) :
    (S3V.Serial.manager S3V.Serial.Tables.current plan).1.permits = 0 :=
  (S3V.Serial.serial_outcome plan hwf).2.1

/-- **A transfer whose submission failed is announced, whatever its other tasks raised** (D20): see
`Serial.failed_submission_is_announced` — the waiting loop's `except` clauses and the order record / wait /
announce are generated from the source -/
theorem failed_submission_is_announced (stored : List (Option S3V.Serial.Exc)) :
    S3V.Serial.failurePath S3V.Gen.waitLoopHandlers S3V.Gen.submissionFailurePath stored = (true, none) :=
  S3V.Serial.failed_submission_is_announced stored

end S3V.C04
