/-
C13 — bandwidth limit is respected without starving or over-throttling (partial, see MANIFEST).
Exact rational arithmetic; `alpha` is read from the source (4/5).  Quantifiers: every maximum
rate > 0, every history of consume calls (amounts, tokens, clock readings), every placement of
a transfer failure in a stream's wait loop.
Proved: the local laws (admission bound, no delay below the limit, the wait is the queue, one
wait, an abandoned waiter leaves the queue and raises); first-attempt traffic moves at most
`(1/α)·max·T` in every interleaving with waiting traffic (`window_first_attempts`); waiting traffic
is served no faster than a FIFO server of rate `max` (`fifo_lower_bound`, `vf_ge_sum`).
For runs of the bucket under the stream discipline (`Disc`: clock readings do not go back, a refused
stream asks again for the same amount no earlier than told) the bytes granted to reads that waited are
at most `max·T` (`waited_bytes_le`, an invariant with the virtual finish times of a FIFO server as ghost
state), and all bytes at most `(1/α)·max·T + max·T` (`total_bytes_le`).
Disproved: the statement's single bound `1.25·max·T + burst` for *all* traffic together —
`smoothing_allowance_exceeded` gives, for every burst allowance, a history of one saturated and one
paced stream that moves 1.4·max·T (finding D17, replayed on the real classes by the check).  What
the limiter guarantees is the sum of the two separate bounds.
-/
import S3V.Model.Bandwidth
import Mathlib.Tactic.Linarith
import Mathlib.Tactic.FieldSimp
import Mathlib.Tactic.Positivity
import Mathlib.Tactic.NormNum
import Mathlib.Tactic.Ring
import Mathlib.Algebra.Order.Archimedean.Basic

namespace S3V.C13
open S3V.Bandwidth

theorem alpha_val : alpha = 4 / 5 := by
  unfold alpha Gen.alphaNum Gen.alphaDen; norm_num

def RateNonneg (b : Bucket) : Prop :=
  match b.rate with
  | .fin c => 0 ≤ c
  | .inf => True

/-- **Admission bound.** A grant that had not been scheduled is admitted only after a positive
time since the previous grant, and its amount is at most `(1/α)·max·Δt` — the limiter's
smoothing allowance (α = 0.8 gives the factor 1.25). -/
theorem admit_bound (b : Bucket) (amt tok : Nat) (now t0 : Rat)
    (hlast : b.last = some t0) (hr : RateNonneg b) (hns : isScheduled b tok = false)
    (hg : (consume b amt tok now).2 = .granted) :
    t0 < now ∧ (amt : Rat) ≤ (1 / alpha) * b.maxRate * (now - t0) := by
  unfold consume at hg
  simp only [hns, Bool.false_eq_true, if_false] at hg
  have hne : exceeds (projected b amt now) b.maxRate = false := by
    by_cases h : exceeds (projected b amt now) b.maxRate = true
    · simp [h] at hg
    · simpa using h
  unfold projected at hne
  simp only [hlast] at hne
  unfold ema newRate at hne
  simp only [hlast] at hne
  by_cases hd : now - t0 ≤ 0
  · simp [hd, exceeds] at hne
  · simp only [hd, if_false] at hne
    unfold RateNonneg at hr
    cases hrate : b.rate with
    | inf => simp [hrate, exceeds] at hne
    | fin c =>
      simp only [hrate] at hne hr
      simp only [exceeds, decide_eq_false_iff_not, not_lt] at hne
      have hpos : 0 < now - t0 := by linarith [not_le.mp hd]
      rw [alpha_val] at hne ⊢
      refine ⟨by linarith, ?_⟩
      have h1 : (4 / 5 : Rat) * ((amt : Rat) / (now - t0)) ≤ b.maxRate := by nlinarith
      have h2 : (amt : Rat) / (now - t0) ≤ (5 / 4) * b.maxRate := by linarith
      rw [div_le_iff₀ hpos] at h2
      norm_num
      linarith

/-- the tracked rate stays non-negative (or infinite) -/
theorem rate_nonneg_consume (b : Bucket) (amt tok : Nat) (now : Rat) (h : RateNonneg b) :
    RateNonneg (consume b amt tok now).1 := by
  have hrec : ∀ (b' : Bucket), RateNonneg b' → RateNonneg (record b' amt now) := by
    intro b' h'
    unfold record
    cases hl : b'.last with
    | none => simp [RateNonneg]
    | some t0 =>
      by_cases hd : now - t0 ≤ 0
      · simp only [hd, if_true]; exact h'
      · simp only [RateNonneg, ema, newRate, hl, hd, if_false]
        cases hrate : b'.rate with
        | inf => simp
        | fin c =>
          simp only
          unfold RateNonneg at h'
          rw [hrate] at h'
          simp only at h'
          rw [alpha_val]
          have hpos : 0 < now - t0 := by linarith [not_le.mp hd]
          have : 0 ≤ (amt : Rat) / (now - t0) := by positivity
          nlinarith
  unfold consume
  by_cases hs : isScheduled b tok = true
  · simp only [hs, if_true]
    apply hrec
    simpa [unschedule, RateNonneg] using h
  · simp only [hs, Bool.false_eq_true, if_false]
    split
    · simpa [RateNonneg] using h
    · exact hrec b h

/-- **The tracked rate never becomes infinite** (the D5 repair): whatever the clock readings — also two
consumptions at the same reading — the stored rate stays a finite number, so the moving average can
always decay again and throttling is never permanent. -/
def RateFinite (b : Bucket) : Prop := ∃ c, b.rate = .fin c

theorem rate_finite_consume (b : Bucket) (amt tok : Nat) (now : Rat) (h : RateFinite b) :
    RateFinite (consume b amt tok now).1 := by
  have hrec : ∀ (b' : Bucket), RateFinite b' → RateFinite (record b' amt now) := by
    intro b' h'
    obtain ⟨c, hc⟩ := h'
    unfold record
    cases hl : b'.last with
    | none => exact ⟨0, rfl⟩
    | some t0 =>
      by_cases hd : now - t0 ≤ 0
      · simp only [hd, if_true]; exact ⟨c, hc⟩
      · simp only [hd, if_false, ema, newRate, hl, hc]
        exact ⟨_, rfl⟩
  unfold consume
  by_cases hs : isScheduled b tok = true
  · simp only [hs, if_true]
    apply hrec
    obtain ⟨c, hc⟩ := h
    exact ⟨c, by simpa [unschedule] using hc⟩
  · simp only [hs, Bool.false_eq_true, if_false]
    split
    · obtain ⟨c, hc⟩ := h; exact ⟨c, by simpa using hc⟩
    · exact hrec b h

/-- **One wait.** A token that was scheduled is granted on its next attempt, whatever the rate. -/
theorem one_wait (b : Bucket) (amt tok : Nat) (now : Rat) (h : isScheduled b tok = true) :
    (consume b amt tok now).2 = .granted ∧ isScheduled (consume b amt tok now).1 tok = false := by
  unfold consume
  simp only [h, if_true]
  refine ⟨trivial, ?_⟩
  have : ∀ b' : Bucket, isScheduled (record b' amt now) tok = isScheduled b' tok := by
    intro b'; unfold record isScheduled; split
    · rfl
    · split <;> rfl
  rw [this]
  unfold unschedule isScheduled
  simp only [List.any_filter]
  rw [Bool.eq_false_iff]
  intro hh
  rw [List.any_eq_true] at hh
  obtain ⟨s, _, hs⟩ := hh
  simp at hs

/-- **Traffic below the limit is never delayed.** `BelowLimit`: clock readings increase and every
amount is at most `max·Δt` since the previous consumption. -/
def BelowLimit (m : Rat) : Option Rat → List (Nat × Nat × Rat) → Prop
  | _, [] => True
  | none, (_, _, now) :: rest => BelowLimit m (some now) rest
  | some t0, (amt, _, now) :: rest => t0 < now ∧ (amt : Rat) ≤ m * (now - t0) ∧ BelowLimit m (some now) rest

def runConsumes (b : Bucket) : List (Nat × Nat × Rat) → Bucket × List Out
  | [] => (b, [])
  | (amt, tok, now) :: rest =>
    ((runConsumes (consume b amt tok now).1 rest).1, (consume b amt tok now).2 :: (runConsumes (consume b amt tok now).1 rest).2)

structure Calm (b : Bucket) : Prop where
  nosched : b.sched = []
  rate : b.last = none ∨ ∃ c, b.rate = .fin c ∧ 0 ≤ c ∧ c ≤ b.maxRate

theorem no_delay_below_limit (b : Bucket) (hm : 0 ≤ b.maxRate) (hc : Calm b)
    (h : List (Nat × Nat × Rat)) (hb : BelowLimit b.maxRate b.last h) :
    ∀ o ∈ (runConsumes b h).2, o = .granted := by
  induction h generalizing b with
  | nil => simp [runConsumes]
  | cons x rest ih =>
    obtain ⟨amt, tok, now⟩ := x
    have hns : isScheduled b tok = false := by simp [isScheduled, hc.nosched]
    have key : (consume b amt tok now).2 = .granted ∧ Calm (consume b amt tok now).1 ∧
        (consume b amt tok now).1.last = some now ∧ (consume b amt tok now).1.maxRate = b.maxRate := by
      unfold consume
      simp only [hns, Bool.false_eq_true, if_false]
      cases hl : b.last with
      | none =>
        have : exceeds (projected b amt now) b.maxRate = false := by
          simp [projected, hl, exceeds]; exact hm
        simp only [this, Bool.false_eq_true, if_false]
        refine ⟨trivial, ⟨by simp [record, hl, hc.nosched], Or.inr ⟨0, by simp [record, hl], le_refl _, by simpa [record, hl] using hm⟩⟩,
                by simp [record, hl], by simp [record, hl]⟩
      | some t0 =>
        rw [hl] at hb
        obtain ⟨ht, ha, _⟩ := hb
        rcases hc.rate with hnone | ⟨c, hc1, hc2, hc3⟩
        · rw [hl] at hnone; cases hnone
        · have hpos : 0 < now - t0 := by linarith
          have hnd : ¬ (now - t0 ≤ 0) := by linarith
          have hq : (amt : Rat) / (now - t0) ≤ b.maxRate := by
            rw [div_le_iff₀ hpos]; exact ha
          have hq0 : 0 ≤ (amt : Rat) / (now - t0) := by positivity
          have hp : projected b amt now = .fin (alpha * ((amt : Rat) / (now - t0)) + (1 - alpha) * c) := by
            simp [projected, hl, ema, newRate, hnd, hc1]
          have hle : alpha * ((amt : Rat) / (now - t0)) + (1 - alpha) * c ≤ b.maxRate := by
            rw [alpha_val]; nlinarith
          have hge : 0 ≤ alpha * ((amt : Rat) / (now - t0)) + (1 - alpha) * c := by
            rw [alpha_val]; nlinarith
          have : exceeds (projected b amt now) b.maxRate = false := by
            rw [hp]; simp [exceeds]; exact hle
          simp only [this, Bool.false_eq_true, if_false]
          have hrec : (record b amt now).rate = .fin (alpha * ((amt : Rat) / (now - t0)) + (1 - alpha) * c) := by
            simp [record, hl, ema, newRate, hnd, hc1]
          refine ⟨trivial, ⟨by simp [record, hl, hnd, hc.nosched], Or.inr ⟨_, hrec, hge, by simpa [record, hl, hnd] using hle⟩⟩,
                  by simp [record, hl, hnd], by simp [record, hl, hnd]⟩
    obtain ⟨k1, k2, k3, k4⟩ := key
    intro o ho
    simp only [runConsumes, List.mem_cons] at ho
    rcases ho with rfl | ho
    · exact k1
    · apply ih (consume b amt tok now).1 (by rw [k4]; exact hm) k2 _ o ho
      rw [k3, k4]
      cases hl : b.last with
      | none => rw [hl] at hb; exact hb
      | some t0 => rw [hl] at hb; exact hb.2.2

/-! ### the wait is the queue -/

def schedSum (l : List Sched) : Rat := (l.map (·.timeToConsume)).sum

structure QInv (b : Bucket) : Prop where
  total : b.totalWait = schedSum b.sched
  nonneg : ∀ s ∈ b.sched, 0 ≤ s.timeToConsume
  nodup : (b.sched.map (·.token)).Nodup

theorem schedSum_nonneg (l : List Sched) (h : ∀ s ∈ l, 0 ≤ s.timeToConsume) : 0 ≤ schedSum l := by
  induction l with
  | nil => simp [schedSum]
  | cons a t ih =>
    simp only [schedSum, List.map_cons, List.sum_cons]
    have := ih (fun s hs => h s (by simp [hs]))
    have := h a (by simp)
    unfold schedSum at *
    linarith

theorem schedSum_filter (l : List Sched) (tok : Nat) (hnd : (l.map (·.token)).Nodup) :
    schedSum (l.filter (fun s => s.token != tok)) =
      schedSum l - (match l.find? (·.token == tok) with | some s => s.timeToConsume | none => 0) := by
  induction l with
  | nil => simp [schedSum]
  | cons a t ih =>
    simp only [List.map_cons, List.nodup_cons] at hnd
    by_cases ha : a.token = tok
    · have hnot : ∀ s ∈ t, s.token ≠ tok := by
        intro s hs e
        apply hnd.1
        rw [ha, ← e]
        exact List.mem_map_of_mem hs
      have hf : t.filter (fun s => s.token != tok) = t := by
        apply List.filter_eq_self.mpr
        intro s hs; simpa using hnot s hs
      simp [List.filter, ha, hf, schedSum, List.find?]
    · have := ih hnd.2
      simp only [List.filter, List.find?]
      have h1 : (a.token != tok) = true := by simpa using ha
      have h2 : (a.token == tok) = false := by simpa using ha
      simp only [h1, h2]
      unfold schedSum at *
      simp only [List.map_cons, List.sum_cons]
      rw [this]; ring

theorem qinv_unschedule (b : Bucket) (tok : Nat) (h : QInv b) : QInv (unschedule b tok) := by
  obtain ⟨h1, h2, h3⟩ := h
  have hs := schedSum_filter b.sched tok h3
  have hfn : ∀ s ∈ b.sched.filter (fun s => s.token != tok), 0 ≤ s.timeToConsume :=
    fun s hs => h2 s (List.mem_of_mem_filter hs)
  refine ⟨?_, hfn, ?_⟩
  · unfold unschedule ttcOf
    simp only
    rw [hs, h1]
    apply max_eq_left
    have := schedSum_nonneg _ hfn
    rw [hs] at this
    exact this
  · unfold unschedule
    simp only
    exact (List.Nodup.sublist (List.Sublist.map _ List.filter_sublist) h3)

/-- **The wait is the queue.** In every history (max rate > 0) the scheduler's total equals the
sum of the waits of the tokens currently scheduled (the `max(…, 0)` never binds), and a refused
request is told to wait exactly the time the limit needs for the amounts currently waiting plus
its own. -/
theorem wait_is_queue (b : Bucket) (amt tok : Nat) (now : Rat) (hm : 0 < b.maxRate) (h : QInv b) :
    QInv (consume b amt tok now).1 ∧
    ∀ d, (consume b amt tok now).2 = .refused d →
      d = schedSum b.sched + (amt : Rat) / b.maxRate ∧ d = schedSum (consume b amt tok now).1.sched := by
  have hrec : ∀ b' : Bucket, QInv b' → QInv (record b' amt now) := by
    intro b' h'
    obtain ⟨a1, a2, a3⟩ := h'
    unfold record
    split
    · exact ⟨a1, a2, a3⟩
    · split <;> exact ⟨a1, a2, a3⟩
  unfold consume
  by_cases hs : isScheduled b tok = true
  · simp only [hs, if_true]
    exact ⟨hrec _ (qinv_unschedule b tok h), fun d hd => by cases hd⟩
  · simp only [hs, Bool.false_eq_true, if_false]
    split
    · obtain ⟨h1, h2, h3⟩ := h
      have hq : 0 ≤ (amt : Rat) / b.maxRate := by positivity
      refine ⟨⟨?_, ?_, ?_⟩, ?_⟩
      · simp only [schedSum, List.map_append, List.sum_append, List.map_cons, List.map_nil, List.sum_cons, List.sum_nil]
        rw [h1]; unfold schedSum; ring
      · intro s hs'
        simp only [List.mem_append, List.mem_singleton] at hs'
        rcases hs' with h' | rfl
        · exact h2 s h'
        · exact hq
      · simp only [List.map_append, List.map_cons, List.map_nil]
        rw [List.nodup_append]
        refine ⟨h3, by simp, ?_⟩
        intro a ha c hc
        simp only [List.mem_singleton] at hc
        subst hc
        intro e; subst e
        apply hs
        simp only [isScheduled, List.any_eq_true, beq_iff_eq]
        simp only [List.mem_map] at ha
        obtain ⟨s, hs1, hs2⟩ := ha
        exact ⟨s, hs1, hs2⟩
      · intro d hd
        simp only [Out.refused.injEq] at hd
        subst hd
        refine ⟨by rw [h1], ?_⟩
        simp only [schedSum, List.map_append, List.sum_append, List.map_cons, List.map_nil, List.sum_cons, List.sum_nil]
        rw [h1]; unfold schedSum; ring
    · exact ⟨hrec b h, fun d hd => by cases hd⟩

/-- **An abandoned waiter leaves the queue.** When the transfer's exception is set at a loop
test, the stream raises it (it does not sleep again) and its token is no longer scheduled — so
the waits of later requests do not include it. -/
theorem abandoned_raises (b : Bucket) (amt tok : Nat) (now : Rat) (rest : List (Rat × Bool)) :
    (streamLoop b amt tok ((now, true) :: rest)).2 = [.raisedTransferError] ∧
    isScheduled (streamLoop b amt tok ((now, true) :: rest)).1 tok = false := by
  simp only [streamLoop, if_true, true_and]
  unfold abandon
  by_cases hs : isScheduled b tok = true
  · simp only [hs, if_true]
    unfold unschedule isScheduled
    simp only [List.any_filter]
    rw [Bool.eq_false_iff]
    intro hh
    rw [List.any_eq_true] at hh
    obtain ⟨s, _, hs'⟩ := hh
    simp at hs'
  · simp only [hs, Bool.false_eq_true, if_false]

theorem qinv_abandon (b : Bucket) (tok : Nat) (h : QInv b) : QInv (abandon b tok) := by
  unfold abandon; split
  · exact qinv_unschedule b tok h
  · exact h

/-- A stream's wait loop: the transfer's error is raised at the first loop test at which it is
set, whatever happened before. -/
theorem stream_stops_on_error (b : Bucket) (amt tok : Nat) (evs : List (Rat × Bool)) :
    ∀ e ∈ (streamLoop b amt tok evs).2, e = .raisedTransferError →
      (streamLoop b amt tok evs).2.getLast? = some .raisedTransferError := by
  induction evs generalizing b with
  | nil => simp [streamLoop]
  | cons x rest ih =>
    obtain ⟨now, exc⟩ := x
    intro e he hr
    unfold streamLoop at he ⊢
    by_cases hx : exc = true
    · simp [hx]
    · simp only [hx, Bool.false_eq_true, if_false] at he ⊢
      cases hc : (consume b amt tok now).2 with
      | granted => simp only [hc] at he; simp at he; subst he; cases hr
      | refused d =>
        simp only [hc] at he ⊢
        simp only [List.mem_cons] at he
        rcases he with rfl | he
        · cases hr
        · have := ih _ e he hr
          rw [List.getLast?_cons_of_ne_nil (List.ne_nil_of_mem he)]
          exact this

/-! ### Window bounds (partial results towards the statement's interval bound)

The statement's `1.25·max·T + burst` is proved here for first-attempt traffic (`window_unsched`),
and for reads that had to wait the grants are shown to be no earlier than a FIFO server of rate
`max_rate` would finish them (`fifo_lower_bound`, `vf_ge_sum`) — under the assumption that a
refused stream retries no earlier than it was told, the wait told being the queue's total plus
its own (`wait_is_queue`).  The combination for mixed traffic is measured by the oracle. -/

/-- a run of consume calls every one of which is granted without having been scheduled
(traffic that the limiter admits on the first attempt) -/
def runUnsched (b : Bucket) : List (Nat × Nat × Rat) → Option Bucket
  | [] => some b
  | (amt, tok, now) :: rest =>
    if isScheduled b tok = false ∧ (consume b amt tok now).2 = .granted then runUnsched (consume b amt tok now).1 rest
    else none

theorem consume_unsched_granted (b : Bucket) (amt tok : Nat) (now : Rat) (hns : isScheduled b tok = false)
    (hg : (consume b amt tok now).2 = .granted) : (consume b amt tok now).1 = record b amt now := by
  unfold consume at hg ⊢
  simp only [hns, Bool.false_eq_true, if_false] at hg ⊢
  by_cases h : exceeds (projected b amt now) b.maxRate = true
  · simp [h] at hg
  · simp [h]

theorem record_last (b : Bucket) (amt : Nat) (now t0 : Rat) (hl : b.last = some t0) (ht : t0 < now) :
    (record b amt now).last = some now ∧ (record b amt now).maxRate = b.maxRate := by
  unfold record
  have hnd : ¬ (now - t0 ≤ 0) := by linarith
  simp [hl, hnd]

/-- **Window bound for first-attempt traffic.** Over any stretch of consecutive grants none of which
had to wait, the bytes granted after the clock reading `t0` of the previous grant are at most
`(1/α)·max·(t₁ − t0)` where `t₁` is the clock reading of the last of them — the statement's
`1.25 × max_bandwidth × T`, with no burst term at all. -/
theorem window_unsched (evs : List (Nat × Nat × Rat)) (b b' : Bucket) (t0 : Rat)
    (hlast : b.last = some t0) (hr : RateNonneg b) (hrun : runUnsched b evs = some b') :
    ∃ t1, b'.last = some t1 ∧ t0 ≤ t1 ∧
      (((evs.map (fun e => e.1)).sum : Nat) : Rat) ≤ (1 / alpha) * b.maxRate * (t1 - t0) := by
  induction evs generalizing b t0 with
  | nil =>
    simp only [runUnsched, Option.some.injEq] at hrun
    subst hrun
    exact ⟨t0, hlast, le_refl _, by simp⟩
  | cons e rest ih =>
    obtain ⟨amt, tok, now⟩ := e
    simp only [runUnsched] at hrun
    split at hrun
    · rename_i hg
      obtain ⟨hns, hgr⟩ := hg
      have hb := admit_bound b amt tok now t0 hlast hr hns hgr
      have heq := consume_unsched_granted b amt tok now hns hgr
      have hrl := record_last b amt now t0 hlast hb.1
      have hr1 : RateNonneg (consume b amt tok now).1 := rate_nonneg_consume b amt tok now hr
      have hl1 : (consume b amt tok now).1.last = some now := by rw [heq]; exact hrl.1
      have hm1 : (consume b amt tok now).1.maxRate = b.maxRate := by rw [heq]; exact hrl.2
      obtain ⟨t1, h1, h2, h3⟩ := ih (consume b amt tok now).1 now hl1 hr1 hrun
      refine ⟨t1, h1, by linarith [hb.1], ?_⟩
      rw [hm1] at h3
      simp only [List.map_cons, List.sum_cons, Nat.cast_add]
      have : (1 / alpha) * b.maxRate * (t1 - t0) = (1 / alpha) * b.maxRate * (now - t0) + (1 / alpha) * b.maxRate * (t1 - now) := by ring
      rw [this]
      linarith [hb.2]
    · cases hrun


/-! #### scheduled (refused, then retried) reads as a FIFO queue -/

/-- one read that the limiter refused: the clock reading of the refusal, the time the limit needs
for its amount (`amt / max_rate`), and the clock reading at which it was finally granted -/
structure Tok where
  r   : Rat
  ttc : Rat
  s   : Rat

/-- virtual finish time of the newest token in a FIFO server of rate `max_rate` (list newest first) -/
def vf : List Tok → Rat
  | [] => 0
  | [t] => t.r + t.ttc
  | t :: (u :: rest) => max t.r (vf (u :: rest)) + t.ttc

/-- the time the limit needs for the tokens that are still waiting at clock reading `r` -/
def waitingSum : List Tok → Rat → Rat
  | [], _ => 0
  | u :: rest, r => (if r < u.s then u.ttc else 0) + waitingSum rest r

def backlogSum : List Tok → Rat → Rat
  | [], _ => 0
  | u :: rest, r => (if r < vf (u :: rest) then u.ttc else 0) + backlogSum rest r

/-- the history is one the limiter can produce when every stream sleeps at least what it is told:
refusals in clock order, and each token is granted no earlier than its refusal plus the wait it
was told — the time for everything still waiting at that moment plus its own -/
def Valid : List Tok → Prop
  | [] => True
  | t :: older => Valid older ∧ 0 ≤ t.ttc ∧ (∀ u ∈ older, u.r ≤ t.r) ∧
      t.r + waitingSum older t.r + t.ttc ≤ t.s

def Ok : List Tok → Prop
  | [] => True
  | t :: older => vf (t :: older) ≤ t.s ∧ Ok older

theorem nonneg_of_valid : ∀ l, Valid l → ∀ u ∈ l, 0 ≤ u.ttc
  | [], _, u, hu => by cases hu
  | t :: older, h, u, hu => by
    simp only [Valid] at h
    rcases List.mem_cons.mp hu with rfl | hu
    · exact h.2.1
    · exact nonneg_of_valid older h.1 u hu

theorem backlogSum_nonneg (l : List Tok) (r : Rat) (hn : ∀ u ∈ l, 0 ≤ u.ttc) : 0 ≤ backlogSum l r := by
  induction l with
  | nil => simp [backlogSum]
  | cons u rest ih =>
    simp only [backlogSum]
    have h1 := hn u (by simp)
    have h2 := ih (fun x hx => hn x (by simp [hx]))
    split <;> linarith

/-- the FIFO server's backlog at `r` is at most the work of the tokens it has not finished -/
theorem backlog_le (l : List Tok) (r : Rat) (hne : l ≠ []) (hn : ∀ u ∈ l, 0 ≤ u.ttc) (hr : ∀ u ∈ l, u.r ≤ r) :
    vf l - r ≤ backlogSum l r := by
  induction l with
  | nil => exact absurd rfl hne
  | cons u rest ih =>
    have hu := hn u (by simp)
    have hru := hr u (by simp)
    cases rest with
    | nil =>
      simp only [backlogSum]
      have hvf : vf [u] = u.r + u.ttc := rfl
      by_cases h : r < vf [u]
      · rw [if_pos h]; rw [hvf]; linarith
      · rw [if_neg h]; linarith [not_lt.mp h]
    | cons v rest' =>
      have ih' := ih (by simp) (fun x hx => hn x (by simp [hx])) (fun x hx => hr x (by simp [hx]))
      have hbn := backlogSum_nonneg (v :: rest') r (fun x hx => hn x (by simp [hx]))
      simp only [backlogSum] at ih' hbn ⊢
      by_cases h : r < vf (u :: v :: rest')
      · rw [if_pos h]
        simp only [vf] at h ⊢
        rcases max_cases u.r (vf (v :: rest')) with ⟨hm, _⟩ | ⟨hm, _⟩
        · rw [hm]; linarith
        · rw [hm]; linarith
      · rw [if_neg h]
        have : vf (u :: v :: rest') ≤ r := not_lt.mp h
        linarith

theorem backlog_le_waiting (l : List Tok) (r : Rat) (hok : Ok l) (hn : ∀ u ∈ l, 0 ≤ u.ttc) :
    backlogSum l r ≤ waitingSum l r := by
  induction l with
  | nil => simp [backlogSum, waitingSum]
  | cons u rest ih =>
    simp only [Ok] at hok
    have ih' := ih hok.2 (fun x hx => hn x (by simp [hx]))
    have hu := hn u (by simp)
    simp only [backlogSum, waitingSum]
    by_cases h : r < vf (u :: rest)
    · have : r < u.s := lt_of_lt_of_le h hok.1
      rw [if_pos h, if_pos this]; linarith
    · rw [if_neg h]
      split <;> linarith

/-- **Scheduled reads are granted no earlier than a FIFO server of rate `max_rate` would finish
them**: in every history in which each refused read retries no earlier than it was told, every
token's grant time is at least its virtual finish time `max(refusal, previous finish) + amt/max`. -/
theorem fifo_lower_bound : ∀ l, Valid l → Ok l
  | [], _ => trivial
  | [t], h => by
    simp only [Valid, waitingSum] at h
    simp only [Ok, vf]
    exact ⟨by linarith [h.2.2.2], trivial⟩
  | t :: (u :: rest), h => by
    have hv : Valid (u :: rest) := h.1
    have ih := fifo_lower_bound (u :: rest) hv
    simp only [Valid] at h
    obtain ⟨_, ht, hord, hs⟩ := h
    have hn := nonneg_of_valid (u :: rest) hv
    have h1 := backlog_le (u :: rest) t.r (by simp) hn hord
    have h2 := backlog_le_waiting (u :: rest) t.r ih hn
    have h3 := backlogSum_nonneg (u :: rest) t.r hn
    refine ⟨?_, ih⟩
    simp only [vf]
    rcases max_cases t.r (vf (u :: rest)) with ⟨hm, _⟩ | ⟨hm, _⟩
    · rw [hm]; linarith
    · rw [hm]; linarith

/-- consequence: `k` scheduled reads of `amt` bytes each, refused from clock reading `r0` on, are not
all granted before `r0 + k·amt/max` — scheduled traffic moves at most `max_rate` on average -/
theorem vf_ge_sum : ∀ (l : List Tok), l ≠ [] → (∀ u ∈ l, 0 ≤ u.ttc) → ∀ r0, (∀ u ∈ l, r0 ≤ u.r) →
    r0 + (l.map (·.ttc)).sum ≤ vf l
  | [], h, _, _, _ => absurd rfl h
  | [t], _, _, r0, hr => by
    simp only [vf, List.map_cons, List.map_nil, List.sum_cons, List.sum_nil]
    have := hr t (by simp); linarith
  | t :: (u :: rest), _, hn, r0, hr => by
    have ih := vf_ge_sum (u :: rest) (by simp) (fun x hx => hn x (by simp [hx])) r0 (fun x hx => hr x (by simp [hx]))
    simp only [vf, List.map_cons, List.sum_cons] at ih ⊢
    have := le_max_right t.r (vf (u :: rest))
    linarith



/-- a step of `consume` never moves the tracker's clock reading backwards and keeps the limit -/
theorem consume_last_mono (b : Bucket) (amt tok : Nat) (now t0 : Rat) (hl : b.last = some t0) :
    ∃ t1, (consume b amt tok now).1.last = some t1 ∧ t0 ≤ t1 ∧ (consume b amt tok now).1.maxRate = b.maxRate := by
  unfold consume
  split
  · -- scheduled: record (unschedule ..)
    have hl' : (unschedule b tok).last = some t0 := by simp [unschedule, hl]
    unfold record
    simp only [hl']
    by_cases hd : now - t0 ≤ 0
    · simp only [hd, if_true]; exact ⟨t0, hl', le_refl _, by simp [unschedule]⟩
    · simp only [hd, if_false]; exact ⟨now, rfl, by linarith [not_le.mp hd], by simp [unschedule]⟩
  · split
    · exact ⟨t0, hl, le_refl _, rfl⟩
    · unfold record
      simp only [hl]
      by_cases hd : now - t0 ≤ 0
      · simp only [hd, if_true]; exact ⟨t0, hl, le_refl _, trivial⟩
      · simp only [hd, if_false]; exact ⟨now, rfl, by linarith [not_le.mp hd], trivial⟩

/-- bytes granted on first attempts (to reads that had not been told to wait) during a run -/
def firstBytes (b : Bucket) : List (Nat × Nat × Rat) → Nat
  | [] => 0
  | (amt, tok, now) :: rest =>
    (if isScheduled b tok = false ∧ (consume b amt tok now).2 = .granted then amt else 0)
      + firstBytes (consume b amt tok now).1 rest

/-- **First-attempt traffic keeps within the smoothing allowance whatever the waiting traffic does.**
In every run of consume calls — refusals, grants to reads that waited and first-attempt grants in
any interleaving, any clock readings — the bytes granted on first attempts are at most
`(1/α)·max·(t₁ − t₀)`, `t₀`/`t₁` the tracker's clock readings before and after the run. -/
theorem window_first_attempts (evs : List (Nat × Nat × Rat)) (b : Bucket) (t0 : Rat)
    (hlast : b.last = some t0) (hr : RateNonneg b) (hm : 0 ≤ b.maxRate) :
    ∃ t1, (runConsumes b evs).1.last = some t1 ∧ t0 ≤ t1 ∧
      ((firstBytes b evs : Nat) : Rat) ≤ (1 / alpha) * b.maxRate * (t1 - t0) := by
  induction evs generalizing b t0 with
  | nil => exact ⟨t0, by simpa [runConsumes] using hlast, le_refl _, by simp [firstBytes]⟩
  | cons e rest ih =>
    obtain ⟨amt, tok, now⟩ := e
    obtain ⟨tm, hl1, hle, hm1⟩ := consume_last_mono b amt tok now t0 hlast
    have hr1 : RateNonneg (consume b amt tok now).1 := rate_nonneg_consume b amt tok now hr
    obtain ⟨t1, h1, h2, h3⟩ := ih (consume b amt tok now).1 tm hl1 hr1 (by rw [hm1]; exact hm)
    rw [hm1] at h3
    refine ⟨t1, by simpa [runConsumes] using h1, le_trans hle h2, ?_⟩
    have ha : (0:Rat) < 1 / alpha := by rw [alpha_val]; norm_num
    simp only [firstBytes, Nat.cast_add]
    by_cases hg : isScheduled b tok = false ∧ (consume b amt tok now).2 = .granted
    · rw [if_pos hg]
      have hb := admit_bound b amt tok now t0 hlast hr hg.1 hg.2
      have heq := consume_unsched_granted b amt tok now hg.1 hg.2
      have hrl := record_last b amt now t0 hlast hb.1
      have : tm = now := by
        rw [heq, hrl.1] at hl1; exact (Option.some.inj hl1).symm
      subst this
      have : (1 / alpha) * b.maxRate * (t1 - t0) = (1 / alpha) * b.maxRate * (tm - t0) + (1 / alpha) * b.maxRate * (t1 - tm) := by ring
      rw [this]; linarith [hb.2]
    · rw [if_neg hg]
      have hmono : (1 / alpha) * b.maxRate * (t1 - tm) ≤ (1 / alpha) * b.maxRate * (t1 - t0) := by
        apply mul_le_mul_of_nonneg_left (by linarith)
        exact mul_nonneg (le_of_lt ha) hm
      simp only [Nat.cast_zero, zero_add]
      linarith


/-! #### the statement's `1.25·max·T + burst` is false for mixed traffic (finding D17) -/

/-- bytes granted during a run -/
def grantedBytes (b : Bucket) : List (Nat × Nat × Rat) → Nat
  | [] => 0
  | (amt, tok, now) :: rest =>
    (if (consume b amt tok now).2 = .granted then amt else 0) + grantedBytes (consume b amt tok now).1 rest

/-- limit 10 bytes/s; the tracker read `k` at the last grant, nothing waits -/
def steady (c k : Rat) : Bucket := { maxRate := 10, last := some k, rate := .fin c, sched := [], totalWait := 0 }

/-- one second of the mix: stream 1 (saturated, 10-byte reads) asks again right after its grant and
is told to wait 1 s; stream 2 (4-byte reads, one every second) is granted on its first attempt half
a second later; stream 1 comes back after exactly the wait it was told -/
def mixPeriod (k : Rat) : List (Nat × Nat × Rat) := [(10, 1, k), (4, 2, k + 1 / 2), (10, 1, k + 1)]

theorem mix_period (c k : Rat) (_h0 : 0 ≤ c) (h18 : c ≤ 18) :
    (runConsumes (steady c k) (mixPeriod k)).1 = steady (432 / 25 + c / 25) (k + 1) ∧
    grantedBytes (steady c k) (mixPeriod k) = 14 := by
  have e1 : consume (steady c k) 10 1 k =
      ({ maxRate := 10, last := some k, rate := .fin c, sched := [⟨1, 1, 1⟩], totalWait := 1 }, .refused 1) := by
    simp [consume, steady, isScheduled, projected, ema, newRate, exceeds]
  have e2 : consume { maxRate := 10, last := some k, rate := .fin c, sched := [⟨1, 1, 1⟩], totalWait := 1 } 4 2 (k + 1 / 2) =
      ({ maxRate := 10, last := some (k + 1 / 2), rate := .fin (32 / 5 + c / 5), sched := [⟨1, 1, 1⟩], totalWait := 1 }, .granted) := by
    have hx : ¬ ((10 : Rat) < 4 / 5 * (4 * 2) + (1 - 4 / 5) * c) := by norm_num; linarith
    have hv : (4 / 5 : Rat) * (4 * 2) + (1 - 4 / 5) * c = 32 / 5 + c / 5 := by ring
    have h2 : ¬ ((2 : Rat) ≤ 0) := by norm_num
    simp only [consume, isScheduled, projected, ema, newRate, exceeds, record, alpha_val]
    norm_num
    rw [if_neg (by linarith)]
    congr 3; ring
  have e3 : consume { maxRate := 10, last := some (k + 1 / 2), rate := .fin (32 / 5 + c / 5), sched := [⟨1, 1, 1⟩], totalWait := 1 } 10 1 (k + 1) =
      (steady (432 / 25 + c / 25) (k + 1), .granted) := by
    simp only [consume, isScheduled, unschedule, ttcOf, ema, newRate, record, alpha_val, steady]
    norm_num
    ring
  simp only [mixPeriod, runConsumes, grantedBytes, e1, e2, e3]
  simp

def mixRun : Nat → Rat → List (Nat × Nat × Rat)
  | 0, _ => []
  | n + 1, k => mixPeriod k ++ mixRun n (k + 1)

theorem runConsumes_append (b : Bucket) (l1 l2 : List (Nat × Nat × Rat)) :
    (runConsumes b (l1 ++ l2)).1 = (runConsumes (runConsumes b l1).1 l2).1 := by
  induction l1 generalizing b with
  | nil => simp [runConsumes]
  | cons e rest ih => obtain ⟨a, t, n⟩ := e; simp [runConsumes, ih]

theorem grantedBytes_append (b : Bucket) (l1 l2 : List (Nat × Nat × Rat)) :
    grantedBytes b (l1 ++ l2) = grantedBytes b l1 + grantedBytes (runConsumes b l1).1 l2 := by
  induction l1 generalizing b with
  | nil => simp [runConsumes, grantedBytes]
  | cons e rest ih => obtain ⟨a, t, n⟩ := e; simp [runConsumes, grantedBytes, ih, Nat.add_assoc]

theorem mix_run (n : Nat) (c k : Rat) (h0 : 0 ≤ c) (h18 : c ≤ 18) :
    (∃ c', 0 ≤ c' ∧ c' ≤ 18 ∧ (runConsumes (steady c k) (mixRun n k)).1 = steady c' (k + n)) ∧
    grantedBytes (steady c k) (mixRun n k) = 14 * n := by
  induction n generalizing c k with
  | zero => exact ⟨⟨c, h0, h18, by simp [mixRun, runConsumes]⟩, by simp [mixRun, grantedBytes]⟩
  | succ n ih =>
    obtain ⟨hp1, hp2⟩ := mix_period c k h0 h18
    obtain ⟨⟨c', hc0, hc18, hrun⟩, hg⟩ := ih (432 / 25 + c / 25) (k + 1) (by linarith) (by linarith)
    refine ⟨⟨c', hc0, hc18, ?_⟩, ?_⟩
    · simp only [mixRun, runConsumes_append, hp1, hrun]
      congr 1; push_cast; ring
    · simp only [mixRun, grantedBytes_append, hp1, hp2, hg]; ring

/-- every clock reading of the mix lies in `[k, k + n]` -/
theorem mix_run_times (n : Nat) (k : Rat) : ∀ e ∈ mixRun n k, k ≤ e.2.2 ∧ e.2.2 ≤ k + n := by
  induction n generalizing k with
  | zero => simp [mixRun]
  | succ n ih =>
    intro e he
    simp only [mixRun, List.mem_append] at he
    rcases he with he | he
    · simp only [mixPeriod, List.mem_cons, List.mem_nil_iff, or_false] at he
      rcases he with rfl | rfl | rfl <;> (push_cast; constructor <;> norm_num <;> linarith [(Nat.cast_nonneg n : (0:Rat) ≤ n)])
    · have := ih (k + 1) e he
      push_cast; constructor <;> linarith [this.1, this.2]

/-- **The interval bound of the statement does not hold for mixed traffic (D17).**  For every burst
allowance there is a history — one saturated stream with 10-byte reads that always sleeps exactly what it
is told, and one stream asking for 4 bytes once a second, limit 10 bytes/s — all of whose clock
readings lie in a window of length `T` and in which more than `(1/α)·max·T + burst` bytes are granted:
the waiting stream is served at `max` and the first-attempt stream adds `0.4·max` on top, 1.4·max for
as long as one likes.  (`window_first_attempts` and `fifo_lower_bound` bound the two kinds of traffic
separately; their sum, not `1.25·max·T`, is what the limiter guarantees.) -/
theorem smoothing_allowance_exceeded (burst : Rat) :
    ∃ (evs : List (Nat × Nat × Rat)) (T : Rat), 0 < T ∧ (∀ e ∈ evs, 0 ≤ e.2.2 ∧ e.2.2 ≤ T) ∧
      (1 / alpha) * (steady 0 0).maxRate * T + burst < (grantedBytes (steady 0 0) evs : Nat) := by
  obtain ⟨n, hn⟩ := exists_nat_gt (burst : Rat)
  refine ⟨mixRun (n + 1) 0, ((n + 1 : Nat) : Rat), by positivity, ?_, ?_⟩
  · intro e he
    have := mix_run_times (n + 1) 0 e he
    constructor <;> linarith [this.1, this.2]
  · rw [(mix_run (n + 1) 0 0 (le_refl _) (by norm_num)).2, alpha_val]
    simp only [steady]; push_cast
    linarith


/-- non-vacuity: the bound of `window_first_attempts` is met by a run that mixes all three outcomes
(a refusal, a first-attempt grant, a grant to the read that waited), and the first-attempt bytes are
what the witness of `smoothing_allowance_exceeded` adds on top of the waiting traffic -/
example : firstBytes (steady 0 0) (mixPeriod 0) = 4 ∧ grantedBytes (steady 0 0) (mixPeriod 0) = 14 ∧
    (steady 0 0).last = some 0 ∧ RateNonneg (steady 0 0) := by
  refine ⟨?_, (mix_period 0 0 (le_refl _) (by norm_num)).2, rfl, by simp [RateNonneg, steady]⟩
  decide +kernel


/-! #### waiting reads of disciplined streams are served no faster than `max_rate`

A *disciplined* run is what `BandwidthLimitedStream`s produce: clock readings do not go back, and a
stream that was refused asks again for the same amount no earlier than it was told.  For such runs the
service given to waiting reads (their amounts divided by the limit) never exceeds the elapsed time —
derived here for runs of the `Bucket` model itself, by an invariant that carries the virtual finish
times of a FIFO server of rate `max_rate` as ghost state. -/

/-- work of the scheduled requests that the virtual FIFO server has not finished at `τ` -/
def unfinished (l : List Sched) (vf : Nat → Rat) (τ : Rat) : Rat :=
  ((l.filter (fun s => decide (τ < vf s.token))).map (·.timeToConsume)).sum

theorem unfinished_nil (vf : Nat → Rat) (τ : Rat) : unfinished [] vf τ = 0 := rfl

theorem unfinished_append (l : List Sched) (x : Sched) (vf : Nat → Rat) (τ : Rat) :
    unfinished (l ++ [x]) vf τ = unfinished l vf τ + (if τ < vf x.token then x.timeToConsume else 0) := by
  unfold unfinished
  rw [List.filter_append, List.map_append, List.sum_append]
  by_cases h : τ < vf x.token
  · simp [List.filter, h]
  · simp [List.filter, h]

theorem unfinished_nonneg (l : List Sched) (vf : Nat → Rat) (τ : Rat) (hn : ∀ s ∈ l, 0 ≤ s.timeToConsume) :
    0 ≤ unfinished l vf τ := by
  unfold unfinished
  apply List.sum_nonneg
  intro x hx
  simp only [List.mem_map, List.mem_filter] at hx
  obtain ⟨s, ⟨hs, _⟩, rfl⟩ := hx
  exact hn s hs

theorem unfinished_le_sum (l : List Sched) (vf : Nat → Rat) (τ : Rat) (hn : ∀ s ∈ l, 0 ≤ s.timeToConsume) :
    unfinished l vf τ ≤ schedSum l := by
  induction l with
  | nil => simp [unfinished, schedSum]
  | cons s rest ih =>
    have h1 := hn s (by simp)
    have h2 := ih (fun x hx => hn x (by simp [hx]))
    unfold unfinished schedSum at *
    by_cases h : τ < vf s.token
    · simp only [List.filter, h, decide_true, List.map_cons, List.sum_cons]; linarith
    · simp only [List.filter, h, decide_false, List.map_cons, List.sum_cons]; linarith

/-- changing the ghost value of a token that is not scheduled changes nothing -/
theorem unfinished_update (l : List Sched) (vf : Nat → Rat) (tok : Nat) (v τ : Rat)
    (h : ∀ s ∈ l, s.token ≠ tok) : unfinished l (Function.update vf tok v) τ = unfinished l vf τ := by
  unfold unfinished
  congr 2
  apply List.filter_congr
  intro s hs
  simp [Function.update, h s hs]

/-- removing a request whose virtual finish lies at or before `τ` does not change the unfinished work at `τ` -/
theorem unfinished_remove (l : List Sched) (vf : Nat → Rat) (tok : Nat) (τ : Rat) (h : vf tok ≤ τ) :
    unfinished (l.filter (fun s => s.token != tok)) vf τ = unfinished l vf τ := by
  unfold unfinished
  rw [List.filter_filter]
  congr 2
  apply List.filter_congr
  intro s _
  by_cases hs : s.token = tok
  · subst hs; simp; exact h
  · simp [hs]



/-- ghost state next to the bucket: when each scheduled token may come back (`due`), its virtual finish
time in a FIFO server of rate `max_rate` (`vf`), that server's latest finish time `V`, all the work ever
scheduled `Wall` and the service already given to waiting reads `S` (both in seconds: bytes / max_rate) -/
structure DInv (m t0 : Rat) (b : Bucket) (due vf : Nat → Rat) (V Wall S t : Rat) : Prop where
  q : QInv b
  rate : b.maxRate = m
  acct : S + schedSum b.sched = Wall
  wall : Wall ≤ V - t0
  backlog : ∀ τ, t ≤ τ → V - τ ≤ unfinished b.sched vf τ
  early : ∀ s ∈ b.sched, vf s.token ≤ due s.token

/-- what the invariant is for: the service given to waiting reads never exceeds the elapsed time -/
theorem DInv.service_le (m t0 : Rat) (b : Bucket) (due vf : Nat → Rat) (V Wall S t : Rat)
    (h : DInv m t0 b due vf V Wall S t) : S ≤ t - t0 := by
  have h1 := h.backlog t (le_refl _)
  have h2 := unfinished_le_sum b.sched vf t h.q.nonneg
  have h3 := h.acct
  have h4 := h.wall
  linarith

theorem not_scheduled_ne (b : Bucket) (tok : Nat) (h : isScheduled b tok = false) : ∀ s ∈ b.sched, s.token ≠ tok := by
  intro s hs e
  have : isScheduled b tok = true := by
    simp only [isScheduled, List.any_eq_true, beq_iff_eq]
    exact ⟨s, hs, e⟩
  rw [h] at this; cases this



theorem record_sched (b : Bucket) (amt : Nat) (now : Rat) :
    (record b amt now).sched = b.sched ∧ (record b amt now).maxRate = b.maxRate := by
  unfold record
  split
  · exact ⟨rfl, rfl⟩
  · split <;> exact ⟨rfl, rfl⟩

/-- a read that waited comes back (no earlier than told, same amount) and is granted -/
theorem dinv_waited (m t0 : Rat) (b : Bucket) (due vf : Nat → Rat) (V Wall S t : Rat) (amt tok : Nat) (now : Rat)
    (hm : 0 < m) (h : DInv m t0 b due vf V Wall S t) (ht : t ≤ now) (hs : isScheduled b tok = true)
    (hdue : due tok ≤ now) (hamt : (amt : Rat) / m = ttcOf b tok) :
    DInv m t0 (consume b amt tok now).1 due vf V Wall (S + (amt : Rat) / m) now := by
  have hq := (wait_is_queue b amt tok now (by rw [h.rate]; exact hm) h.q).1
  have hc : (consume b amt tok now).1 = record (unschedule b tok) amt now := by
    unfold consume; simp [hs]
  have hsched : (consume b amt tok now).1.sched = b.sched.filter (fun s => s.token != tok) := by
    rw [hc, (record_sched _ _ _).1]; rfl
  have hrate : (consume b amt tok now).1.maxRate = m := by
    rw [hc, (record_sched _ _ _).2]; exact h.rate
  have hsum := schedSum_filter b.sched tok h.q.nodup
  -- the entry of `tok`
  have hent : ∃ s ∈ b.sched, s.token = tok := by
    simp only [isScheduled, List.any_eq_true, beq_iff_eq] at hs
    exact hs
  obtain ⟨s0, hs0, hs0t⟩ := hent
  have hvf : vf tok ≤ now := by
    have := h.early s0 hs0
    rw [hs0t] at this
    linarith
  refine ⟨hq, hrate, ?_, h.wall, ?_, ?_⟩
  · have hsum' : schedSum (b.sched.filter (fun s => s.token != tok)) = schedSum b.sched - ttcOf b tok := by
      unfold ttcOf; exact hsum
    rw [hsched, hsum', ← hamt]
    have hacc := h.acct
    linarith
  · intro τ hτ
    rw [hsched, unfinished_remove b.sched vf tok τ (by linarith)]
    exact h.backlog τ (by linarith)
  · intro s hs'
    rw [hsched] at hs'
    exact h.early s (List.mem_of_mem_filter hs')

/-- a first-attempt grant changes nothing in the queue -/
theorem dinv_first (m t0 : Rat) (b : Bucket) (due vf : Nat → Rat) (V Wall S t : Rat) (amt tok : Nat) (now : Rat)
    (hm : 0 < m) (h : DInv m t0 b due vf V Wall S t) (ht : t ≤ now) (hs : isScheduled b tok = false)
    (hg : (consume b amt tok now).2 = .granted) :
    DInv m t0 (consume b amt tok now).1 due vf V Wall S now := by
  have hq := (wait_is_queue b amt tok now (by rw [h.rate]; exact hm) h.q).1
  have hc := consume_unsched_granted b amt tok now hs hg
  have hsched : (consume b amt tok now).1.sched = b.sched := by rw [hc, (record_sched _ _ _).1]
  have hrate : (consume b amt tok now).1.maxRate = m := by rw [hc, (record_sched _ _ _).2]; exact h.rate
  refine ⟨hq, hrate, by rw [hsched]; exact h.acct, h.wall, ?_, by rw [hsched]; exact h.early⟩
  intro τ hτ
  rw [hsched]
  exact h.backlog τ (by linarith)

/-- a refusal: the request joins the queue; the wait it is told is at least what the FIFO server needs -/
theorem dinv_refused (m t0 : Rat) (b : Bucket) (due vf : Nat → Rat) (V Wall S t : Rat) (amt tok : Nat) (now w : Rat)
    (hm : 0 < m) (h : DInv m t0 b due vf V Wall S t) (ht : t ≤ now) (hs : isScheduled b tok = false)
    (hr : (consume b amt tok now).2 = .refused w) :
    DInv m t0 (consume b amt tok now).1 (Function.update due tok (now + w))
      (Function.update vf tok (max V now + (amt : Rat) / m)) (max V now + (amt : Rat) / m) (Wall + (amt : Rat) / m) S now := by
  have hwq := wait_is_queue b amt tok now (by rw [h.rate]; exact hm) h.q
  have hq := hwq.1
  have hw := (hwq.2 w hr).1
  rw [h.rate] at hw
  have hexc : exceeds (projected b amt now) b.maxRate = true := by
    unfold consume at hr
    simp only [hs, Bool.false_eq_true, if_false] at hr
    by_cases hx : exceeds (projected b amt now) b.maxRate = true
    · exact hx
    · simp [hx] at hr
  have hsched : (consume b amt tok now).1.sched = b.sched ++ [{ token := tok, waitDuration := b.totalWait + (amt : Rat) / b.maxRate, timeToConsume := (amt : Rat) / m }] := by
    have hexc' : exceeds (projected b amt now) m = true := by rw [← h.rate]; exact hexc
    unfold consume
    simp [hs, hexc', h.rate]
  have hrate0 : (consume b amt tok now).1.maxRate = b.maxRate := by
    unfold consume
    simp [hs, hexc]
  have hrate : (consume b amt tok now).1.maxRate = m := by rw [hrate0]; exact h.rate
  have hne := not_scheduled_ne b tok hs
  have ha : 0 ≤ (amt : Rat) / m := by positivity
  have hU0 : ∀ τ, 0 ≤ unfinished b.sched vf τ := fun τ => unfinished_nonneg b.sched vf τ h.q.nonneg
  have hS0 : 0 ≤ schedSum b.sched := schedSum_nonneg _ h.q.nonneg
  refine ⟨hq, hrate, ?_, ?_, ?_, ?_⟩
  · rw [hsched]
    simp only [schedSum, List.map_append, List.sum_append, List.map_cons, List.map_nil, List.sum_cons, List.sum_nil]
    have := h.acct
    unfold schedSum at this
    linarith
  · have := h.wall
    have := le_max_left V now
    linarith
  · intro τ hτ
    rw [hsched, unfinished_append, unfinished_update b.sched vf tok _ τ hne]
    simp only [Function.update_self]
    by_cases hlt : τ < max V now + (amt : Rat) / m
    · rw [if_pos hlt]
      rcases le_total now V with hv | hv
      · rw [max_eq_left hv]
        have := h.backlog τ (by linarith)
        linarith
      · rw [max_eq_right hv]
        have := hU0 τ
        linarith
    · rw [if_neg hlt]
      have := hU0 τ
      linarith [not_lt.mp hlt]
  · intro s hs'
    rw [hsched] at hs'
    rcases List.mem_append.mp hs' with hs'' | hs''
    · have hn := hne s hs''
      simp only [Function.update_of_ne hn]
      exact h.early s hs''
    · simp only [List.mem_singleton] at hs''
      subst hs''
      simp only [Function.update_self]
      have hb := h.backlog now ht
      have hU := unfinished_le_sum b.sched vf now h.q.nonneg
      rw [hw]
      rcases le_total now V with hv | hv
      · rw [max_eq_left hv]; linarith
      · rw [max_eq_right hv]; linarith



/-- a run as `BandwidthLimitedStream`s produce it: clock readings do not go back; a token that is scheduled
comes back no earlier than it was told (`due`) and asks for the amount it was refused -/
def Disc (m : Rat) : Bucket → (Nat → Rat) → Rat → List (Nat × Nat × Rat) → Prop
  | _, _, _, [] => True
  | b, due, t, (amt, tok, now) :: rest =>
    t ≤ now ∧
    (if isScheduled b tok = true then
       due tok ≤ now ∧ (amt : Rat) / m = ttcOf b tok ∧ Disc m (consume b amt tok now).1 due now rest
     else
       match (consume b amt tok now).2 with
       | .granted => Disc m (consume b amt tok now).1 due now rest
       | .refused w => Disc m (consume b amt tok now).1 (Function.update due tok (now + w)) now rest)

/-- bytes granted to reads that had been told to wait -/
def waitedBytes (b : Bucket) : List (Nat × Nat × Rat) → Nat
  | [] => 0
  | (amt, tok, now) :: rest =>
    (if isScheduled b tok = true then amt else 0) + waitedBytes (consume b amt tok now).1 rest

def lastTime (t : Rat) : List (Nat × Nat × Rat) → Rat
  | [] => t
  | (_, _, now) :: rest => lastTime now rest

theorem disc_run (m t0 : Rat) (hm : 0 < m) (evs : List (Nat × Nat × Rat)) :
    ∀ (b : Bucket) (due vf : Nat → Rat) (V Wall S t : Rat),
      DInv m t0 b due vf V Wall S t → Disc m b due t evs →
      S + ((waitedBytes b evs : Nat) : Rat) / m ≤ lastTime t evs - t0 := by
  induction evs with
  | nil =>
    intro b due vf V Wall S t h _
    simpa [waitedBytes, lastTime] using h.service_le
  | cons e rest ih =>
    obtain ⟨amt, tok, now⟩ := e
    intro b due vf V Wall S t h hd
    simp only [Disc] at hd
    obtain ⟨ht, hd⟩ := hd
    simp only [waitedBytes, lastTime]
    by_cases hs : isScheduled b tok = true
    · simp only [hs, if_true] at hd ⊢
      obtain ⟨hdue, hamt, hrest⟩ := hd
      have h' := dinv_waited m t0 b due vf V Wall S t amt tok now hm h ht hs hdue hamt
      have := ih _ _ _ _ _ _ _ h' hrest
      push_cast
      have e : ((amt : Rat) + ((waitedBytes (consume b amt tok now).1 rest : Nat) : Rat)) / m
          = (amt : Rat) / m + ((waitedBytes (consume b amt tok now).1 rest : Nat) : Rat) / m := by ring
      rw [e]; linarith
    · have hs' : isScheduled b tok = false := by simpa using hs
      simp only [hs', Bool.false_eq_true, if_false, Nat.zero_add] at hd ⊢
      cases hr : (consume b amt tok now).2 with
      | granted =>
        rw [hr] at hd
        exact ih _ _ _ _ _ _ _ (dinv_first m t0 b due vf V Wall S t amt tok now hm h ht hs' hr) hd
      | refused w =>
        rw [hr] at hd
        exact ih _ _ _ _ _ _ _ (dinv_refused m t0 b due vf V Wall S t amt tok now w hm h ht hs' hr) hd

/-- **Waiting reads are served no faster than `max_rate`, for runs of the bucket itself.**  Start with an
empty queue at clock reading `t0`; let the streams be disciplined (`Disc`).  Then the bytes granted to
reads that had to wait are at most `max_rate × (t₁ − t₀)`, `t₁` the last clock reading — together with
`window_first_attempts` this is what the limiter guarantees: `(1 + 1/α)·max·T` for all traffic, not the
statement's `1.25·max·T` (D17). -/
theorem waited_bytes_le (b : Bucket) (due : Nat → Rat) (t0 : Rat) (evs : List (Nat × Nat × Rat))
    (hm : 0 < b.maxRate) (hempty : b.sched = []) (hw : b.totalWait = 0) (hd : Disc b.maxRate b due t0 evs) :
    ((waitedBytes b evs : Nat) : Rat) ≤ b.maxRate * (lastTime t0 evs - t0) := by
  have h0 : DInv b.maxRate t0 b due (fun _ => t0) t0 0 0 t0 := by
    have hq : QInv b := by
      refine ⟨?_, ?_, ?_⟩
      · rw [hw, hempty]; rfl
      · rw [hempty]; intro s hs; cases hs
      · rw [hempty]; exact List.nodup_nil
    refine ⟨hq, rfl, ?_, by simp, ?_, ?_⟩
    · rw [hempty]; simp [schedSum]
    · intro τ hτ; rw [hempty, unfinished_nil]; linarith
    · rw [hempty]; intro s hs; cases hs
  have := disc_run b.maxRate t0 hm evs b due (fun _ => t0) t0 0 0 t0 h0 hd
  rw [zero_add, div_le_iff₀ hm] at this
  linarith



theorem granted_split (b : Bucket) (evs : List (Nat × Nat × Rat)) :
    grantedBytes b evs = firstBytes b evs + waitedBytes b evs := by
  induction evs generalizing b with
  | nil => rfl
  | cons e rest ih =>
    obtain ⟨amt, tok, now⟩ := e
    simp only [grantedBytes, firstBytes, waitedBytes, ih]
    by_cases hs : isScheduled b tok = true
    · have := (one_wait b amt tok now hs).1
      simp [hs, this]; omega
    · have hs' : isScheduled b tok = false := by simpa using hs
      by_cases hg : (consume b amt tok now).2 = .granted
      · simp [hs', hg]; omega
      · simp [hs', hg]

/-- **What the limiter does guarantee for all traffic together**: in a disciplined run that starts with an
empty queue, the bytes granted are at most `(1/α)·max·(t₁ − t₀)` (first attempts, `t₁` the tracker's last
reading) plus `max·(t_end − t₀)` (reads that waited): the sum of the two allowances. -/
theorem total_bytes_le (b : Bucket) (due : Nat → Rat) (t0 : Rat) (evs : List (Nat × Nat × Rat))
    (hm : 0 < b.maxRate) (hempty : b.sched = []) (hw : b.totalWait = 0) (hlast : b.last = some t0) (hr : RateNonneg b)
    (hd : Disc b.maxRate b due t0 evs) :
    ∃ t1, (runConsumes b evs).1.last = some t1 ∧
      ((grantedBytes b evs : Nat) : Rat) ≤ (1 / alpha) * b.maxRate * (t1 - t0) + b.maxRate * (lastTime t0 evs - t0) := by
  obtain ⟨t1, h1, _, h3⟩ := window_first_attempts evs b t0 hlast hr (le_of_lt hm)
  refine ⟨t1, h1, ?_⟩
  have h4 := waited_bytes_le b due t0 evs hm hempty hw hd
  rw [granted_split]
  push_cast
  linarith

/-- non-vacuity: the period of the D17 witness is a disciplined run (stream 1 comes back exactly when told),
its waited read is the 10-byte one -/
example : waitedBytes (steady 0 0) (mixPeriod 0) = 10 := by decide +kernel

/-- an executable check of `Disc` (for the examples) -/
def discB (m : Rat) : Bucket → (Nat → Rat) → Rat → List (Nat × Nat × Rat) → Bool
  | _, _, _, [] => true
  | b, due, t, (amt, tok, now) :: rest =>
    decide (t ≤ now) &&
    (if isScheduled b tok = true then
       decide (due tok ≤ now) && decide ((amt : Rat) / m = ttcOf b tok) && discB m (consume b amt tok now).1 due now rest
     else
       match (consume b amt tok now).2 with
       | .granted => discB m (consume b amt tok now).1 due now rest
       | .refused w => discB m (consume b amt tok now).1 (Function.update due tok (now + w)) now rest)

theorem discB_sound (m : Rat) (evs : List (Nat × Nat × Rat)) :
    ∀ (b : Bucket) (due : Nat → Rat) (t : Rat), discB m b due t evs = true → Disc m b due t evs := by
  induction evs with
  | nil => intro b due t _; trivial
  | cons e rest ih =>
    obtain ⟨amt, tok, now⟩ := e
    intro b due t h
    simp only [discB, Bool.and_eq_true, decide_eq_true_eq] at h
    simp only [Disc]
    refine ⟨h.1, ?_⟩
    have h2 := h.2
    by_cases hs : isScheduled b tok = true
    · simp only [hs, if_true, Bool.and_eq_true, decide_eq_true_eq] at h2 ⊢
      exact ⟨h2.1.1, h2.1.2, ih _ _ _ h2.2⟩
    · simp only [hs, if_false] at h2 ⊢
      cases hr : (consume b amt tok now).2 with
      | granted => rw [hr] at h2; exact ih _ _ _ h2
      | refused w => rw [hr] at h2; exact ih _ _ _ h2

example : Disc 10 (steady 0 0) (fun _ => 0) 0 (mixPeriod 0) :=
  discB_sound 10 _ _ _ _ (by decide +kernel)


end S3V.C13
