/-
C12 — semaphores: sliding-window semantics and permit conservation.
Quantifiers: every capacity, every finite sequence of acquire/release operations over any
number of tags (unbounded), every interleaving of blocking acquirers with releasers.
-/
import S3V.Lemmas.Sema
import S3V.Props.Serial

namespace S3V.C12
open S3V.Sema

def nextOf (s : Sws) (t : Nat) : Nat := match lookup s.tags t with | none => 0 | some ts => ts.next
def lowestOf (s : Sws) (t : Nat) : Nat := match lookup s.tags t with | none => 0 | some ts => ts.lowest

/-- **Capacity equation.** After any operation sequence from a fresh semaphore of capacity
`cap`, free capacity = `cap` − Σ_tags (newest+1 − lowest unreleased). -/
theorem capacity_eq (cap : Nat) (ops : List Op) :
    (run (Sws.init cap) ops).count + width (run (Sws.init cap) ops).tags = cap :=
  (run_inv cap _ ops (init_inv cap)).cap_eq

/-- `lowest` really is the lowest unreleased token: every token in `[lowest,next)` that was
released out of order is recorded in `pending`, the lowest itself is not, so it is outstanding
whenever the window is non-empty. -/
theorem lowest_is_outstanding (cap : Nat) (ops : List Op) (t : Nat) (ts : TagSt)
    (h : lookup (run (Sws.init cap) ops).tags t = some ts) (hne : ts.lowest < ts.next) :
    ts.lowest ∈ outstanding ts := by
  have hi := (run_inv cap _ ops (init_inv cap)).tagsInv t ts h
  unfold outstanding
  simp only [List.mem_filter, List.mem_range', decide_eq_true_eq]
  refine ⟨⟨0, by omega, by simp⟩, ?_⟩
  intro hp
  have := (hi.inside _ hp).1
  omega

/-- **Tokens are 0,1,2,… per tag in acquisition order**: a successful acquire returns the
tag's counter and advances it by one … -/
theorem acquire_token (s : Sws) (t n : Nat) (h : (acquire s t).2 = .token n) :
    n = nextOf s t ∧ nextOf (acquire s t).1 t = n + 1 := by
  unfold acquire at h ⊢
  by_cases hc : s.count = 0
  · simp [hc] at h
  · simp only [hc, if_false] at h ⊢
    unfold nextOf
    cases hl : lookup s.tags t with
    | none =>
      simp only [hl] at h ⊢
      simp only [Out.token.injEq] at h
      simp [lookup_update_same, h.symm]
    | some ts =>
      simp only [hl] at h ⊢
      simp only [Out.token.injEq] at h
      simp [lookup_update_same, h]

/-- … and nothing else moves a tag's counter: not a release, not an acquire of another tag,
not a refused acquire. -/
theorem next_only_moves_on_own_acquire (s : Sws) (o : Op) (t : Nat)
    (h : ∀ n, ¬ (o = .acquire t ∧ (step s o).2 = .token n)) :
    nextOf (step s o).1 t = nextOf s t := by
  cases o with
  | acquire u =>
    simp only [step]
    by_cases hut : u = t
    · subst hut
      simp only [step] at h
      unfold acquire at h ⊢
      by_cases hc : s.count = 0
      · simp [hc]
      · exfalso
        simp only [hc, if_false] at h
        cases hl : lookup s.tags u with
        | none => simp [hl] at h
        | some ts => simp [hl] at h
    · unfold acquire
      by_cases hc : s.count = 0
      · simp [hc]
      · simp only [hc, if_false]
        unfold nextOf
        cases hl : lookup s.tags u with
        | none => simp only; rw [lookup_update_other _ _ _ _ (Ne.symm hut)]
        | some ts => simp only; rw [lookup_update_other _ _ _ _ (Ne.symm hut)]
  | release u k =>
    simp only [step]
    unfold release nextOf
    cases hl : lookup s.tags u with
    | none => simp
    | some ts =>
      simp only
      by_cases hut : u = t
      · subst hut
        by_cases h1 : k = ts.lowest ∧ k < ts.next
        · rw [if_pos h1]; simp [lookup_update_same, hl]
        · rw [if_neg h1]
          by_cases h2 : ts.lowest < k ∧ k < ts.next ∧ k ∉ ts.pending
          · rw [if_pos h2]; simp [lookup_update_same, hl]
          · rw [if_neg h2]
      · by_cases h1 : k = ts.lowest ∧ k < ts.next
        · rw [if_pos h1]; simp only; rw [lookup_update_other _ _ _ _ (Ne.symm hut)]
        · rw [if_neg h1]
          by_cases h2 : ts.lowest < k ∧ k < ts.next ∧ k ∉ ts.pending
          · rw [if_pos h2]; simp only; rw [lookup_update_other _ _ _ _ (Ne.symm hut)]
          · rw [if_neg h2]

/-- **A non-blocking acquire at zero capacity raises and changes nothing.** -/
theorem nonblocking_raises_unchanged (s : Sws) (t : Nat) (h : s.count = 0) :
    acquire s t = (s, .noResources) := by
  simp [acquire, h]

/-- … and with free capacity it never raises. -/
theorem acquire_succeeds (s : Sws) (t : Nat) (h : 0 < s.count) :
    ∃ n, (acquire s t).2 = .token n ∧ (acquire s t).1.count = s.count - 1 := by
  unfold acquire
  have : ¬ s.count = 0 := by omega
  simp only [this, if_false]
  cases lookup s.tags t <;> simp

/-- **Exactly the outstanding tokens can be released**: in every reachable state `release` is
accepted iff the tag is known and the token is issued (`< next`), not below the window
(`≥ lowest`) and not already released out of order. -/
theorem release_accepts_iff (cap : Nat) (ops : List Op) (t k : Nat) :
    let s := run (Sws.init cap) ops
    (release s t k).2 = .ok ↔
      ∃ ts, lookup s.tags t = some ts ∧ ts.lowest ≤ k ∧ k < ts.next ∧ k ∉ ts.pending := by
  intro s
  have hinv := run_inv cap _ ops (init_inv cap)
  unfold release
  cases hl : lookup s.tags t with
  | none => simp
  | some ts =>
    have hts := hinv.tagsInv t ts hl
    simp only
    by_cases h1 : k = ts.lowest ∧ k < ts.next
    · rw [if_pos h1]
      refine ⟨fun _ => ⟨ts, rfl, by omega, h1.2, ?_⟩, fun _ => rfl⟩
      intro hp
      have := (hts.inside k hp).1
      omega
    · rw [if_neg h1]
      by_cases h2 : ts.lowest < k ∧ k < ts.next ∧ k ∉ ts.pending
      · rw [if_pos h2]
        exact ⟨fun _ => ⟨ts, rfl, by omega, h2.2.1, h2.2.2⟩, fun _ => rfl⟩
      · rw [if_neg h2]
        constructor
        · intro h; cases h
        · rintro ⟨ts', e, a, b, c⟩
          cases e
          exfalso
          have : k ≠ ts.lowest := fun e => h1 ⟨e, b⟩
          exact h2 ⟨by omega, b, c⟩

/-- **A rejected release (unknown tag, never-issued token, token already released) changes
nothing** — in any state. -/
theorem reject_unchanged (s : Sws) (t k : Nat) (h : (release s t k).2 ≠ .ok) :
    (release s t k).1 = s := by
  unfold release at h ⊢
  cases hl : lookup s.tags t with
  | none => rfl
  | some ts =>
    simp only [hl] at h ⊢
    by_cases h1 : k = ts.lowest ∧ k < ts.next
    · rw [if_pos h1] at h; exact absurd rfl h
    · rw [if_neg h1] at h ⊢
      by_cases h2 : ts.lowest < k ∧ k < ts.next ∧ k ∉ ts.pending
      · rw [if_pos h2] at h; exact absurd rfl h
      · rw [if_neg h2]

/-- The only outcomes of a release are `ok` and the `ValueError`. -/
theorem release_outcomes (s : Sws) (t k : Nat) :
    (release s t k).2 = .ok ∨ (release s t k).2 = .valueError := by
  unfold release
  cases lookup s.tags t with
  | none => right; rfl
  | some ts =>
    simp only
    by_cases h1 : k = ts.lowest ∧ k < ts.next
    · rw [if_pos h1]; left; rfl
    · rw [if_neg h1]
      by_cases h2 : ts.lowest < k ∧ k < ts.next ∧ k ∉ ts.pending
      · rw [if_pos h2]; left; rfl
      · rw [if_neg h2]; right; rfl

/-- **Releasing out of order frees nothing**: an accepted release of a token that is not the
lowest leaves the free capacity (and the window) unchanged … -/
theorem out_of_order_release_keeps_count (s : Sws) (t k : Nat) (ts : TagSt)
    (hl : lookup s.tags t = some ts) (hk : k ≠ ts.lowest) :
    (release s t k).1.count = s.count ∧ lowestOf (release s t k).1 t = ts.lowest := by
  unfold release lowestOf
  simp only [hl]
  have h1 : ¬ (k = ts.lowest ∧ k < ts.next) := fun h => hk h.1
  rw [if_neg h1]
  by_cases h2 : ts.lowest < k ∧ k < ts.next ∧ k ∉ ts.pending
  · rw [if_pos h2]; simp [lookup_update_same]
  · rw [if_neg h2]; simp [hl]

/-- … and releasing the lowest frees exactly as many permits as the window slides: one for the
token itself plus one for every contiguous token already released, and the new lowest is not
pending (so it is the lowest unreleased token). -/
theorem lowest_release_slides (cap : Nat) (ops : List Op) (t : Nat) (ts : TagSt)
    (hl : lookup (run (Sws.init cap) ops).tags t = some ts) (hne : ts.lowest < ts.next) :
    let s := run (Sws.init cap) ops
    let s' := (release s t ts.lowest).1
    ∃ ts', lookup s'.tags t = some ts' ∧ ts.lowest < ts'.lowest ∧ ts'.lowest ≤ ts.next ∧
      s'.count = s.count + (ts'.lowest - ts.lowest) ∧
      (∀ j, ts.lowest < j → j < ts'.lowest → j ∈ ts.pending) ∧ ts'.lowest ∉ ts.pending := by
  intro s s'
  have hinv := run_inv cap _ ops (init_inv cap)
  have hts := hinv.tagsInv t ts hl
  have hd := drain_spec ts.pending.length (ts.lowest + 1) ts.next ts.pending (Nat.le_refl _)
    (by omega) (fun p hp => by have := hts.inside p hp; omega) hts.nodup
  simp only at hd
  obtain ⟨d1, d2, d3, d4, d5, d6, d7⟩ := hd
  have e : s' = (release s t ts.lowest).1 := rfl
  unfold release at e
  simp only [show lookup s.tags t = some ts from hl] at e
  rw [if_pos ⟨trivial, hne⟩] at e
  refine ⟨_, by rw [e]; exact lookup_update_same _ _ _, ?_, ?_, ?_, ?_, ?_⟩
  · simp only; omega
  · exact d2
  · rw [e]; simp only; omega
  · -- every token strictly between the old and new lowest was pending: by the drain recursion
    intro j hj1 hj2
    simp only at hj2
    -- j is not in the remaining pending (those are > new lowest) — need: j ∈ pending
    -- count argument via membership: prove by a direct induction lemma
    exact drain_between ts.pending.length (ts.lowest + 1) ts.pending j (by omega) hj2
  · intro hp
    -- new lowest pending in the old list but not in the drained remainder ⇒ it was drained ⇒ < new lowest
    exact drain_stop ts.pending.length (ts.lowest + 1) ts.pending (Nat.le_refl _) hp

/-- **Manager restored / quiescence**: once every issued token has been released
(every window is empty) the semaphore is back at full capacity. -/
theorem all_released_full (cap : Nat) (ops : List Op)
    (h : ∀ t ts, lookup (run (Sws.init cap) ops).tags t = some ts → ts.lowest = ts.next) :
    (run (Sws.init cap) ops).count = cap := by
  have hc := capacity_eq cap ops
  have hw : ∀ tags : List (Nat × TagSt), (∀ p ∈ tags, p.2.lowest = p.2.next) → width tags = 0 := by
    intro tags
    induction tags with
    | nil => intro _; rfl
    | cons hd tl ih =>
      intro hall
      obtain ⟨k, ts⟩ := hd
      simp only [width]
      have h1 := hall (k, ts) (by simp)
      have h2 := ih (fun p hp => hall p (by simp [hp]))
      simp only at h1
      omega
  -- every entry of the association list is found by lookup under its key (first occurrence);
  -- use the capacity equation with the window widths bounded by outstanding tokens
  have := hw (run (Sws.init cap) ops).tags (by
    intro p hp
    have hk := (run_inv cap _ ops (init_inv cap)).keys
    exact h p.1 p.2 (lookup_of_mem _ hk p hp))
  omega

/-! ### blocking acquirers: no lost wake-up -/

/-- Invariant of the blocking model: if somebody is waiting and no wake-up is in flight, some
token is still outstanding (so a release that will notify is still to come). -/
def BInv (cap : Nat) (b : BState) : Prop :=
  Inv cap b.sws ∧ (b.waiting ≠ [] → b.notified ≠ [] ∨ 0 < width b.sws.tags)

theorem binv_init (cap : Nat) : BInv cap (BState.init cap) :=
  ⟨init_inv cap, by simp [BState.init]⟩

theorem binv_step (cap : Nat) (hcap : 0 < cap) (b b' : BState) (l : BLabel) (o : Out)
    (h : BInv cap b) (hs : bstep b l = some (b', o)) : BInv cap b' := by
  obtain ⟨hi, hw⟩ := h
  cases l with
  | acquire th t =>
    simp only [bstep] at hs
    by_cases hc : b.sws.count = 0
    · rw [if_pos hc] at hs
      cases hs
      refine ⟨hi, fun _ => Or.inr ?_⟩
      have := hi.cap_eq; simp only; omega
    · rw [if_neg hc] at hs
      cases hs
      have hi' := acquire_inv cap b.sws t hi
      refine ⟨hi', fun _ => Or.inr ?_⟩
      obtain ⟨n, _, hn⟩ := acquire_succeeds b.sws t (by omega)
      have := hi'.cap_eq; have := hi.cap_eq
      simp only; omega
  | release t k =>
    simp only [bstep] at hs
    have hi' := release_inv cap b.sws t k hi
    by_cases hg : (release b.sws t k).1.count > b.sws.count
    · rw [if_pos hg] at hs
      cases hwt : b.waiting with
      | nil =>
        rw [hwt] at hs
        cases hs
        exact ⟨hi', fun hne => absurd rfl hne⟩
      | cons w ws =>
        rw [hwt] at hs
        cases hs
        exact ⟨hi', fun _ => Or.inl (by simp)⟩
    · rw [if_neg hg] at hs
      cases hs
      refine ⟨hi', fun hne => ?_⟩
      rcases hw hne with h1 | h1
      · exact Or.inl h1
      · right
        have := hi'.cap_eq; have := hi.cap_eq
        simp only at *; omega
  | wake th t =>
    simp only [bstep] at hs
    by_cases hm : (th, t) ∈ b.notified
    · rw [if_pos hm] at hs
      by_cases hc : b.sws.count = 0
      · simp only [hc, if_true] at hs
        cases hs
        refine ⟨hi, fun _ => Or.inr ?_⟩
        have := hi.cap_eq; simp only; omega
      · simp only [hc, if_false] at hs
        cases hs
        have hi' := acquire_inv cap b.sws t hi
        refine ⟨hi', fun _ => Or.inr ?_⟩
        obtain ⟨n, _, hn⟩ := acquire_succeeds b.sws t (by omega)
        have := hi'.cap_eq; have := hi.cap_eq
        simp only; omega
    · rw [if_neg hm] at hs; cases hs

theorem binv_run (cap : Nat) (hcap : 0 < cap) (b b' : BState) (ls : List BLabel)
    (h : BInv cap b) (hr : brun b ls = some b') : BInv cap b' := by
  induction ls generalizing b with
  | nil => simp only [brun, Option.some.injEq] at hr; exact hr ▸ h
  | cons l ls ih =>
    simp only [brun] at hr
    cases hs : bstep b l with
    | none => simp [hs] at hr
    | some p =>
      obtain ⟨b1, o⟩ := p
      simp only [hs] at hr
      exact ih b1 (binv_step cap hcap b b1 l o h hs) hr

/-- **No lost wake-up.** In every run of blocking acquirers and releasers, at any point where
every issued token has been released (all windows empty) and no woken thread is still on its
way to re-test, nobody is blocked: an acquirer cannot stay blocked for ever when every issued
token is eventually released. -/
theorem no_lost_wakeup (cap : Nat) (hcap : 0 < cap) (ls : List BLabel) (b : BState)
    (hr : brun (BState.init cap) ls = some b)
    (hall : width b.sws.tags = 0) (hq : b.notified = []) : b.waiting = [] := by
  have := binv_run cap hcap _ b ls (binv_init cap) hr
  by_cases hw : b.waiting = []
  · exact hw
  · rcases this.2 hw with h | h
    · exact absurd hq h
    · omega

/-- **The re-test after waking is necessary** (why the code loops `while self._count == 0: wait()`): between the
`notify()` of a release and the woken thread taking the lock again a third thread may take the slot, and the woken
thread then finds the count at zero — it must wait again, not proceed (the change in `seeded/C10-…-r8` replaced the
loop by a single `wait()`; the count went to −1). -/
theorem barging_makes_retest_necessary :
    ∃ b, brun (BState.init 1) [.acquire 0 0, .acquire 1 0, .release 0 0, .acquire 2 0] = some b ∧
      (1, 0) ∈ b.notified ∧ b.sws.count = 0 ∧
      (bstep b (.wake 1 0)).map (·.2) = some .wouldBlock := by
  refine ⟨_, rfl, ?_, ?_, ?_⟩ <;> decide

/-! ### non-vacuity: concrete histories -/

/-- D15's history (capacity 3: acquire ×3; release 1, 1, 0; acquire; release 3, 2) on the
model: the second `release 1` is rejected and the semaphore ends full. -/
example :
    let ops := [Op.acquire 0, .acquire 0, .acquire 0, .release 0 1, .release 0 1, .release 0 0,
                .acquire 0, .release 0 3, .release 0 2]
    (run (Sws.init 3) ops).count = 3 ∧
    (step (run (Sws.init 3) (ops.take 4)) (.release 0 1)).2 = .valueError := by decide

/-- D11's history: releasing the never-issued next token is rejected. -/
example : (step (run (Sws.init 3) [Op.acquire 0, .release 0 0]) (.release 0 1)).2 = .valueError := by
  decide

example : brun (BState.init 1) [.acquire 1 0, .acquire 2 0, .release 0 0, .wake 2 0, .release 0 1]
    = some { sws := { count := 1, tags := [(0, { next := 2, lowest := 2, pending := [] })] },
             waiting := [], notified := [] } := by decide

/-- **Permit conservation on a serial manager**: after a transfer — whatever raised, Ctrl-C included —
every permit taken by `BoundedExecutor.submit` has been given back (D19) -/
theorem serial_permits_restored (plan : List S3V.Serial.Task) (hwf : S3V.Serial.WF plan) :
    (S3V.Serial.manager S3V.Serial.Tables.current plan).1.permits = 0 :=
  (S3V.Serial.serial_outcome plan hwf).2.1

end S3V.C12
