/-
C02 — downloads deliver exactly the object bytes, also across stream retries.
Quantifiers: every range `[start,start+len)`, every positive io_chunksize, every attempt budget,
every sequence of attempts with arbitrary short reads and faults placed anywhere (unbounded).
The manager-level composition (parts tile the object: C14; offset-addressed destinations:
`apply_consistent_writes`; streaming destinations: C16) is stated at the end.
-/
import S3V.Lemmas.Download
import S3V.Props.C16
import S3V.Props.Serial

namespace S3V.C02
open S3V.Download

/-- running sums of `l` starting from `acc` all lie in `[lo, hi]` -/
def RunningIn (lo hi : Int) : Int → List Int → Prop
  | _, [] => True
  | acc, v :: vs => lo ≤ acc + v ∧ acc + v ≤ hi ∧ RunningIn lo hi (acc + v) vs

theorem RunningIn_append (lo hi acc : Int) (a b : List Int)
    (ha : RunningIn lo hi acc a) (hb : RunningIn lo hi (acc + a.sum) b) :
    RunningIn lo hi acc (a ++ b) := by
  induction a generalizing acc with
  | nil => simpa using hb
  | cons v vs ih =>
    simp only [RunningIn, List.cons_append, List.sum_cons] at ha hb ⊢
    refine ⟨ha.1, ha.2.1, ih _ ha.2.2 ?_⟩
    have : acc + v + vs.sum = acc + (v + vs.sum) := by omega
    rw [this]; exact hb

theorem RunningIn_chunks (acc : Int) (cs : List Nat) (hi : Int) (h0 : 0 ≤ acc)
    (hs : acc + (cs.sum : Nat) ≤ hi) :
    RunningIn 0 hi acc (cs.map (fun (c : Nat) => (c : Int))) := by
  induction cs generalizing acc with
  | nil => trivial
  | cons c cs ih =>
    simp only [List.map_cons, RunningIn, List.sum_cons] at hs ⊢
    refine ⟨by omega, by omega, ih _ (by omega) (by omega)⟩

theorem sum_map_cast (cs : List Nat) : (cs.map (fun (c : Nat) => (c : Int))).sum = (cs.sum : Nat) := by
  induction cs with
  | nil => rfl
  | cons c cs ih => simp only [List.map_cons, List.sum_cons, ih]; omega

/-- events of one attempt: writes tile `[start, start+Σchunks)`, progress is the chunk lengths -/
theorem attemptEvents_spec (io start len : Nat) (a : Attempt) (hio : 0 < io) :
    TilesFrom start (writesOf (attemptEvents io start len a)) (start + (attemptChunks io len a).sum) ∧
    progressOf (attemptEvents io start len a) = (attemptChunks io len a).map (fun (c : Nat) => (c : Int)) ∧
    requestsOf (attemptEvents io start len a) = 0 := by
  unfold attemptEvents
  by_cases h : len = 0
  · rw [if_pos h]
    have hs := (attemptChunks_spec io len a hio).1
    have hz : (attemptChunks io len a).sum = 0 := by omega
    have hall := (attemptChunks_spec io len a hio).2.2
    have hnil : attemptChunks io len a = [] := by
      cases hc : attemptChunks io len a with
      | nil => rfl
      | cons c cs =>
        have := hall c (by simp [hc])
        rw [hc] at hz; simp at hz; omega
    split <;> simp [writesOf, progressOf, requestsOf, TilesFrom, hnil]
  · rw [if_neg h]
    exact chunkEvents_writes start _

/-- **The retry loop.** For every attempt budget and every sequence of attempts:
* at most `maxAttempts` GETs are issued;
* every write lies inside the requested range, at the offset it was fetched from
  (writes of one attempt are consecutive from `start`);
* if the task succeeds, every byte position of the range was written;
* progress: running sums stay in `[0,len]`; the total is `len` on success and `0` when the
  budget ran out (every abandoned attempt is taken back by exactly what it reported). -/
theorem getObject_spec (io start len : Nat) (hio : 0 < io) (n : Nat) (attempts : List Attempt) :
    requestsOf (getObject io start len n attempts).1 ≤ n ∧
    (∀ w ∈ writesOf (getObject io start len n attempts).1, start ≤ w.1 ∧ w.1 + w.2 ≤ start + len) ∧
    ((getObject io start len n attempts).2 = .ok →
      ∀ p, start ≤ p → p < start + len →
        ∃ w ∈ writesOf (getObject io start len n attempts).1, w.1 ≤ p ∧ p < w.1 + w.2) ∧
    RunningIn 0 len 0 (progressOf (getObject io start len n attempts).1) ∧
    ((getObject io start len n attempts).2 = .ok →
      (progressOf (getObject io start len n attempts).1).sum = len) ∧
    ((getObject io start len n attempts).2 = .retriesExceeded →
      (progressOf (getObject io start len n attempts).1).sum = 0) := by
  induction n generalizing attempts with
  | zero => simp [getObject, requestsOf, writesOf, progressOf, RunningIn]
  | succ n ih =>
    cases attempts with
    | nil => simp [getObject, requestsOf, writesOf, progressOf, RunningIn]
    | cons a rest =>
      obtain ⟨c1, c2, c3⟩ := attemptChunks_spec io len a hio
      obtain ⟨e1, e2, e3⟩ := attemptEvents_spec io start len a hio
      obtain ⟨t1, t2, t3⟩ := TilesFrom_cover _ _ _ e1
      have hrun : RunningIn 0 len 0 (progressOf (attemptEvents io start len a)) := by
        rw [e2]; exact RunningIn_chunks 0 _ len (by omega) (by omega)
      have hsum : (progressOf (attemptEvents io start len a)).sum = ((attemptChunks io len a).sum : Nat) := by
        rw [e2]; exact sum_map_cast _
      unfold getObject
      cases he : a.ending with
      | eof =>
        simp only [requestsOf, writesOf, progressOf]
        have hfull := c2 he
        refine ⟨by omega, ?_, ?_, hrun, ?_, (fun h => by cases h)⟩
        · intro w hw; have := t2 w hw; omega
        · intro _ p hp1 hp2; exact t3 p hp1 (by omega)
        · intro _; rw [hsum, hfull]
      | fatal =>
        simp only [requestsOf, writesOf, progressOf]
        refine ⟨by omega, ?_, (fun h => by cases h), hrun, (fun h => by cases h), (fun h => by cases h)⟩
        intro w hw; have := t2 w hw; omega
      | retryable =>
        obtain ⟨i1, i2, i3, i4, i5, i6⟩ := ih rest
        simp only [requestsOf, writesOf, progressOf, writesOf_append, progressOf_append, requestsOf_append]
        have hneg : progressOf (if (attemptChunks io len a).sum = 0 then []
            else [Event.progress (-((attemptChunks io len a).sum : Int))]) =
            (if (attemptChunks io len a).sum = 0 then [] else [(-((attemptChunks io len a).sum : Int))]) := by
          split <;> simp [progressOf]
        have hnegw : writesOf (if (attemptChunks io len a).sum = 0 then []
            else [Event.progress (-((attemptChunks io len a).sum : Int))]) = [] := by
          split <;> simp [writesOf]
        have hnegr : requestsOf (if (attemptChunks io len a).sum = 0 then []
            else [Event.progress (-((attemptChunks io len a).sum : Int))]) = 0 := by
          split <;> simp [requestsOf]
        rw [hneg, hnegw, hnegr]
        have hback : (progressOf (attemptEvents io start len a)).sum +
            (if (attemptChunks io len a).sum = 0 then ([] : List Int)
              else [(-((attemptChunks io len a).sum : Int))]).sum = 0 := by
          rw [hsum]; split <;> simp <;> omega
        refine ⟨by omega, ?_, ?_, ?_, ?_, ?_⟩
        · intro w hw
          simp only [List.append_nil, List.mem_append] at hw
          rcases hw with h | h
          · have := t2 w h; omega
          · exact i2 w h
        · intro hok p hp1 hp2
          obtain ⟨w, hw, hc⟩ := i3 hok p hp1 hp2
          exact ⟨w, by simp [hw], hc⟩
        · apply RunningIn_append
          · apply RunningIn_append
            · exact hrun
            · rw [hsum]
              split
              · trivial
              · simp only [RunningIn]; refine ⟨by omega, by omega, trivial⟩
          · rw [List.sum_append, hback]; exact i4
        · intro hok
          rw [List.sum_append, List.sum_append, hback]; simpa using i5 hok
        · intro hre
          rw [List.sum_append, List.sum_append, hback]; simpa using i6 hre

/-- Non-retryable errors are never retried: the attempt that ended fatally is the last request. -/
theorem fatal_not_retried (io start len n : Nat) (a : Attempt) (rest : List Attempt)
    (h : a.ending = .fatal) :
    (getObject io start len (n + 1) (a :: rest)).2 = .fatal ∧
    requestsOf (getObject io start len (n + 1) (a :: rest)).1 = 1 := by
  have hio : True := trivial
  unfold getObject
  simp only [h, requestsOf]
  refine ⟨trivial, ?_⟩
  unfold attemptEvents
  split
  · split <;> simp [requestsOf]
  · have := (chunkEvents_writes start (attemptChunks io len a)).2.2
    omega

/-- An empty object is still written: exactly one (empty) write, one request, success. -/
theorem empty_object_one_write (io start n : Nat) (script : List Nat) (rest : List Attempt) :
    getObject io start 0 (n + 1) ({ script := script, ending := .eof } :: rest)
      = ([.request, .write start 0], .ok) := by
  simp [getObject, attemptEvents]

/-! ### offset-addressed destinations (files, seekable streams) -/

/-- a destination as a partial map from byte position to value -/
def applyWrite {α : Type} (obj : List α) (dest : Nat → Option α) (w : Nat × Nat) : Nat → Option α :=
  fun p => if w.1 ≤ p ∧ p < w.1 + w.2 then obj[p]? else dest p

def applyWrites {α : Type} (obj : List α) (dest : Nat → Option α) (ws : List (Nat × Nat)) : Nat → Option α :=
  ws.foldl (applyWrite obj) dest

/-- **Any interleaving of consistent writes gives the object.** Every write carries the object's
bytes at its offset (`writes_consistent`: it wrote what it fetched, where it fetched it), so
after applying the writes of all parts and all attempts *in any order*, every covered position
holds the object's byte and every other position is untouched. -/
theorem apply_consistent_writes {α : Type} (obj : List α) (dest : Nat → Option α)
    (ws : List (Nat × Nat)) (p : Nat) :
    applyWrites obj dest ws p =
      if ∃ w ∈ ws, w.1 ≤ p ∧ p < w.1 + w.2 then obj[p]? else dest p := by
  unfold applyWrites
  induction ws generalizing dest with
  | nil => simp
  | cons w ws ih =>
    simp only [List.foldl_cons]
    rw [ih]
    by_cases h1 : ∃ w' ∈ ws, w'.1 ≤ p ∧ p < w'.1 + w'.2
    · have : ∃ w' ∈ w :: ws, w'.1 ≤ p ∧ p < w'.1 + w'.2 := by
        obtain ⟨w', hw', hc⟩ := h1; exact ⟨w', by simp [hw'], hc⟩
      rw [if_pos h1, if_pos this]
    · rw [if_neg h1]
      unfold applyWrite
      by_cases h2 : w.1 ≤ p ∧ p < w.1 + w.2
      · rw [if_pos h2, if_pos ⟨w, by simp, h2⟩]
      · rw [if_neg h2]
        have : ¬ ∃ w' ∈ w :: ws, w'.1 ≤ p ∧ p < w'.1 + w'.2 := by
          rintro ⟨w', hw', hc⟩
          simp only [List.mem_cons] at hw'
          rcases hw' with rfl | hw'
          · exact h2 hc
          · exact h1 ⟨w', hw', hc⟩
        rw [if_neg this]

/-- **File / seekable destination exactness.** If the writes issued (all parts, all attempts, in
whatever order the IO thread ran them) cover `[0,size)` and stay inside it, the destination
holds exactly the object on `[0,size)`. With `getObject_spec` (each successful range covers
itself, every write stays in its range) and C14 (`ranges_tile`) the hypothesis holds for every
successful download. -/
theorem file_exact {α : Type} (obj : List α) (dest : Nat → Option α) (ws : List (Nat × Nat))
    (hcover : ∀ p, p < obj.length → ∃ w ∈ ws, w.1 ≤ p ∧ p < w.1 + w.2) :
    ∀ p, p < obj.length → applyWrites obj dest ws p = obj[p]? := by
  intro p hp
  rw [apply_consistent_writes, if_pos (hcover p hp)]

/-! ### streaming destinations: composition with C16 -/

/-- **Stream exactness.** Feed the deferred-write queue with any delivery history in which every
chunk carries the object's bytes at its offset (all attempts of all parts, interleaved
arbitrarily) and in which every position of the object was delivered at least once: the bytes
written to the stream, in order, are exactly the object. -/
theorem stream_exact {α : Type} (obj : List α) (h : List (Nat × List α))
    (hh : ∀ x ∈ h, S3V.Defer.Cons obj { off := x.1, data := x.2 })
    (hall : ∀ p, p < obj.length → ∃ x ∈ h, x.1 ≤ p ∧ p < x.1 + x.2.length) :
    ((S3V.Defer.runHistory S3V.Defer.DQ.init h).2.map (·.data)).flatten = obj := by
  have h1 := S3V.C16.in_order_once obj h hh
  have h2 := S3V.C16.complete obj h hh obj.length hall
  rw [h1.2]
  exact List.take_of_length_le h2

/-! ### non-vacuity -/
example :
    getObject 4 10 7 3 [{ script := [3], ending := .retryable }, { script := [2, 9], ending := .eof }]
      = ([.request, .progress 3, .write 10 3, .progress (-3),
          .request, .progress 2, .write 10 2, .progress 4, .write 12 4, .progress 1, .write 16 1], .ok) := by
  decide

/-- a download on a serial manager that reports success ran every GET, every write and the final
task to their normal end (`S3V.Serial.serial_no_false_success`): no Ctrl-C, no failure in between -/
theorem serial_success_means_every_step_ok (plan : List S3V.Serial.Task) (hwf : S3V.Serial.WF plan)
    (h : (S3V.Serial.manager S3V.Serial.Tables.current plan).1.success = true) :
    ∀ o ∈ S3V.Serial.allOuts plan, o = .ok :=
  S3V.Serial.serial_no_false_success plan hwf h

end S3V.C02
